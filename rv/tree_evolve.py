"""Machinery for C12 (tree tensor network time evolution): models with a dense reference placed on a tree, generic
full-rank / product / truncated tree states, dense fingerprints in the generation order, edge (bipartition) analysis
from the dense vector, the four tree evolution schemes with fresh configurations, guarded evolve calls.

Import only inside check processes (rv.env.bootstrap() must have run)."""
import numpy as np
import scipy.linalg

from rv import dense, env, evolve, states, trees

QN_MSG = "Inconsistent quantum number size"

# short name -> attribute of EvolveMethod (the keys of renormalizer.tn.tree.EVOLVE_METHODS)
SCHEMES = ["tdvp_vmf", "prop_and_compress_tdrk4", "tdvp_ps", "tdvp_ps2"]
ORDER = {"tdvp_vmf": None, "prop_and_compress_tdrk4": 4, "tdvp_ps": None, "tdvp_ps2": None}
GROWS_BONDS = {"tdvp_vmf": False, "prop_and_compress_tdrk4": True, "tdvp_ps": False, "tdvp_ps2": True}


def registered_schemes():
    """Names of the schemes the tree code registers (EVOLVE_METHODS is filled when time_evolution is imported)."""
    import renormalizer.tn.time_evolution  # noqa: F401 - registers the methods
    from renormalizer.tn.tree import EVOLVE_METHODS
    return sorted(m.name for m in EVOLVE_METHODS)


def make_cfg(name):
    from renormalizer.utils import EvolveConfig, EvolveMethod
    method = getattr(EvolveMethod, name)
    if name == "tdvp_vmf":
        return EvolveConfig(method, ivp_rtol=1e-8, ivp_atol=1e-10, force_ovlp=False)
    return EvolveConfig(method)


def big_cfg(m=10 ** 6):
    from renormalizer.utils import CompressConfig, CompressCriteria
    return CompressConfig(CompressCriteria.fixed, max_bonddim=m)


# ---------------------------------------------------------------------------------------------------- model
class TreeModel:
    """em (rv.evolve.EvoModel: gm, terms, H dense with ||H|| = 1, model, mpo), tree, ttno, orders."""


def physical(basis_list):
    return [b for b in basis_list if not trees.is_dummy(b)]


def hermitian_tree_model(ctx, max_dim=150, nsite=(2, 6), max_tries=40, no_multi_dof=False, qn_mode=None, nonneg_qn=True):
    """Real Hermitian model (the TTNO refuses complex operators) whose physical basis sets all have nbas >= 2
    (todense squeezes size-1 axes) and that has >= 2 physical basis sets."""
    for _ in range(max_tries):
        em = evolve.hermitian_model(ctx, nsite=nsite, max_dim=max_dim, allow_complex=False, qn_mode=qn_mode)
        phys = physical(em.gm.basis)
        if len(phys) < 2 or any(b.nbas < 2 for b in phys):
            continue
        if no_multi_dof and any(b.multi_dof for b in em.gm.basis):
            continue
        if np.iscomplexobj(em.H):
            continue
        if nonneg_qn and not states.all_qn_nonnegative(em.gm):
            continue        # TTNS.random (the only sector-aware random constructor) needs labels >= 0
        return em
    ctx.refuse("no real Hermitian model with nbas >= 2 generated")
    from rv.case import CaseAbort
    raise CaseAbort()


def build_tree(ctx, em, kind, min_nodes=2):
    """A tree of the requested kind over the model's basis sets (>= min_nodes nodes).  The library constructors
    general_mctdh / t3ns refuse two-component models (documented refusal): fall back to linear / binary / random.
    Returns (tree, descriptor, kind actually built)."""
    rng = ctx.rng
    basis = list(em.gm.basis)
    queue = [kind, "random", "binary", "linear"]
    for k in queue:
        kw = {}
        if k == "random":
            force = [None, None, ["root"], ["internal"], ["leaf"], ["root", "internal", "leaf"]][int(rng.integers(0, 6))]
            kw = {"force_virtual": force}
        try:
            tree, desc = trees.build_tree(k, basis, rng, shuffle=bool(rng.random() < 0.4), **kw)
        except ValueError as e:
            if QN_MSG in str(e) and em.gm.qn_size > 1 and k not in ("random", "linear", "binary"):
                ctx.cls("constructor-refused-two-qn")
                ctx.count("constructor-refused-two-qn")
                continue
            raise
        if len(tree.node_list) < min_nodes:
            continue
        return tree, desc, k
    ctx.refuse("no tree with >= 2 nodes")
    from rv.case import CaseAbort
    raise CaseAbort()


def place(ctx, em, tree, desc=None, kind=None):
    """TTNO of the model's terms on the tree plus the dense bookkeeping."""
    from renormalizer.tn import TTNO
    tm = TreeModel()
    tm.em, tm.tree, tm.desc, tm.kind, tm.aux = em, tree, desc, kind, None
    tm.phys = physical(em.gm.basis)
    tm.dims = [b.nbas for b in tm.phys]
    tm.dim = int(np.prod(tm.dims))
    tm.order = list(tm.phys)            # todense(order): generation order, the order of em.H
    tm.H = np.asarray(em.H)
    tm.ttno = ctx.lib(TTNO, tree, list(em.terms), what="TTNO")
    tm.features = trees.tree_features(tree)
    # non-root nodes and the physical sites (positions in tm.order) of their subtrees
    pos = {id(b): i for i, b in enumerate(tm.phys)}
    tm.subsets = []
    for node in tree.node_list:
        sub = []
        stack = [node]
        while stack:
            n = stack.pop()
            sub += [pos[id(b)] for b in n.basis_sets if id(b) in pos]
            stack += list(n.children)
        tm.subsets.append(sorted(sub))
    return tm


def classify_tree(ctx, tm):
    f = tm.features
    ctx.cls("kind:" + str(tm.kind))
    if f["multi_set"]:
        ctx.cls("multi-set-node")
    if f["n_dummy_nodes"]:
        ctx.cls("dummy-node")
    for role in ("root", "internal", "leaf"):
        if f["dummy_" + role]:
            ctx.cls("dummy-" + role)
    if f["max_arity"] >= 2:
        ctx.cls("branching")
    if f["max_arity"] >= 3:
        ctx.cls("arity-3")
    if any(trees.is_dummy(b) for b in tm.em.gm.basis):
        ctx.cls("input-dummy-basis-set")
    if any(b.multi_dof for b in tm.em.gm.basis):
        ctx.cls("multi-dof-site")
    ctx.cls("qn-" + tm.em.gm.desc["qn_mode"])


# --------------------------------------------------------------------------------------------- fingerprints
def dense_of(ttns, order):
    """The vector a TTNS represents in the given order of (non-dummy) basis sets: todense(order) * coeff."""
    return np.asarray(ttns.todense(list(order))).ravel() * ttns.coeff


def exact(tm, psi, tau):
    """exp(-i H tau) psi; tau = -i*beta gives exp(-beta H) psi."""
    return scipy.linalg.expm(-1j * tau * tm.H) @ psi


def edge_report(tm, psi, qntot, rtol=1e-10):
    """For every node: Schmidt rank of (subtree | rest) of the dense vector, and whether one side of the edge is
    complete in the sector (rank equals the number of subtree states, or of rest states, that the sector allows)."""
    mask = dense.sector_mask(tm.phys, qntot).reshape(tm.dims)
    n = len(tm.dims)
    out = []
    for sub in tm.subsets:
        rest = [i for i in range(n) if i not in sub]
        if not sub or not rest:
            out.append({"rank": 1, "rows": 1, "cols": 1, "complete": True})
            continue
        s = dense.schmidt_subset(psi, tm.dims, sub)
        rank = int(np.sum(s > rtol * max(s[0], 1e-300))) if s.size else 0
        m2 = mask.transpose(sub + rest).reshape(int(np.prod([tm.dims[i] for i in sub])), -1)
        rows, cols = int(m2.any(axis=1).sum()), int(m2.any(axis=0).sum())
        out.append({"rank": rank, "rows": rows, "cols": cols, "complete": rank in (rows, cols)})
    return out


def fits(tm, psi, bond_dims, qntot, rtol=1e-9):
    """Every Schmidt rank of the dense vector is within the bond dimension of its edge."""
    rep = edge_report(tm, psi, qntot, rtol)
    return all(r["rank"] <= int(b) for r, b in zip(rep, bond_dims))


def sector_leak(tm, vec, qntot):
    mask = dense.sector_mask(tm.phys, qntot)
    return float(np.linalg.norm(np.asarray(vec)[~mask]))


# --------------------------------------------------------------------------------------------------- states
def complexify(rng, ttns, tm):
    """Random diagonal phase per physical basis state (charge-neutral local unitary): genuinely complex amplitudes,
    same sector, same bond labels."""
    ttns.to_complex(inplace=True)
    for node, bnode in zip(ttns.node_list, tm.tree.node_list):
        a = np.array(node.tensor, dtype=complex)
        nch = len(node.children)
        for k, b in enumerate(bnode.basis_sets):
            ph = np.exp(1j * rng.uniform(0, 2 * np.pi, size=b.nbas))
            shape = [1] * a.ndim
            shape[nch + k] = b.nbas
            a = a * ph.reshape(shape)
        node.tensor = a
    return ttns


def random_full_state(ctx, tm, qntot, complex_amplitudes=None, coeff=None):
    """Generic state of the sector with bond dimensions equal to the largest ranks the sector allows: TTNS.random
    with a large limit, then canonicalise + compress without truncation (drops the redundant directions TTNS.random
    leaves on edges whose other side is smaller), normalised through the dense vector."""
    from renormalizer.tn import TTNS
    rng = ctx.rng
    if not states.all_qn_nonnegative(tm.em.gm):
        return None         # TTNS.random skips blocks by comparing labels with qntot: non-negative labels only
    env.reseed_global(rng)
    try:
        with np.errstate(all="ignore"):
            s = TTNS.random(tm.tree, np.asarray(qntot), max(tm.dim, 4), 1.0)
    except Exception:  # noqa: BLE001 - constructor refusal (empty blocks); the constructor is not C12's subject
        return None
    s.compress_config = big_cfg()
    if complex_amplitudes is None:
        complex_amplitudes = rng.random() < 0.4
    if complex_amplitudes:
        complexify(rng, s, tm)
    s.canonicalise()
    s.compress()
    psi = dense_of(s, tm.order)
    nrm = float(np.linalg.norm(psi))
    if not np.isfinite(nrm) or nrm < 1e-8:
        return None
    s.scale(1.0 / nrm, inplace=True)
    if coeff is not None:
        if isinstance(coeff, complex):
            s.to_complex(inplace=True)
        s.coeff = coeff
    return s


def product_state(ctx, tm, qntot):
    from renormalizer.tn import TTNS
    cond = states.product_condition(ctx.rng, tm.em.gm, qntot, superpose=True)
    s = TTNS(tm.tree, cond)
    s.compress_config = big_cfg()
    # (conditions may carry un-normalised local vectors; the projector-splitting drivers assert a canonical input - a pure
    # gauge change moves the norm to the root)
    s.canonicalise()
    return s


def truncated_state(ctx, tm, full, m_lim):
    """Lossy compression of a copy to the bond limit m_lim (canonical form, centre at the root)."""
    t = full.copy()
    t.compress_config = big_cfg(m_lim)
    t.canonicalise()
    t.compress()
    return t


# -------------------------------------------------------------------------------------------------- evolve
def fresh_copy(s0, scheme, limit=None, cfg=None):
    s = s0.copy()
    s.evolve_config = cfg if cfg is not None else make_cfg(scheme)      # every state gets a FRESH EvolveConfig
    s.compress_config = big_cfg(limit) if limit is not None else big_cfg()
    return s


def run_step(ctx, tm, scheme, s0, tau, normalize=False, limit=None, what=None, ttno=None):
    """One evolve call on a copy carrying fresh configurations.  Returns (result, evolved copy handed to the call)."""
    s = fresh_copy(s0, scheme, limit)
    out = guarded_evolve(ctx, tm, s, ttno if ttno is not None else tm.ttno, tau, normalize,
                         what or f"evolve|{scheme}|{'imag' if np.iscomplex(tau) else 'real'}", scheme)
    return out, s


def guarded_evolve(ctx, tm, s, ttno, tau, normalize, what, scheme):
    """s.evolve(...) with crash classification: the propagation-and-compression scheme builds H^k psi; when one of
    them vanishes identically the library cannot canonicalise / compress the zero state - own signature."""
    import traceback
    from rv.case import CaseAbort, CaseTimeout, _innermost_repo_frame
    env.reseed_global(ctx.rng)
    psi0 = None
    if scheme == "prop_and_compress_tdrk4" and tm is not None:
        # dense vector before the call; with auxiliary DoFs the order is (physical sets, auxiliary sets)
        psi0 = dense_of(s, tm.aux if tm.aux is not None else tm.order)
    try:
        with np.errstate(all="ignore"):
            return s.evolve(ttno, tau, normalize=normalize)
    except (CaseAbort, CaseTimeout):
        raise
    except Exception as e:  # noqa: BLE001
        where = _innermost_repo_frame(e)
        msg = f"{type(e).__name__}: {str(e)[:120]}"
        if psi0 is not None:
            v = psi0.reshape(tm.dim, -1)            # H acts on the physical DoFs (first axis)
            scale = max(float(np.linalg.norm(v)), 1e-300)
            for _k in range(1, 5):
                v = tm.H @ v
                if np.linalg.norm(v) <= 1e-13 * scale:
                    ctx.violate("evolve|pc|state-annihilated-by-a-power-of-H|crash", scheme=what, where=where, message=msg)
                    raise CaseAbort() from e
        # mechanism-level signature: scheme, exception type, innermost repository frame, and the quantum-number arity
        # (several code paths size arrays by the number of label components)
        tag = "|two-component-qn" if tm is not None and getattr(tm, "em", None) is not None and tm.em.gm.qn_size > 1 else ""
        ctx.violate(f"evolve|{scheme}|crash|{type(e).__name__}@{where}{tag}", message=msg, call=what,
                    traceback=traceback.format_exc()[-1500:])
        raise CaseAbort() from e
