"""Driver: fan out the cases of one property to worker subprocesses, aggregate events, classify, write evidence."""
import concurrent.futures as cf
import importlib
import json
import os
import subprocess
import sys
import time

sys.path.insert(0, os.path.dirname(os.path.dirname(os.path.abspath(__file__))))
from rv import env  # noqa: E402

env.bootstrap()

NPROC = int(os.environ.get("VERIF_NPROC", "16"))


def load_known():
    path = os.path.join(env.VERIF_ROOT, "known_findings.json")
    if not os.path.exists(path):
        return []
    with open(path) as f:
        return json.load(f)["findings"]


def spawn(prop, tier, seed, indices, time_limit, chunk_timeout):
    cmd = [sys.executable, "-m", "rv.worker", prop, tier, str(seed), json.dumps(indices), str(time_limit)]
    envv = dict(os.environ)
    envv["PYTHONPATH"] = env.VERIF_ROOT
    envv.setdefault("PYTHONHASHSEED", "0")
    t0 = time.time()
    try:
        p = subprocess.run(cmd, cwd=env.VERIF_ROOT, env=envv, capture_output=True, text=True, timeout=chunk_timeout)
        out, err, rc, timed_out = p.stdout, p.stderr, p.returncode, False
    except subprocess.TimeoutExpired as e:
        out = e.stdout.decode() if isinstance(e.stdout, bytes) else (e.stdout or "")
        err = e.stderr.decode() if isinstance(e.stderr, bytes) else (e.stderr or "")
        rc, timed_out = -9, True
    events, extras, done = [], [], False
    for line in out.splitlines():
        if line.startswith("EV "):
            try:
                events.append(json.loads(line[3:]))
            except json.JSONDecodeError:
                pass
        elif line.startswith("XT "):
            extras.append(json.loads(line[3:]))
        elif line == "DONE":
            done = True
    return {"events": events, "extras": extras, "done": done, "rc": rc, "timed_out": timed_out,
            "stderr": err[-2000:], "wall": time.time() - t0, "indices": indices}


def merge_counts(dst, src):
    for k, v in src.items():
        dst[k] = dst.get(k, 0) + v


def main(argv):
    prop = argv[1].upper()
    module = importlib.import_module(f"rv.props.{prop.lower()}")
    seed = int(os.environ.get("VERIF_SEED", "0"))
    if argv[2] == "--replay":
        return replay(module, prop, argv[3])
    tier = argv[2]
    assert tier in ("quick", "thorough"), tier
    t0 = time.time()
    plan = module.plan(tier)
    ncases = int(plan["ncases"])
    scale = float(os.environ.get("VERIF_SCALE", "1"))
    if scale != 1:
        ncases = max(1, int(ncases * scale))
    nchunks = min(ncases, plan.get("nchunks", NPROC * (1 if tier == "quick" else 3)))
    chunks = [list(range(i, ncases, nchunks)) for i in range(nchunks)]
    time_limit = plan.get("case_time_limit", 300)
    chunk_timeout = plan.get("chunk_timeout", 1500 if tier == "quick" else 5 * 3600)
    results = []
    with cf.ThreadPoolExecutor(max_workers=plan.get("nproc", NPROC)) as ex:
        futs = [ex.submit(spawn, prop, tier, seed, ch, time_limit, chunk_timeout) for ch in chunks]
        for f in cf.as_completed(futs):
            results.append(f.result())

    events = []
    extras = []
    problems = []
    for r in results:
        events.extend(r["events"])
        extras.extend(r["extras"])
        if not r["done"]:
            got = {e["case"] for e in r["events"]}
            missing = [i for i in r["indices"] if i not in got]
            problems.append(f"worker rc={r['rc']} timed_out={r['timed_out']} missing_cases={missing[:5]} "
                            f"stderr={r['stderr'][-400:]!r}")
    events.sort(key=lambda e: e["case"])

    verdicts, classes, counters, refusals, metrics = {}, {}, {}, {}, {}
    nontrivial = set()
    evaluations = 0
    viol_by_sig = {}
    inconcl_msgs = {}
    samples = []
    warn_counts = {}
    for ev in events:
        verdicts[ev["verdict"]] = verdicts.get(ev["verdict"], 0) + 1
        evaluations += ev.get("evaluations", 1)
        nontrivial.update(ev["nontrivial"])
        for c in ev["classes"]:
            classes[c] = classes.get(c, 0) + 1
        merge_counts(counters, ev["counters"])
        for m in ev["refusals"]:
            refusals[m] = refusals.get(m, 0) + 1
        for m in ev["inconclusive"]:
            key = m[:100]
            inconcl_msgs[key] = inconcl_msgs.get(key, 0) + 1
        for k, v in ev["metrics"].items():
            if k == "warnings":
                merge_counts(warn_counts, v)
            elif k not in metrics or v > metrics[k]:
                metrics[k] = v
        for v in ev["violations"]:
            viol_by_sig.setdefault(v["signature"], []).append((ev, v))
        if ev.get("descriptor") is not None and ev["verdict"] == "held" and ev["nontrivial"] and len(samples) < 4:
            samples.append({"case": ev["case"], "descriptor": ev["descriptor"], "classes": ev["classes"]})
    if not samples:
        for ev in events:
            if ev.get("descriptor") is not None and len(samples) < 3:
                samples.append({"case": ev["case"], "verdict": ev["verdict"], "descriptor": ev["descriptor"]})

    # ---- classification of violations against the committed known-findings file -------------------
    known = [k for k in load_known() if k["property"] == prop]
    open_keys = {k["key"]: k for k in known if k["status"] == "open"}
    lines = []
    new_violations = 0
    known_hits = {}
    replay_dir = os.path.join(env.VERIF_ROOT, "replays", prop)
    for sig, lst in sorted(viol_by_sig.items()):
        if sig in open_keys:
            known_hits[sig] = len(lst)
            continue
        new_violations += len(lst)
        os.makedirs(replay_dir, exist_ok=True)
        ev, v = lst[0]
        path = os.path.join(replay_dir, f"{env.dhash(sig)}-{ev['case']}.json")
        with open(path, "w") as f:
            json.dump({"property": prop, "tier": tier, "seed": seed, "case": ev["case"], "signature": sig,
                       "violation": v, "event": ev, "repo": env.repo_git_hash(), "occurrences": len(lst),
                       "other_cases": [e["case"] for e, _ in lst[1:20]]}, f, indent=1)
        lines.append(f"VIOLATION property={prop} replay={path} signature={sig} cases={len(lst)}")
    for sig, n in sorted(known_hits.items()):
        lines.append(f"KNOWN-FINDING: property={prop} {open_keys[sig]['what']} [key={sig} cases={n}]")

    # ---- inconclusive conditions ------------------------------------------------------------------
    reasons = []
    if problems:
        reasons.append("worker-failure: " + " || ".join(problems)[:600])
    if len(events) < ncases:
        reasons.append(f"only {len(events)}/{ncases} cases reported")
    if verdicts.get("harness_error", 0):
        reasons.append(f"harness errors: {verdicts['harness_error']} :: {list(inconcl_msgs)[:2]}")
    if len(nontrivial) < plan.get("min_nontrivial", 2):
        reasons.append(f"distinct non-trivial cases {len(nontrivial)} < required {plan.get('min_nontrivial', 2)}")
    for c in plan.get("required_classes", []):
        if classes.get(c, 0) == 0:
            reasons.append(f"required input class never seen: {c}")
    for c, n in plan.get("required_counters", {}).items():
        if counters.get(c, 0) < n:
            reasons.append(f"monitor counter {c}={counters.get(c, 0)} < required {n}")
    n_inc = verdicts.get("inconclusive", 0)
    if n_inc > max(1, plan.get("max_inconclusive_frac", 0.02) * max(1, len(events))):
        reasons.append(f"{n_inc} cases inconclusive: {list(inconcl_msgs)[:3]}")
    n_ref = verdicts.get("refused", 0)
    if n_ref > plan.get("max_refused_frac", 0.5) * max(1, len(events)):
        reasons.append(f"{n_ref} of {len(events)} cases refused")

    wall = time.time() - t0
    exhaustive = bool(plan.get("exhaustive", False))
    coverage = {
        "evaluations": evaluations,
        "distinct_nontrivial": len(nontrivial),
        "rule": module.RULE,
        "samples": samples,
        "cases": len(events),
        "verdicts": verdicts,
        "input_classes_seen": dict(sorted(classes.items())),
        "monitor_counters": dict(sorted(counters.items())),
        "worst_observed": {k: v for k, v in sorted(metrics.items())},
        "refusals": dict(sorted(refusals.items(), key=lambda kv: -kv[1])[:40]),
        "python_warnings_recorded": warn_counts,
        "known_finding_hits": known_hits,
        "new_violation_signatures": sorted(s for s in viol_by_sig if s not in open_keys),
        "inconclusive_reasons": reasons,
        "inconclusive_case_messages": inconcl_msgs,
    }
    if exhaustive:
        coverage["exhaustive"] = True
    for x in extras:
        for k, v in x.items():
            if isinstance(v, (int, float)) and isinstance(coverage.get("extra_" + k, 0), (int, float)):
                coverage["extra_" + k] = coverage.get("extra_" + k, 0) + v
            else:
                coverage.setdefault("extra_" + k, v)
    if hasattr(module, "finalize"):
        module.finalize(coverage, events)
    evidence = {
        "property_id": prop,
        "tier": tier,
        "seed": seed,
        "level": module.LEVEL,
        "coverage": coverage,
        "assumptions": list(module.ASSUMPTIONS),
        "wall_s": round(wall, 2),
        "violations": new_violations,
        "repo_commit": env.repo_git_hash(),
        "verdict": "violated" if new_violations else ("inconclusive" if reasons else "held"),
    }
    os.makedirs(os.path.join(env.VERIF_ROOT, "evidence"), exist_ok=True)
    # (mutation validation runs against a scratch tree write their evidence beside the real file, never over it)
    with open(os.path.join(env.VERIF_ROOT, "evidence", f"{prop}.json" + os.environ.get("VERIF_EVIDENCE_SUFFIX", "")), "w") as f:
        json.dump(evidence, f, indent=1, sort_keys=True)
        f.write("\n")

    for ln in lines:
        print(ln)
    print(f"SUMMARY property={prop} tier={tier} seed={seed} cases={len(events)} evaluations={evaluations} "
          f"distinct_nontrivial={len(nontrivial)} verdicts={verdicts} wall={wall:.1f}s")
    if new_violations:
        return 1
    if reasons:
        for r in reasons:
            print(f"INCONCLUSIVE property={prop} reason={r}")
        return 2
    return 0


def replay(module, prop, path):
    from rv import case
    with open(path) as f:
        rec = json.load(f)
    if hasattr(module, "setup"):
        module.setup(rec["tier"])
    ev = case.run_one(module, prop, rec["tier"], rec["seed"], rec["case"], keep_descriptor=True)
    print(json.dumps(ev, indent=1)[:6000])
    sigs = {v["signature"] for v in ev["violations"]}
    if rec["signature"] in sigs:
        print(f"VIOLATION property={prop} replay={path} signature={rec['signature']} (reproduced)")
        return 1
    if sigs:
        print(f"VIOLATION property={prop} replay={path} signature={sorted(sigs)[0]} (different signature on replay)")
        return 1
    print(f"replay of case {rec['case']}: no violation on the current tree")
    return 0


if __name__ == "__main__":
    sys.exit(main(sys.argv))
