"""Monitors applied from the harness by rebinding attributes after import (no edits to the repository)."""
import sys

import numpy as np

COUNTS = {}
VIOLATIONS = []   # (signature, detail) recorded by contracts while other workloads run


def bump(name, n=1):
    COUNTS[name] = COUNTS.get(name, 0) + n


def record(signature, **detail):
    VIOLATIONS.append((signature, detail))


def drain(ctx, prefix=""):
    """Move violations recorded by installed contracts into the case context."""
    global VIOLATIONS
    for sig, detail in VIOLATIONS:
        ctx.violate(prefix + sig, **detail)
    VIOLATIONS = []
    for k, v in list(COUNTS.items()):
        ctx.count(k, v)
    COUNTS.clear()


def rebind_everywhere(orig, new, prefix="renormalizer"):
    """Replace every module attribute under `prefix` that *is* `orig` (handles `from m import f` bindings)."""
    n = 0
    for name, mod in list(sys.modules.items()):
        if mod is None or not (name == prefix or name.startswith(prefix + ".")):
            continue
        for attr, val in list(vars(mod).items()):
            if val is orig:
                setattr(mod, attr, new)
                n += 1
    return n


# ------------------------------------------------------------------------------------------- vertex cover
def adj_to_lists(bigraph):
    return [list(map(int, vs)) for vs in bigraph]


def min_cover_bitmask(adj):
    """Exact minimum vertex cover of a bipartite graph with few U vertices: min over S subset U of |S| + |N(U minus S)|."""
    nu = len(adj)
    nb = [0] * nu
    for u, vs in enumerate(adj):
        for v in vs:
            nb[u] |= 1 << v
    best = None
    for s in range(1 << nu):
        need = 0
        for u in range(nu):
            if not (s >> u) & 1:
                need |= nb[u]
        size = bin(s).count("1") + bin(need).count("1")
        if best is None or size < best:
            best = size
    return best


def check_cover(adj, u_tab, v_tab, algo, where="direct"):
    """Oracle for one call of bipartite_vertex_cover.  Missing trailing entries of a table count as False."""
    from rv import dense
    ok = True
    ut = [bool(x) for x in u_tab]
    vt = [bool(x) for x in v_tab]
    for u, vs in enumerate(adj):
        for v in vs:
            cu = ut[u] if u < len(ut) else False
            cv = vt[v] if v < len(vt) else False
            if not (cu or cv):
                record(f"cover-misses-edge|{algo}|{where}", adj=adj, u_table=ut, v_table=vt, edge=[u, v])
                ok = False
                break
        if not ok:
            break
    size = sum(ut) + sum(vt)
    mm = dense.max_matching_size(adj)
    bump("cover_calls_checked")
    if size != mm:
        record(f"cover-not-minimum|{algo}|{where}", adj=adj, u_table=ut, v_table=vt, size=size, max_matching=mm)
        ok = False
    if len(adj) <= 10:
        bf = min_cover_bitmask(adj)
        bump("cover_calls_bruteforced")
        if bf != mm:
            record(f"ORACLE-DISAGREE|matching-vs-bruteforce", adj=adj, mm=mm, bf=bf)
        if size != bf:
            record(f"cover-not-minimum|{algo}|{where}|bruteforce", adj=adj, size=size, minimum=bf)
            ok = False
    return ok


def install_cover_contract():
    """icontract postcondition on bipartite_vertex_cover, bound on every reference inside the repository."""
    import icontract
    from renormalizer.lib.bipartite_matching import bipartite_matching as bm
    orig = bm.bipartite_vertex_cover
    if getattr(orig, "_rv_wrapped", False):
        return

    class CoverBroken(Exception):
        pass

    def cover_is_valid_and_minimum(bigraph, result, algo="Hopcroft-Karp"):
        # records instead of raising, so that the calling workload continues and its own oracle is also consulted
        check_cover(adj_to_lists(bigraph), result[0], result[1], algo, where="call-site")
        return True

    wrapped = icontract.ensure(cover_is_valid_and_minimum, error=CoverBroken)(orig)
    wrapped._rv_wrapped = True
    rebind_everywhere(orig, wrapped)


def install_decompose_hook():
    """Wrap symbolic_mpo._decompose_graph: at every construction step the number of output operators must equal
    the maximum matching of that step's incidence matrix (and not exceed min(#rows, #cols))."""
    from renormalizer.mps import symbolic_mpo as sm
    from rv import dense
    orig = sm._decompose_graph
    if getattr(orig, "_rv_wrapped", False):
        return

    def hooked(term_row, term_col, non_red, in_ops_list, factor, primary_ops, algo, k=1):
        coo = non_red.tocoo()
        nr, nc = non_red.shape
        adj = [[] for _ in range(nr)]
        for r, c in zip(coo.row.tolist(), coo.col.tolist()):
            adj[r].append(c)
        out = orig(term_row, term_col, non_red, in_ops_list, factor, primary_ops, algo, k)
        out_ops = out[0]
        mm = dense.max_matching_size(adj)
        bump("decompose_steps_checked")
        if mm < min(nr, nc):
            bump("decompose_steps_cover_smaller_than_both_sides")
        if len(out_ops) != mm:
            record(f"step-bond-not-minimum|{algo}", n_out=len(out_ops), max_matching=mm, shape=[nr, nc], adj=adj)
        if len(out_ops) > min(nr, nc):
            record(f"step-bond-exceeds-sides|{algo}", n_out=len(out_ops), shape=[nr, nc])
        return out

    hooked._rv_wrapped = True
    sm._decompose_graph = hooked
