"""C14 crash-point machinery: child runner, strace / Python-level enumerators, directory classification,
catalogue of crash tasks over restart generations.  No dependency on the repository (only the child imports it).

Vocabulary
    dump dir   <tmp>/out            (does not exist when a generation-1 job starts: makedirs is a crash point too)
    cur / bak  <job>.npz / <job>.npz.bak   - the names TdMpsJob.dump_dict uses
    state key  abstract directory state, e.g. "bak:complete+cur:partial", "cur:complete", "empty", "nodir";
               a file is  empty (0 bytes) | partial (np.load fails somewhere) | complete (np.load reads every member and
               the content equals the dump dictionary of the (generation, step) it claims) | foreign (loads, wrong content)
    task       one child process = one crash point (or a control run without crash)
"""
import concurrent.futures as cf
import json
import os
import re
import shutil
import signal
import subprocess
import sys
import tempfile
import time

import numpy as np

from rv import c14_child, env

JOB = "job"
CUR = JOB + ".npz"
BAK = CUR + ".bak"
CHILD = os.path.join(os.path.dirname(os.path.abspath(__file__)), "c14_child.py")
CHILD_TIMEOUT = 90
RUNDIR_ENV = "RV_C14_RUNDIR"
S_GEN1 = 3

MUTATING = {"mkdir", "mkdirat", "rmdir", "rename", "renameat", "renameat2", "unlink", "unlinkat", "open", "openat",
            "openat2", "creat", "write", "pwrite64", "writev", "pwritev", "pwritev2", "close", "ftruncate", "truncate",
            "link", "linkat", "symlink", "symlinkat", "fsync", "fdatasync", "fallocate", "sendfile", "copy_file_range"}
OP_ALIAS = {"remove": "unlink", "open": "openat", "unlinkat": "unlink", "renameat": "rename", "renameat2": "rename",
            "replace": "rename", "mkdirat": "mkdir", "pwrite64": "write", "writev": "write"}


def norm_op(op):
    return OP_ALIAS.get(op, op)


# =============================================================================================== child runner
def child_env():
    e = {k: v for k, v in os.environ.items() if k in ("PATH", "HOME", "LANG", "LC_ALL", "LD_LIBRARY_PATH", "TMPDIR")}
    e.update({"OMP_NUM_THREADS": "1", "OPENBLAS_NUM_THREADS": "1", "MKL_NUM_THREADS": "1", "NUMEXPR_NUM_THREADS": "1",
              "PYTHONDONTWRITEBYTECODE": "1", "PYTHONHASHSEED": "0", "RENO_LOG_LEVEL": "50"})
    return e


def child_cfg(out, gen, nsteps, inject=None, **kw):
    cfg = {"repo": env.REPO_ROOT, "dump_dir": out, "job": JOB, "gen": gen, "nsteps": nsteps, "light": True,
           "inject": inject}
    cfg.update(kw)
    return cfg


def run_cmd(cmd, cwd, timeout=CHILD_TIMEOUT):
    """subprocess with its own process group; the whole group is killed on timeout or on any exception."""
    p = subprocess.Popen(cmd, cwd=cwd, env=child_env(), stdout=subprocess.PIPE, stderr=subprocess.PIPE,
                         start_new_session=True)
    try:
        out, err = p.communicate(timeout=timeout)
        return {"rc": p.returncode, "out": out.decode(errors="replace"), "err": err.decode(errors="replace")[-600:],
                "timed_out": False}
    except subprocess.TimeoutExpired:
        _killpg(p)
        out, err = p.communicate()
        return {"rc": p.returncode, "out": out.decode(errors="replace"), "err": err.decode(errors="replace")[-600:],
                "timed_out": True}
    except BaseException:
        _killpg(p)
        p.wait()
        raise


def _killpg(p):
    try:
        os.killpg(p.pid, signal.SIGKILL)
    except (ProcessLookupError, PermissionError):
        pass


def py_cmd(cfg):
    return [sys.executable, CHILD, json.dumps(cfg)]


# ================================================================================================== markers
def parse_markers(text):
    """-> dict(ready, done, events=[...python-level V lines...], last_completed=(g,k)|None, in_dump=(g,k)|None,
    raised=[(g,k,exc)], killed=(idx, op, mode)|None, ioerror=idx|None)"""
    m = {"ready": False, "done": False, "events": [], "last_completed": None, "in_dump": None, "raised": [],
         "killed": None, "ioerror": None, "how": None, "tdmps": None, "begun": [], "lines": 0}
    for line in text.splitlines():
        w = line.split()
        if not w:
            continue
        m["lines"] += 1
        t = w[0]
        if t == "R":
            m["ready"], m["how"], m["tdmps"] = True, w[1], w[2]
        elif t == "D":
            m["done"] = True
        elif t == "B":
            m["in_dump"] = (int(w[1]), int(w[2]))
            m["begun"].append(m["in_dump"])
        elif t == "E":
            m["last_completed"] = (int(w[1]), int(w[2]))
            m["in_dump"] = None
        elif t == "X":
            m["raised"].append((int(w[1]), int(w[2]), w[3]))
            m["in_dump"] = None
        elif t == "V":
            m["events"].append({"i": int(w[1]), "op": w[2], "name": w[3], "nbytes": int(w[4]),
                                "dump": m["in_dump"][1] if m["in_dump"] else None})
        elif t == "K":
            m["killed"] = (int(w[1]), w[2], w[3])
        elif t == "F":
            m["ioerror"] = int(w[1])
    return m


# ==================================================================================== directory classification
def load_npz(path):
    """('complete', (g,k)) | ('empty'|'partial'|'foreign', info)"""
    try:
        if os.path.getsize(path) == 0:
            return "empty", None
        with np.load(path, allow_pickle=False) as z:
            d = {k: z[k] for k in z.files}         # reads (and CRC-checks) every member
    except Exception as e:  # noqa: BLE001
        return "partial", type(e).__name__
    try:
        g, k = int(d["gen"]), int(d["step"])
        want = c14_child.expected_dict(np, g, k)
        if set(d) != set(want):
            return "foreign", f"keys {sorted(d)}"
        for key, w in want.items():
            if d[key].dtype != w.dtype or d[key].shape != w.shape or d[key].tobytes() != w.tobytes():
                return "foreign", f"member {key} of claimed (gen {g}, step {k}) differs"
        return "complete", (g, k)
    except Exception as e:  # noqa: BLE001
        return "foreign", f"{type(e).__name__}"


def classify_dir(out):
    """-> (state_key, files) with files = {role: {"status", "ident", "size"}}; role in cur / bak / other<suffix>."""
    if not os.path.isdir(out):
        return "nodir", {}
    files = {}
    for name in sorted(os.listdir(out)):
        p = os.path.join(out, name)
        role = "cur" if name == CUR else ("bak" if name == BAK else "other[" + name.replace(JOB, "", 1) + "]")
        if os.path.isdir(p):
            files[role] = {"status": "dir", "ident": None, "size": 0}
            continue
        st, ident = load_npz(p)
        files[role] = {"status": st, "ident": ident, "size": os.path.getsize(p)}
    if not files:
        return "empty", files
    key = "+".join(f"{r}:{files[r]['status']}" for r in sorted(files))
    comp = {r: tuple(f["ident"]) for r, f in files.items() if f["status"] == "complete"}
    if "cur" in comp and "bak" in comp:
        key += "(cur-newer)" if comp["cur"] > comp["bak"] else ("(bak-newer)" if comp["bak"] > comp["cur"] else "(same)")
    return key, files


def newest_complete(files):
    best = None
    for r in ("cur", "bak"):
        f = files.get(r)
        if f and f["status"] == "complete":
            if best is None or tuple(f["ident"]) > best:
                best = tuple(f["ident"])
    return best


# ======================================================================================= strace enumerator
_LINE = re.compile(r"^(?:\d+\s+)?(\w+)\((.*)\)\s+= (-?\d+|\?)(.*)$")
_PATHS = re.compile(r'"((?:[^"\\]|\\.)*)"')
_WFLAGS = ("O_WRONLY", "O_RDWR", "O_CREAT", "O_TRUNC", "O_APPEND")


def strace_available():
    """-> (usable, note).  strace must exist AND be allowed to ptrace AND support syscall injection."""
    if os.environ.get("RV_C14_NO_STRACE"):
        return False, "disabled by RV_C14_NO_STRACE (test of the fallback enumerator)"
    exe = shutil.which("strace")
    if not exe:
        return False, "strace not installed"
    try:
        r = subprocess.run([exe, "-o", "/dev/null", "-e", "trace=getpid", "-e", "inject=getpid:signal=KILL:when=1",
                            sys.executable, "-c", "import os; os.getpid(); print('alive')"],
                           capture_output=True, text=True, timeout=60)
    except Exception as e:  # noqa: BLE001
        return False, f"strace probe failed: {type(e).__name__}"
    if r.returncode == -signal.SIGKILL and "alive" not in r.stdout:
        return True, "probe ok: child killed at the entry of the injected syscall"
    return False, f"strace probe: rc={r.returncode} {r.stderr[-160:]!r}"


def parse_strace(text, out):
    """Own path filter over a full trace: syscalls that name a path in the dump directory or use a descriptor opened
    there.  -> list of {"name","n","mut","dump","arg"} in order; n = running count per syscall name (what strace's
    `when=` counts under the same -P set), dump = step whose dump_dict is executing (None: between dumps)."""
    watched_fd = set()
    counts = {}
    seq = []
    cur_dump = None
    names = set()
    prefix = out + "/"
    for line in text.splitlines():
        mm = _LINE.match(line)
        if not mm:
            continue
        name, args, ret = mm.group(1), mm.group(2), mm.group(3)
        if name == "write" and args.startswith("1, "):
            s = _PATHS.search(args)
            if s:
                w = s.group(1).replace("\\n", "").split()
                if w and w[0] == "B":
                    cur_dump = int(w[2])
                elif w and w[0] in ("E", "X"):
                    cur_dump = None
            continue
        paths = [p for p in _PATHS.findall(args) if p == out or p.startswith(prefix)]
        first = args.split(",", 1)[0].strip()
        fd = int(first) if first.isdigit() else None
        matched = bool(paths) or (fd is not None and fd in watched_fd)
        if not matched:
            continue
        names.update(paths)
        if name in ("open", "openat", "openat2", "creat") and ret.lstrip("-").isdigit() and int(ret) >= 0:
            watched_fd.add(int(ret))
        mut = name in MUTATING
        if name in ("open", "openat", "openat2") and not any(f in args for f in _WFLAGS):
            mut = False
        counts[name] = counts.get(name, 0) + 1
        seq.append({"name": name, "n": counts[name], "mut": mut, "dump": cur_dump,
                    "arg": (os.path.basename(paths[0]) if paths else f"fd{fd}")})
        if name == "close" and fd in watched_fd:
            watched_fd.discard(fd)
    return seq, sorted(names)


def strace_record(workdir, out, gen, nsteps):
    """Two passes: (1) full trace, own filter, marker annotation; (2) the same job with the -P set the injection runs use.
    Both sequences must agree, otherwise strace's path filter does not count what this module counts."""
    trace = os.path.join(workdir, "trace1.txt")
    cfg = child_cfg(out, gen, nsteps)
    snap = os.path.join(workdir, "start")
    had = os.path.isdir(out)
    if had:
        shutil.copytree(out, snap)
    r = run_cmd(["strace", "-o", trace, "-e", "trace=%file,%desc", "-e", "signal=none"] + py_cmd(cfg), workdir)
    if r["rc"] != 0 or not os.path.exists(trace):
        return None, f"recording pass 1 failed rc={r['rc']} {r['err'][-200:]}"
    with open(trace, errors="replace") as f:
        seq, names = parse_strace(f.read(), out)
    os.remove(trace)
    # reset the directory to the start state for pass 2
    shutil.rmtree(out, ignore_errors=True)
    if had:
        shutil.copytree(snap, out)
    pset = sorted(set(names) | {out, os.path.join(out, CUR), os.path.join(out, BAK)})
    trace2 = os.path.join(workdir, "trace2.txt")
    cmd = ["strace", "-o", trace2, "-e", "trace=%file,%desc", "-e", "signal=none"]
    for p in pset:
        cmd += ["-P", p]
    r2 = run_cmd(cmd + py_cmd(cfg), workdir)
    if r2["rc"] != 0 or not os.path.exists(trace2):
        return None, f"recording pass 2 failed rc={r2['rc']} {r2['err'][-200:]}"
    with open(trace2, errors="replace") as f:
        seq2 = [m.group(1) for m in map(_LINE.match, f.read().splitlines()) if m]
    os.remove(trace2)
    shutil.rmtree(out, ignore_errors=True)
    if had:
        shutil.copytree(snap, out)
    shutil.rmtree(snap, ignore_errors=True)
    if [s["name"] for s in seq] != seq2:
        return None, f"strace -P matched {len(seq2)} calls, own filter {len(seq)}"
    return {"seq": seq, "paths": [os.path.relpath(p, os.path.dirname(out)) for p in pset]}, None


def strace_inject_cmd(workdir, out, paths, name, n, cfg):
    cmd = ["strace", "-o", "/dev/null", "-e", f"trace={name}", "-e", "signal=none",
           "-e", f"inject={name}:signal=KILL:when={n}"]
    for p in paths:
        cmd += ["-P", os.path.join(os.path.dirname(out), p)]
    return cmd + py_cmd(cfg)


# ================================================================================================ task execution
class Work:
    """A fresh temporary directory holding <tmp>/out, removed on exit whatever happens."""

    def __init__(self, snap=None):
        self.snap = snap

    def __enter__(self):
        self.tmp = tempfile.mkdtemp(prefix="rv_c14_")
        self.out = os.path.join(self.tmp, "out")
        if self.snap and os.path.isdir(self.snap):
            shutil.copytree(self.snap, self.out)
        return self

    def __exit__(self, *a):
        shutil.rmtree(self.tmp, ignore_errors=True)


def execute(task, rundir, keep_to=None):
    """Run one task in a fresh directory.  -> outcome dict (JSON-able).  `keep_to`: copy the final dump dir there."""
    snap = os.path.join(rundir, task["start_snap"]) if task.get("start_snap") else None
    with Work(snap) as w:
        start_key, start_files = classify_dir(w.out)
        start_prev = newest_complete(start_files)
        inject = None
        if task["enum"] == "python" and task["kind"] != "control-plain":
            inject = {k: task[k] for k in ("crash_at", "crash_mode", "ioerror_at") if task.get(k) is not None}
        cfg = child_cfg(w.out, task["gen"], task["nsteps"], inject)
        if task["enum"] == "strace" and task["kind"] == "crash":
            cmd = strace_inject_cmd(w.tmp, w.out, task["paths"], task["sys"], task["n"], cfg)
        else:
            cmd = py_cmd(cfg)
        t0 = time.time()
        r = run_cmd(cmd, w.tmp)
        m = parse_markers(r["out"])
        key, files = classify_dir(w.out)
        stray = sorted(x for x in os.listdir(w.tmp) if x != "out")
        if keep_to is not None and os.path.isdir(w.out):
            shutil.copytree(w.out, keep_to)
        died = None
        if task["kind"] == "crash":
            if task["enum"] == "strace":
                died = (r["rc"] == -signal.SIGKILL) and not m["done"]
            else:
                died = (r["rc"] == 77) and m["killed"] is not None and m["killed"][0] == task["crash_at"]
        return {"rc": r["rc"], "timed_out": r["timed_out"], "stderr": r["err"][-300:], "ready": m["ready"], "done": m["done"],
                "in_dump": m["in_dump"], "last_completed": m["last_completed"], "raised": m["raised"],
                "ioerror": m["ioerror"], "killed": m["killed"], "died_as_planned": died, "how": m["how"], "tdmps": m["tdmps"],
                "begun": m["begun"],
                "state": key, "files": files, "start_state": start_key, "start_prev": start_prev, "stray": stray,
                "wall": round(time.time() - t0, 3), "events": m["events"] if task["kind"] == "record" else None}


def judge(task, o):
    """The offline checker O.  -> dict(verdict in held|violated|vacuous|inconclusive, signature, detail, inside, leaves)."""
    if o["timed_out"]:
        return {"verdict": "inconclusive", "why": "child timed out"}
    if not o["ready"]:
        return {"verdict": "inconclusive", "why": f"child died before it was ready rc={o['rc']} {o['stderr'][-160:]}"}
    if task["kind"] == "crash" and not o["died_as_planned"]:
        return {"verdict": "inconclusive", "why": f"injection did not fire as planned rc={o['rc']} done={o['done']}"}
    if task["kind"].startswith("control") and not o["done"]:
        return {"verdict": "inconclusive", "why": f"control run did not finish rc={o['rc']} {o['stderr'][-160:]}"}
    prev = tuple(o["last_completed"]) if o["last_completed"] else (tuple(o["start_prev"]) if o["start_prev"] else None)
    cur = tuple(o["in_dump"]) if o["in_dump"] else None
    files = o["files"]
    have = {r: tuple(f["ident"]) for r, f in files.items() if r in ("cur", "bak") and f["status"] == "complete"}
    inside = cur is not None
    leaves = len(files)
    res = {"inside": inside, "leaves": leaves, "prev": prev, "cur": cur, "have": have}
    foreign = [r for r, f in files.items() if f["status"] == "foreign"]
    hist = task.get("history", "crash-only")
    start = task["start"].replace(":empty", ":partial")     # a zero-byte file is an incomplete file: same mechanism
    if foreign:
        res.update(verdict="violated", signature=f"crash|loadable-file-with-wrong-content|start={start}|history={hist}",
                   detail={"files": files})
        return res
    # dumps that raised (TdMpsJob swallows the exception and goes on): only the injected IOError may do that
    allowed = 1 if (hist == "ioerror-swallowed" and o.get("ioerror") is not None) else 0
    if len(o.get("raised") or []) > allowed:
        res.update(verdict="violated", signature=f"crash|dump-raised-without-an-injected-fault|history={hist}",
                   detail={"raised": o["raised"], "injected_ioerror": o.get("ioerror")})
        return res
    if task["kind"].startswith("control"):
        # a run without crash dumps after every step and leaves the result of the LAST step loadable
        begun = o.get("begun") or []
        if len(begun) < task["nsteps"]:
            res.update(verdict="violated", signature=f"control|fewer-dumps-than-steps|history={hist}",
                       detail={"begun": begun, "nsteps": task["nsteps"]})
            return res
        last = tuple(o["last_completed"]) if o["last_completed"] else None
        if begun and last is not None and last != tuple(begun[-1]) and allowed == 0:
            res.update(verdict="violated", signature=f"control|last-dump-did-not-complete|history={hist}",
                       detail={"begun": begun, "last_completed": last})
            return res
        if last is not None and last not in have.values():
            res.update(verdict="violated", signature=f"control|result-of-the-last-step-not-loadable|history={hist}",
                       detail={"last_completed": last, "have": have, "files": files})
            return res
    if prev is None:
        res.update(verdict="vacuous")
        return res
    ok = any(v in (prev, cur) for v in have.values())
    if ok:
        res.update(verdict="held")
    else:
        res.update(verdict="violated",
                   signature=f"crash|no-loadable-result-file|start={start}|history={hist}",
                   detail={"left": o["state"], "at": task.get("op"), "n": task.get("n", task.get("crash_at")),
                           "mode": task.get("crash_mode"), "enumerator": task["enum"], "generation": task["gen"],
                           "step_in_progress": cur, "last_completed_dump": prev, "files": files})
    return res


# ================================================================================================== catalogue
def select_strace_points(seq, full, max_dump=None):
    pts = []
    for i, s in enumerate(seq):
        if max_dump is not None and s["dump"] is not None and s["dump"] > max_dump:
            continue
        if full or s["mut"]:
            pts.append({"sys": s["name"], "n": s["n"], "op": norm_op(s["name"]), "dump": s["dump"], "seq": i,
                        "mut": s["mut"]})
    return pts


def select_python_points(events, full, with_before_on_writes, only_dumps=None):
    pts = []
    for e in events:
        if only_dumps is not None and e["dump"] not in only_dumps:
            continue
        op = e["op"]
        if op == "exists" and not full:
            continue
        if op == "write":
            if e["nbytes"] >= 2:
                pts.append(("half", e))
            if with_before_on_writes or full:
                pts.append(("before", e))
                if full and e["nbytes"] > 0:
                    pts.append(("flushed", e))
        elif op in ("flush", "close"):
            pts.append(("before", e))
            if full:
                pts.append(("flushed", e))
        else:
            pts.append(("before", e))
    return [{"crash_at": e["i"], "crash_mode": mode, "op": norm_op(e["op"]), "dump": e["dump"], "nbytes": e["nbytes"]}
            for mode, e in pts]


def build_catalogue(tier, rundir, nproc=16, log=None):
    """Phase 0 (driver, once per run): recordings, crash points, the distinct directory states of every generation but
    the last (observed by running the crash points) and a snapshot of one representative directory per state."""
    t0 = time.time()
    os.makedirs(rundir, exist_ok=True)
    thorough = tier == "thorough"
    ngen = 3 if thorough else 2
    cat = {"tier": tier, "tasks": [], "states": {}, "enumerators": [], "notes": [], "generations": ngen,
           "repo": env.REPO_ROOT}
    use_strace, strace_note = strace_available()
    cat["strace_note"] = strace_note
    pool = cf.ThreadPoolExecutor(max_workers=nproc)
    nchildren = []

    def record(start_key, start_snap, gen, nsteps, ioerror_at=None):
        recs = {}
        snap = os.path.join(rundir, start_snap) if start_snap else None
        if use_strace and ioerror_at is None:
            with Work(snap) as w:
                rec, err = strace_record(w.tmp, w.out, gen, nsteps)
            nchildren.append(2)
            recs["strace"] = rec
            if err:
                recs["strace_error"] = err
        with Work(snap) as w:
            inj = {} if ioerror_at is None else {"ioerror_at": ioerror_at}
            r = run_cmd(py_cmd(child_cfg(w.out, gen, nsteps, inj)), w.tmp)
            nchildren.append(1)
            m = parse_markers(r["out"])
            recs["python"] = {"events": m["events"], "done": m["done"], "raised": m["raised"]} if m["done"] else None
            if not m["done"]:
                recs["python_error"] = f"rc={r['rc']} {r['err'][-200:]}"
        return recs

    def tasks_from(recs, start_key, start_snap, gen, nsteps, full, history="crash-only", ioerror_at=None, only_dumps=None):
        out = []
        base = {"kind": "crash", "gen": gen, "start": start_key, "start_snap": start_snap, "nsteps": nsteps,
                "history": history}
        if recs.get("strace") and ioerror_at is None:
            for p in select_strace_points(recs["strace"]["seq"], full):
                out.append(dict(base, enum="strace", paths=recs["strace"]["paths"], **p))
        if recs.get("python"):
            have_strace = bool(recs.get("strace"))
            for p in select_python_points(recs["python"]["events"], full, not have_strace, only_dumps):
                out.append(dict(base, enum="python", ioerror_at=ioerror_at, **p))
        # control: the same job without any crash
        out.append(dict(base, kind="control", enum="python", ioerror_at=ioerror_at, op=None, dump=None))
        return out

    # ---- generation 1 ------------------------------------------------------------------------------------
    frontier = [("clean", None)]
    seen_states = {}
    for gen in range(1, ngen + 1):
        nsteps = S_GEN1 if gen == 1 else (2 if thorough else 1)
        full = thorough and gen <= 2
        recs_list = list(pool.map(lambda s: record(s[0], s[1], gen, nsteps), frontier))
        gen_tasks = []
        for (skey, ssnap), recs in zip(frontier, recs_list):
            if use_strace and not recs.get("strace"):
                cat["notes"].append(f"strace recording unusable (gen {gen}, start {skey}): {recs.get('strace_error')}")
            if not recs.get("python"):
                cat["notes"].append(f"python recording failed (gen {gen}, start {skey}): {recs.get('python_error')}")
            gen_tasks += tasks_from(recs, skey, ssnap, gen, nsteps, full)
        if gen == 1:
            # history with a failing disk: np.savez raises OSError inside dump 2 (swallowed by evolve), crash in dump 3
            recs0 = recs_list[0]
            if recs0.get("python"):
                wr = [e for e in recs0["python"]["events"] if e["dump"] == 2 and e["op"] == "write" and e["nbytes"] > 0]
                if not wr:
                    # the second dump of an undisturbed run wrote nothing: reported by the control case, no ioerror history
                    cat["notes"].append("recording: dump 2 of the undisturbed run performs no write")
                    picks = []
                else:
                    picks = [wr[len(wr) // 2]] if not thorough else [wr[0], wr[len(wr) // 2], wr[-1]]
                for e in picks:
                    r2 = record("clean", None, 1, S_GEN1, ioerror_at=e["i"])
                    if r2.get("python"):
                        gen_tasks += tasks_from(r2, "clean", None, 1, S_GEN1, thorough, history="ioerror-swallowed",
                                                ioerror_at=e["i"], only_dumps=(3,))
                    else:
                        cat["notes"].append(f"ioerror recording failed: {r2.get('python_error')}")
        for t in gen_tasks:
            t["id"] = len(cat["tasks"])
            cat["tasks"].append(t)
        if gen == ngen:
            break
        # observe the states this generation's crashes leave; snapshot one representative per NEW state
        def observe(t):
            keep = os.path.join(rundir, f"obs{t['id']}")
            o = execute(t, rundir, keep_to=keep)
            nchildren.append(1)
            return t, o, keep
        new_frontier = []
        for t, o, keep in pool.map(observe, [t for t in gen_tasks if t["kind"] == "crash"]):
            ok = o["died_as_planned"] and o["ready"] and not o["timed_out"]
            t["observed_state"] = o["state"] if ok else None
            key = o["state"]
            if ok and key not in seen_states and key != "nodir":
                seen_states[key] = {"snap": f"snap{len(seen_states)}", "first_seen_gen": gen, "by": t["enum"],
                                    "prev": o["files"] and newest_complete(o["files"])}
                if os.path.isdir(keep):
                    os.rename(keep, os.path.join(rundir, seen_states[key]["snap"]))
                else:
                    os.makedirs(os.path.join(rundir, seen_states[key]["snap"]))
                new_frontier.append((key, seen_states[key]["snap"]))
            shutil.rmtree(keep, ignore_errors=True)
        if gen == 1:
            # directories left by a crash of the EARLIER rename/write/delete protocol (the library still cleans up its
            # backup file): written by the harness, because the repaired library never leaves them behind itself
            import io
            def npz_bytes(g, k):
                buf = io.BytesIO()
                np.savez(buf, **c14_child.expected_dict(np, g, k))
                return buf.getvalue()
            for tag, with_partial in (("legacy-partial-cur", True), ("legacy-bak-only", False)):
                snap = f"snapL{int(with_partial)}"
                d = os.path.join(rundir, snap)
                os.makedirs(d, exist_ok=True)
                with open(os.path.join(d, BAK), "wb") as f:
                    f.write(npz_bytes(1, S_GEN1 - 1))
                if with_partial:
                    full = npz_bytes(1, S_GEN1)
                    with open(os.path.join(d, CUR), "wb") as f:
                        f.write(full[: len(full) // 2])
                key, files = classify_dir(d)
                key = "legacy|" + key
                if key not in seen_states:
                    seen_states[key] = {"snap": snap, "first_seen_gen": 1, "by": "harness-legacy", "prev": newest_complete(files)}
                    new_frontier.append((key, snap))
        frontier = sorted(new_frontier)
        if not frontier:
            break
    pool.shutdown()
    cat["states"] = seen_states
    cat["enumerators"] = sorted({t["enum"] for t in cat["tasks"] if t["kind"] == "crash"})
    cat["strace_available"] = use_strace
    cat["phase0_wall"] = round(time.time() - t0, 1)
    cat["phase0_children"] = int(sum(nchildren))
    with open(os.path.join(rundir, "catalogue.json"), "w") as f:
        json.dump(env.jsonable(cat), f)
    return cat


def load_catalogue(rundir):
    with open(os.path.join(rundir, "catalogue.json")) as f:
        return json.load(f)
