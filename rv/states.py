"""Chain states/operators: generators with gauge histories, dense fingerprints, label and isometry monitors."""
import numpy as np

from rv import dense, env, gen


# ------------------------------------------------------------------------------------------- fingerprints
def dense_of(mp):
    """The object a chain represents: todense() times the scalar prefactor (states); todense() for operators."""
    d = np.asarray(mp.todense())
    coeff = getattr(mp, "coeff", 1)
    if mp.is_mpo:
        return d
    return d * coeff


def model_of(gm, terms=None):
    from renormalizer.model import Model
    return Model(list(gm.basis), list(terms) if terms else [])


# ----------------------------------------------------------------------------------------------- sectors
def pick_sector(rng, gm, interesting=True):
    """A non-empty sector: the label of a randomly chosen computational basis state (biased to populated sectors)."""
    q = dense.basis_qn(gm.basis)
    if interesting:
        uniq, counts = np.unique(q, axis=0, return_counts=True)
        w = counts.astype(float) ** 0.7
        k = int(rng.choice(len(uniq), p=w / w.sum()))
        return uniq[k].astype(int)
    return q[int(rng.integers(0, len(q)))].astype(int)


def sector_dim(gm, qntot):
    return int(dense.sector_mask(gm.basis, qntot).sum())


def all_qn_nonnegative(gm):
    return all(np.all(np.asarray(b.sigmaqn) >= 0) for b in gm.basis)


# --------------------------------------------------------------------------------------------- generators
def product_condition(rng, gm, qntot, superpose=True):
    """A `condition` dict for hartree_product_state in sector qntot (random basis state of the sector,
    optionally with a local superposition of states carrying the same label)."""
    q = dense.basis_qn(gm.basis)
    idxs = np.where(np.all(q == np.asarray(qntot).reshape(1, -1), axis=1))[0]
    flat = int(idxs[int(rng.integers(0, len(idxs)))])
    locs = np.unravel_index(flat, gm.dims)
    cond = {}
    for b, loc in zip(gm.basis, locs):
        loc = int(loc)
        key = b.dofs[0]
        sq = np.asarray(b.sigmaqn)
        same = [j for j in range(b.nbas) if np.array_equal(sq[j], sq[loc])]
        if superpose and len(same) > 1 and rng.random() < 0.5:
            vec = np.zeros(b.nbas)
            vals = rng.normal(size=len(same))
            if np.linalg.norm(vals) < 1e-3:
                vals[0] = 1.0
            vec[same] = vals / np.linalg.norm(vals)
            cond[key] = vec.tolist()
        elif superpose and rng.random() < 0.35:
            # the same basis state written as a coefficient vector (the documented other form of a condition), with either
            # sign and not necessarily normalised
            vec = np.zeros(b.nbas)
            vec[loc] = float(rng.choice([1.0, -1.0, -0.6, 2.0]))
            cond[key] = vec.tolist()
        else:
            cond[key] = loc
    return cond


def product_mps(rng, gm, model, qntot, qn_idx=None, superpose=True):
    from renormalizer.mps import Mps
    cond = product_condition(rng, gm, qntot, superpose)
    if qn_idx is None and rng.random() < 0.5:
        qn_idx = int(rng.integers(0, len(gm.basis)))
    return Mps.hartree_product_state(model, cond, qn_idx=qn_idx)


def random_mps(rng, gm, model, qntot, mmax, percent=1.0, tries=6):
    """Mps.random in the sector; retries with a larger bond limit when no amplitude is left (constructor refusal)."""
    from renormalizer.mps import Mps
    if not all_qn_nonnegative(gm):
        return None
    m = mmax
    for _ in range(tries):
        env.reseed_global(rng)
        try:
            with np.errstate(all="ignore"):
                mps = Mps.random(model, np.asarray(qntot), m, percent)
            ok = all(np.all(np.isfinite(mt.array)) for mt in mps)
        except Exception:  # noqa: BLE001 - constructor refusal for empty blocks, counted by the caller
            ok = False
        if ok and np.isfinite(mps.mp_norm) and mps.mp_norm > 1e-8:
            return mps
        m = m * 2 + 1
    return None


def random_state(ctx, gm, model, qntot, mmax=None, allow_product=True):
    """A state of the sector with a random provenance; records the provenance class."""
    rng = ctx.rng
    if mmax is None:
        mmax = int(rng.integers(1, 9))
    r = rng.random()
    mps = None
    if r < 0.7 or not allow_product:
        mps = random_mps(rng, gm, model, qntot, mmax, percent=float(rng.choice([0.0, 0.5, 1.0])))
        if mps is not None:
            ctx.cls("state:random")
    if mps is None:
        k = int(rng.integers(1, 4))
        mps = product_mps(rng, gm, model, qntot)
        for _ in range(k - 1):
            other = product_mps(rng, gm, model, qntot, qn_idx=mps.qnidx)
            other.to_right = mps.to_right
            other = other.scale(float(rng.normal()) or 1.0)
            mps = mps.add(other)
        ctx.cls("state:product-sum" if k > 1 else "state:product")
    mps.compress_config.bond_dim_max_value = 10 ** 6
    if rng.random() < 0.35:
        complexify(rng, mps)
        ctx.cls("state:complex-amplitudes")
    return mps


def complexify(rng, mps):
    """Give the state genuinely complex amplitudes: a random diagonal phase per physical basis state and site
    (a charge-neutral local unitary, so the sector and the bond labels stay valid)."""
    mps.to_complex(inplace=True)
    for i in range(mps.site_num):
        a = np.array(mps[i].array, dtype=complex)
        ph = np.exp(1j * rng.uniform(0, 2 * np.pi, size=a.shape[1]))
        if a.ndim == 3:
            a = a * ph[None, :, None]
        else:
            a = a * ph[None, :, None, None]
        mps[i] = a
    return mps


# ------------------------------------------------------------------------------------------ bond gauge
def bond_gauge(rng, mp, cplx=None, bond=None):
    """Insert G G^-1 on one inner bond (G invertible, well conditioned, block diagonal with respect to the bond's labels):
    the represented object and the labels stay the same, the tensors next to the bond are no isometries any more.
    Returns the bond index or None (one-site chain)."""
    n = mp.site_num
    if n < 2:
        return None
    j = int(rng.integers(1, n)) if bond is None else bond
    d = int(mp.bond_dims[j])
    if cplx is None:
        cplx = bool(rng.random() < 0.5)
    if cplx:
        mp.to_complex(inplace=True)
    labels = np.asarray(mp.qn[j]).reshape(d, -1)
    g = np.zeros((d, d), dtype=complex if cplx else float)
    uniq = np.unique(labels, axis=0)
    for u in uniq:
        idx = np.where(np.all(labels == u, axis=1))[0]
        m = len(idx)
        a = rng.normal(size=(m, m)) + (1j * rng.normal(size=(m, m)) if cplx else 0)
        q, _ = np.linalg.qr(a)
        g[np.ix_(idx, idx)] = q * rng.uniform(0.5, 2.0, size=m)[None, :]
    ginv = np.linalg.inv(g)
    a = np.asarray(mp[j - 1].array)
    b = np.asarray(mp[j].array)
    mp[j - 1] = np.tensordot(a, g, axes=([a.ndim - 1], [0]))
    mp[j] = np.tensordot(ginv, b, axes=([1], [0]))
    return j


# ------------------------------------------------------------------------------------------ gauge history
GAUGE_OPS = ["ensure_left", "ensure_right", "canonicalise_twice", "lossless_compress", "move_qnidx", "to_complex",
             "phase_rotation", "coeff", "none", "bond_gauge"]


def apply_gauge(rng, mp, op=None, trace=None):
    """One gauge / representation change that must not alter the represented object (except 'coeff', which is
    reported through its return value).  Returns the scalar by which the represented object was multiplied."""
    n = mp.site_num
    if op is None:
        op = GAUGE_OPS[int(rng.integers(0, len(GAUGE_OPS)))]
    factor = 1.0
    if op == "ensure_left":
        mp.ensure_left_canonical()
    elif op == "ensure_right":
        mp.ensure_right_canonical()
    elif op == "canonicalise_twice":
        mp.ensure_right_canonical()
        mp.canonicalise()
        mp.canonicalise()
    elif op == "lossless_compress":
        if rng.random() < 0.5:
            mp.ensure_right_canonical()
        else:
            mp.ensure_left_canonical()
        mp.compress(temp_m_trunc=10 ** 6)
    elif op == "move_qnidx":
        k = int(rng.integers(0, n))
        mp.move_qnidx(k)
        op = f"move_qnidx({k})"
    elif op == "to_complex":
        mp.to_complex(inplace=True)
    elif op == "phase_rotation":
        if n >= 2:
            i, j = rng.choice(n, size=2, replace=False).tolist()
            phi = float(rng.uniform(0, 2 * np.pi))
            mp.to_complex(inplace=True)
            mp[i] = mp[i].array * np.exp(1j * phi)
            mp[j] = mp[j].array * np.exp(-1j * phi)
    elif op == "bond_gauge":
        # G G^-1 on an inner bond (block diagonal in the bond labels): non-canonical, real data stay real
        j = bond_gauge(rng, mp, cplx=bool(mp.is_complex and rng.random() < 0.7))
        op = f"bond_gauge({j})"
    elif op == "coeff":
        if hasattr(mp, "coeff") and not mp.is_mpo:
            c = [2.0, -0.5, np.exp(1j * 0.7), 1.0][int(rng.integers(0, 4))]
            old = mp.coeff
            if isinstance(c, complex):
                mp.to_complex(inplace=True)
            mp.coeff = old * c
            factor = c
    if trace is not None:
        trace.append(op)
    return factor


def gauge_history(rng, mp, nmax=4, trace=None, allow_coeff=True):
    total = 1.0
    for _ in range(int(rng.integers(0, nmax + 1))):
        ops = GAUGE_OPS if allow_coeff else [o for o in GAUGE_OPS if o != "coeff"]
        total *= apply_gauge(rng, mp, ops[int(rng.integers(0, len(ops)))], trace)
    return total


# ------------------------------------------------------------------------------------------ label monitor
def _sigma(mp, idx):
    return np.asarray(mp._get_sigmaqn(idx))


def check_labels(mp, rtol=1e-10):
    """Invariant at a quiescent point: the stored bond labels describe the non-zero blocks of every tensor.

    Returns a list of problem strings (empty when the invariant holds)."""
    problems = []
    n = mp.site_num
    qn = [np.asarray(q) for q in mp.qn]
    qntot = np.asarray(mp.qntot).reshape(-1)
    c = mp.qnidx
    bd = mp.bond_dims
    if len(qn) != n + 1:
        return [f"len(qn)={len(qn)} != nsite+1"]
    for j in range(n + 1):
        if qn[j].ndim != 2 or qn[j].shape[0] != bd[j]:
            problems.append(f"bond{j}: label array shape {qn[j].shape} vs bond dimension {bd[j]}")
    if problems:
        return problems
    if not (0 <= c < n):
        return [f"qnidx {c} outside the chain"]
    for i in range(n):
        a = np.asarray(mp[i].array)
        sig = _sigma(mp, i)              # (p, k) for Mps, (p, p, k) for Mpo/MpDm
        ql, qr = qn[i], qn[i + 1]
        k = qntot.shape[0]
        pshape = a.shape[1:-1]
        sig = sig.reshape(pshape + (k,))
        l_ = ql.reshape((ql.shape[0],) + (1,) * len(pshape) + (1, k))
        s_ = sig.reshape((1,) + pshape + (1, k))
        r_ = qr.reshape((1,) + (1,) * len(pshape) + (qr.shape[0], k))
        if i < c:
            ok = np.all(l_ + s_ == r_, axis=-1)
        elif i > c:
            ok = np.all(l_ == s_ + r_, axis=-1)
        else:
            ok = np.all(l_ + s_ + r_ == qntot.reshape((1,) * (len(pshape) + 2) + (k,)), axis=-1)
        mx = np.max(np.abs(a)) if a.size else 0.0
        bad = (~ok) & (np.abs(a) > rtol * max(mx, 1e-300))
        if np.any(bad):
            where = np.argwhere(bad)[0].tolist()
            problems.append(f"site{i}({'centre' if i == c else ('left' if i < c else 'right')}): non-zero entry "
                            f"{where} |a|={abs(a[tuple(where)]):.2e} violates its labels")
    return problems


# --------------------------------------------------------------------------------------- isometry monitor
def isometry_defect(mp, idx, left):
    """|| A^dag A - c 1 || recomputed from the raw array; returns (defect, c)."""
    a = np.asarray(mp[idx].array)
    if left:
        m = a.reshape(-1, a.shape[-1])
        g = m.conj().T @ m
    else:
        m = a.reshape(a.shape[0], -1)
        g = m @ m.conj().T
    c = float(np.real(np.trace(g)) / max(1, g.shape[0]))
    return float(np.max(np.abs(g - c * np.eye(g.shape[0])))) if g.size else 0.0, c


def sector_complete_cuts(gm, qntot, psi, rtol=1e-10):
    """For every inner cut of the chain: is the Schmidt rank of the dense vector `psi` equal to the number of basis
    states of the LEFT part, or of the RIGHT part, that the sector allows (some completion on the other side exists)?
    One-site projector splitting is exact when this holds at every cut (from the inputs only: dense vector and labels)."""
    from rv import dense
    n = len(gm.basis)
    qt = np.asarray(qntot).reshape(-1)
    out = []
    for c in range(1, n):
        ql = dense.basis_qn(gm.basis[:c])
        qr = dense.basis_qn(gm.basis[c:])
        setr = {tuple(x) for x in (qt[None, :] - qr).tolist()}      # left labels that have a right partner
        setl = {tuple(x) for x in (qt[None, :] - ql).tolist()}
        nl = sum(1 for x in ql.tolist() if tuple(x) in setr)
        nr = sum(1 for x in qr.tolist() if tuple(x) in setl)
        rank = dense.schmidt_rank(psi, gm.dims, c, rtol=rtol)
        out.append(rank == nl or rank == nr)
    return out


def exact_bond_caps(dims, squared=False):
    d = np.array(dims, dtype=float)
    if squared:
        d = d ** 2
    left = np.concatenate([[1], np.cumprod(d)])
    right = np.concatenate([[1], np.cumprod(d[::-1])])[::-1]
    return np.minimum(left, right)
