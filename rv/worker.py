"""Runs a chunk of cases of one property; prints one JSON event per case on stdout (prefix 'EV ')."""
import json
import os
import sys

sys.path.insert(0, os.path.dirname(os.path.dirname(os.path.abspath(__file__))))
from rv import env  # noqa: E402

env.bootstrap()


def main():
    prop, tier, seed = sys.argv[1], sys.argv[2], int(sys.argv[3])
    indices = json.loads(sys.argv[4])
    time_limit = int(sys.argv[5]) if len(sys.argv) > 5 else 0
    import importlib
    from rv import case
    module = importlib.import_module(f"rv.props.{prop.lower()}")
    if hasattr(module, "setup"):
        module.setup(tier)
    out = sys.stdout
    for n, idx in enumerate(indices):
        ev = case.run_one(module, prop, tier, seed, idx, keep_descriptor=(n < 2), time_limit=time_limit or None)
        out.write("EV " + json.dumps(ev) + "\n")
        out.flush()
    if hasattr(module, "teardown"):
        extra = module.teardown()
        if extra:
            out.write("XT " + json.dumps(env.jsonable(extra)) + "\n")
    out.write("DONE\n")
    out.flush()


if __name__ == "__main__":
    main()
