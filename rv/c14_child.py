"""C14 child process: a minimal TdMpsJob that dumps a step-identifying dictionary, run to be killed.

usage:  python c14_child.py '<json config>'

config: {"repo": REPO_ROOT, "dump_dir": ..., "job": job name, "gen": generation number, "nsteps": S,
         "inject": null | {"crash_at": i, "crash_mode": "before|flushed|half", "ioerror_at": j},   (rv.fsfault)
         "sleep_ms": optional pause inside every step (random-instant kill stress),
         "light": true -> import renormalizer.utils.tdmps without executing renormalizer/__init__.py}

Progress markers go to stdout with os.write (unbuffered, a pipe owned by the parent; never a file in the dump
directory):   "R"  ready (imports done) / "B g k" dump of step k begins / "E g k" it returned / "X g k <exc>" it raised
/ "S g k" step k of the evolution loop begins / "D" normal termination.  The kernel keeps what was written to the pipe when
the process is killed, so the parent knows exactly between which markers the death happened.

The dump dictionary of (generation g, step k) is a pure function of (g, k) - see ``expected_dict`` - and is
recomputed by the parent: nothing about the expected content is communicated through the file system.
"""
import json
import os
import sys
import time


HERE = os.path.dirname(os.path.abspath(__file__))
if sys.path and os.path.abspath(sys.path[0] or ".") == HERE:
    del sys.path[0]        # the harness package directory must not shadow anything the job imports


def mark(s):
    os.write(1, (s + "\n").encode())


def expected_dict(np, gen, step):
    """What get_dump_dict returns at step `step` of generation `gen` (several arrays -> several zip members)."""
    k = gen * 1000 + step
    return {
        "gen": np.array(gen),
        "step": np.array(step),
        "times": np.arange(step + 1, dtype=float) * 0.5,
        "payload": (np.arange(600, dtype=float) * 0.25 + k).reshape(20, 30),
        "cplx": np.exp(1j * (np.arange(64) + k)),
    }


def import_tdmps(repo, light):
    """The real renormalizer/utils/tdmps.py.  `light`: register empty package objects for `renormalizer` and
    `renormalizer.utils` so that their __init__ (1.6 s: model, mps, scipy.stats ...) is not executed; tdmps.py itself
    and everything it imports (renormalizer.utils.configs ...) are the repository's files, unmodified."""
    sys.path.insert(0, repo)
    if light:
        import types
        saved = dict(sys.modules)
        try:
            for name, sub in (("renormalizer", "renormalizer"), ("renormalizer.utils", "renormalizer/utils")):
                m = types.ModuleType(name)
                m.__path__ = [os.path.join(repo, sub)]
                sys.modules[name] = m
            sys.modules["renormalizer"].utils = sys.modules["renormalizer.utils"]
            from renormalizer.utils import tdmps
            return tdmps, "light"
        except Exception:  # noqa: BLE001 - fall back to the ordinary import
            for k in list(sys.modules):
                if k not in saved:
                    del sys.modules[k]
    os.environ.setdefault("RENO_LOG_LEVEL", "50")
    from renormalizer.utils import tdmps
    return tdmps, "full"


def main():
    cfg = json.loads(sys.argv[1])
    import numpy as np
    tdmps, how = import_tdmps(cfg["repo"], cfg.get("light", True))
    import logging
    logging.disable(logging.CRITICAL)
    gen = int(cfg["gen"])
    sleep = cfg.get("sleep_ms", 0) / 1000.0

    class Job(tdmps.TdMpsJob):
        def init_mps(self):
            return "state-0"

        def process_mps(self, mps):
            pass

        def evolve_single_step(self, dt):
            k = len(self.evolve_times)
            mark(f"S {gen} {k}")
            if sleep:
                time.sleep(sleep)
            return f"state-{k}"

        def get_dump_dict(self):
            return expected_dict(np, gen, len(self.evolve_times) - 1)

        def dump_dict(self):
            k = len(self.evolve_times) - 1
            mark(f"B {gen} {k}")
            try:
                super().dump_dict()
            except BaseException as e:  # noqa: BLE001
                mark(f"X {gen} {k} {type(e).__name__}")
                raise
            mark(f"E {gen} {k}")

    if cfg.get("inject") is not None:
        import importlib.util
        spec = importlib.util.spec_from_file_location("rv_fsfault", os.path.join(HERE, "fsfault.py"))
        fsfault = importlib.util.module_from_spec(spec)
        spec.loader.exec_module(fsfault)
        fsfault.install(cfg["dump_dir"], mark, cfg["inject"])
    mark(f"R {how} {os.path.realpath(tdmps.__file__)}")
    job = Job(dump_dir=cfg["dump_dir"], job_name=cfg["job"])
    job.evolve(evolve_dt=0.5, nsteps=int(cfg["nsteps"]))
    mark("D")


if __name__ == "__main__":
    main()
