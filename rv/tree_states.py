"""Tree tensor network states (renormalizer.tn.TTNS): generators, dense fingerprints, label / isometry monitors,
child-permutation transplants and dense bookkeeping for reduced density matrices.

Import only inside check processes (rv.env.bootstrap() must have put the print_tree shim on sys.path).

Conventions of the library that everything here relies on (read off renormalizer/tn/tree.py, node.py):

* a node tensor has the axes ``[child_0, ..., child_{k-1}, physical_0, ..., physical_{s-1}, parent]`` (one physical
  axis per basis set of the node, purely virtual ``BasisDummy`` sets included with dimension 1; the root has a parent
  axis of dimension 1);
* ``node.qn`` (shape ``(parent bond dimension, qn_size)``) labels the charge of the sub-tree hanging below the bond to
  the parent, WHEREVER the orthogonality centre is; ``root.qn == [qntot]``.  Charge conservation at one node therefore
  reads ``sum_children child.qn + sum_sets sigmaqn == node.qn`` on every non-zero entry, for every node and every
  position of the centre (``get_qnmat`` builds exactly this mask);
* ``TTNS.todense(order)`` contracts the tensors only (no ``coeff``) and returns an array with one axis per entry of
  ``order``; size-1 axes are squeezed away before the contraction, so ``order`` must not contain one-state sets
  (``todense()`` without argument therefore raises KeyError as soon as the tree contains a BasisDummy).  Its
  contraction-path search (opt_einsum 'optimal'/'dp') costs 0.1 .. 1 s for trees of 8+ nodes, so the helpers below
  contract the node tensors themselves (``contract_tree``: tensordot from the leaves to the root, no named indices)
  and use ``todense`` only on request (``library=True``) - the property modules cross-check the two;
* ``TTNS.coeff`` is a scalar prefactor kept outside the tensors (``norm = |coeff| * ttns_norm``; ``scale`` multiplies
  the root tensor and leaves ``coeff`` alone; ``expectation``/RDMs are tensor-level quantities).

The *reference order* used by all dense helpers is the ORIGINAL generation order of the model
(``[b for b in basis_list if not isinstance(b, BasisDummy)]``; every such set must have ``nbas >= 2``),
independent of the tree.
"""
import numpy as np

from rv import dense, env, states, trees


# ------------------------------------------------------------------------------------------------ orders
def _basis_list(gm_or_basis_list):
    return list(getattr(gm_or_basis_list, "basis", gm_or_basis_list))


def reference_order(gm_or_basis_list):
    """The non-dummy basis sets in generation order (what is passed to ``todense(order)``)."""
    return [b for b in _basis_list(gm_or_basis_list) if not trees.is_dummy(b)]


def reference_dims(gm_or_basis_list):
    return [int(b.nbas) for b in reference_order(gm_or_basis_list)]


def contract_tree(ttns):
    """The harness's own contraction of the node tensors along the tree bonds (independent of ``TTNS.todense`` and of
    the named-index machinery).  Returns ``(array, sets)``: one axis per basis set of the tree, dummies included, in the
    order ``sets`` (a list of BasisSet objects; the order is an implementation detail, use ``sets``)."""
    bnode = {id(tn): bn for tn, bn in zip(ttns.node_list, ttns.basis.node_list)}

    def rec(node):
        a = np.asarray(node.tensor)
        k = len(node.children)
        labels = [("c", j) for j in range(k)] + list(bnode[id(node)].basis_sets) + ["parent"]
        assert a.ndim == len(labels), (a.shape, len(labels))
        for j, ch in enumerate(node.children):
            b, blab = rec(ch)
            ax = labels.index(("c", j))
            a = np.tensordot(a, b, axes=([ax], [b.ndim - 1]))
            labels = labels[:ax] + labels[ax + 1:] + blab[:-1]
        ax = labels.index("parent")
        a = np.moveaxis(a, ax, -1)
        labels = labels[:ax] + labels[ax + 1:] + ["parent"]
        return a, labels

    arr, labels = rec(ttns.root)
    assert arr.shape[-1] == 1
    return arr[..., 0], labels[:-1]


def dense_tensor_of_ttns(ttns, gm_or_basis_list=None, library=False):
    """The tensors alone (no coeff) as a 1-D vector in the reference order (tree pre-order if no list is given).

    ``library=False``: contracted by ``contract_tree`` (fast, independent); ``library=True``: ``TTNS.todense(order)``
    (the library's observation point; its contraction-path search is slow for trees with many nodes)."""
    if gm_or_basis_list is None:
        order = [b for b in ttns.basis.basis_list if not trees.is_dummy(b)]
    else:
        order = reference_order(gm_or_basis_list)
    if library:
        return np.asarray(ttns.todense(order)).reshape(-1)
    arr, sets = contract_tree(ttns)
    pos = {id(b): i for i, b in enumerate(sets)}
    front = [pos[id(b)] for b in order]
    rest = [i for i in range(len(sets)) if i not in set(front)]
    assert all(arr.shape[i] == 1 for i in rest), "a basis set of the tree with nbas > 1 is missing from the order"
    return np.transpose(arr, front + rest).reshape(-1)


def dense_of_ttns(ttns, gm_or_basis_list=None, library=False):
    """The vector a TTNS represents: the contracted tensors in generation order times ``coeff`` (1-D)."""
    return dense_tensor_of_ttns(ttns, gm_or_basis_list, library) * ttns.coeff


class TreeMap:
    """Where the basis sets of every node sit in the reference order.

    ``sets[i]``    : for node i (pre-order index) the list, one entry per basis set of the node, of the position of
                     that set in the reference order, or None for a one-state BasisDummy;
    ``subtree[i]`` : sorted reference positions of all non-dummy sets in the sub-tree rooted at node i;
    ``pdims[i]``   : physical dimensions of node i (dummies: 1)."""

    def __init__(self, tree, gm_or_basis_list):
        self.ref = reference_order(gm_or_basis_list)
        self.dims = [int(b.nbas) for b in self.ref]
        pos = {id(b): k for k, b in enumerate(self.ref)}
        nodes = tree.node_list
        self.sets, self.pdims = [], []
        for nd in nodes:
            self.sets.append([pos.get(id(b)) for b in nd.basis_sets])
            self.pdims.append([int(b.nbas) for b in nd.basis_sets])
            for b in nd.basis_sets:
                assert id(b) in pos or trees.is_dummy(b), "tree contains a basis set that is not in the model"
        idx = {id(nd): i for i, nd in enumerate(nodes)}
        self.subtree = [None] * len(nodes)
        for nd in tree.postorder_list():
            i = idx[id(nd)]
            s = [p for p in self.sets[i] if p is not None]
            for ch in nd.children:
                s += self.subtree[idx[id(ch)]]
            self.subtree[i] = sorted(s)
        self.parent = [None if nd.parent is None else idx[id(nd.parent)] for nd in nodes]
        self.dof2pos = {}
        for k, b in enumerate(self.ref):
            for d in b.dofs:
                self.dof2pos[d] = k

    def keep_of_node(self, i):
        return [p for p in self.sets[i] if p is not None]


def rdm_reference(psi, tmap, node_indices):
    """Partial trace of |psi><psi| over everything but the sets of the given nodes, shaped like the library's result:
    ket axes of all sets of node_indices[0], node_indices[1], ... (dummies as size-1 axes) followed by the bra axes."""
    keep, shape = [], []
    for i in node_indices:
        keep += tmap.keep_of_node(i)
        shape += tmap.pdims[i]
    rho = dense.partial_trace(np.asarray(psi), tmap.dims, keep)
    return rho.reshape(shape + shape)


def rdm_reference_sets(psi, tmap, positions):
    """Partial trace keeping the reference positions ``positions`` (in that order): axes ket..., bra..."""
    rho = dense.partial_trace(np.asarray(psi), tmap.dims, list(positions))
    shape = [tmap.dims[p] for p in positions]
    return rho.reshape(shape + shape)


def bond_spectrum_reference(psi, tmap, i):
    """Singular values of the bipartition (sub-tree below the bond node i -> parent | rest)."""
    sub = tmap.subtree[i]
    if not sub or len(sub) == len(tmap.dims):
        return np.array([float(np.linalg.norm(psi))])
    return dense.schmidt_subset(np.asarray(psi), tmap.dims, sub)


# --------------------------------------------------------------------------------------------- generators
def lossless_cfg():
    from renormalizer.utils import CompressConfig, CompressCriteria
    return CompressConfig(CompressCriteria.fixed, max_bonddim=10 ** 6)


def product_ttns(rng, tree, gm, qntot, superpose=True):
    """Bond-dimension-1 state of the sector through the documented ``TTNS(basis, condition)`` constructor."""
    from renormalizer.tn import TTNS
    cond = states.product_condition(rng, gm, qntot, superpose)
    return TTNS(tree, cond)


def random_sector_ttns(rng, tree, qntot, mmax, percent=1.0, tries=5):
    """``TTNS.random`` in the sector; retried with a larger bond limit when nothing is left (returns None when the
    constructor cannot serve the sector: negative labels, empty blocks)."""
    from renormalizer.tn import TTNS
    m = mmax
    for _ in range(tries):
        env.reseed_global(rng)
        try:
            with np.errstate(all="ignore"):
                t = TTNS.random(tree, np.asarray(qntot, dtype=int), m, percent)
            ok = all(np.all(np.isfinite(nd.tensor)) for nd in t.node_list)
            if ok:
                nrm = float(np.linalg.norm(contract_tree(t)[0].ravel()))
                ok = np.isfinite(nrm) and nrm > 1e-8
        except Exception:  # noqa: BLE001 - constructor refusal, the caller falls back to product states
            ok = False
        if ok:
            return t
        m = 2 * m + 1
    return None


def complexify_ttns(rng, ttns):
    """Genuinely complex amplitudes: a random phase per physical basis state of every basis set (a diagonal local
    unitary, which keeps the sector and all bond labels valid).  In place; returns the TTNS."""
    nodes = list(ttns.node_list)
    if len(nodes) > 1 and rng.random() < 0.35:
        # mixed dtypes: only one non-root node becomes complex, the other tensors (the root among them) stay real
        nodes = [nodes[1 + int(rng.integers(0, len(nodes) - 1))]]
    for nd in nodes:
        a = np.array(nd.tensor, dtype=complex)
        nch = len(nd.children)
        nphys = a.ndim - nch - 1
        for k in range(nphys):
            ax = nch + k
            ph = np.exp(1j * rng.uniform(0, 2 * np.pi, size=a.shape[ax]))
            shp = [1] * a.ndim
            shp[ax] = a.shape[ax]
            a = a * ph.reshape(shp)
        nd.tensor = a
    return ttns


def all_qn_nonnegative(gm):
    return all(np.all(np.asarray(b.sigmaqn) >= 0) for b in _basis_list(gm))


def random_ttns(ctx, tree, qntot, mmax, gm=None, allow_product=True, complex_prob=0.35):
    """A TTNS of the sector with random provenance (records the provenance class on ctx):
    ``TTNS.random`` (bond limit mmax, random ``percent``), a product state from the condition-dict constructor, or a
    sum of 2..3 product states; optionally genuinely complex amplitudes.  ``gm`` (rv.gen.GenModel of the basis sets the
    tree was built from) is needed for product states; without it only ``TTNS.random`` is used.
    The result has ``coeff == 1`` and a lossless compress_config."""
    rng = ctx.rng
    t = None
    r = rng.random()
    nonneg = True if gm is None else all_qn_nonnegative(gm)
    if (r < 0.7 or not allow_product or gm is None) and nonneg:
        t = random_sector_ttns(rng, tree, qntot, mmax, percent=float(rng.choice([0.0, 0.5, 1.0])))
        if t is not None:
            ctx.cls("state:random")
    if t is None:
        if gm is None:
            return None
        k = int(rng.integers(1, 4)) if mmax > 1 else 1
        t = product_ttns(rng, tree, gm, qntot)
        for _ in range(k - 1):
            other = product_ttns(rng, tree, gm, qntot)
            other = other.scale(float(rng.normal()) or 1.0)
            t = t.add(other)            # both prefactors are 1 here
        ctx.cls("state:product-sum" if k > 1 else "state:product")
    if rng.random() < complex_prob:
        complexify_ttns(rng, t)
        ctx.cls("state:complex-amplitudes")
    t.compress_config = lossless_cfg()
    return t


def edge_gauge(rng, ttns, cplx=False, lo=0.3, hi=3.0):
    """Insert G G^-1 on the bond between a random non-root node and its parent (G invertible, block diagonal in the bond
    labels, moderately conditioned): the represented vector and the labels stay what they were, the state is no longer
    canonical and the environments of its sub-trees are no longer unit matrices.  Returns the index of the node."""
    nodes = [nd for nd in ttns.node_list if nd.parent is not None]
    if not nodes:
        return None
    nd = nodes[int(rng.integers(0, len(nodes)))]
    m = int(nd.tensor.shape[-1])
    qn = np.asarray(nd.qn).reshape(m, -1)
    G = np.zeros((m, m), dtype=complex if cplx else float)
    for lab in {tuple(r) for r in qn.tolist()}:
        idx = [i for i in range(m) if tuple(qn[i].tolist()) == lab]
        k = len(idx)
        q, _ = np.linalg.qr(rng.normal(size=(k, k)) + (1j * rng.normal(size=(k, k)) if cplx else 0))
        q2, _ = np.linalg.qr(rng.normal(size=(k, k)) + (1j * rng.normal(size=(k, k)) if cplx else 0))
        sv = np.exp(rng.uniform(np.log(lo), np.log(hi), size=k))
        G[np.ix_(idx, idx)] = (q * sv) @ q2
    Ginv = np.linalg.inv(G)
    par = nd.parent
    ax = [c is nd for c in par.children].index(True)
    if cplx:
        for x in ttns.node_list:
            x.tensor = np.asarray(x.tensor, dtype=complex)
    nd.tensor = np.tensordot(nd.tensor, G, axes=([nd.tensor.ndim - 1], [0]))
    pt = np.tensordot(Ginv, par.tensor, axes=([1], [ax]))          # new axis 0 = the child bond
    par.tensor = np.moveaxis(pt, 0, ax)
    return ttns.node_list.index(nd)


def ttno_for(tree, terms, algo="Hopcroft-Karp"):
    """TTNO of the term list on the tree (real operators only: the constructor asserts
    'complex operator not supported yet' otherwise)."""
    from renormalizer.tn import TTNO
    return TTNO(tree, list(terms), algo=algo)


# ------------------------------------------------------------------------------------------ label monitor
def tree_label_problems(ttns, rtol=1e-10):
    """Invariant at a quiescent point: the stored bond labels describe the non-zero blocks of every node tensor:
    ``sum_children child.qn + sum_sets sigmaqn == node.qn`` (root: ``== qntot``) wherever |entry| > rtol * max|tensor|.
    Holds for any position of the orthogonality centre (see the module docstring).  Returns problem strings."""
    problems = []
    nodes = ttns.node_list
    bnodes = ttns.basis.node_list
    k = int(ttns.basis.qn_size)
    root_qn = np.asarray(ttns.root.qn)
    if root_qn.shape != (1, k):
        problems.append(f"root: label array shape {root_qn.shape} != (1, {k})")
        return problems
    for i, (nd, bn) in enumerate(zip(nodes, bnodes)):
        a = np.asarray(nd.tensor)
        q = np.asarray(nd.qn)
        if q.ndim != 2 or q.shape[0] != a.shape[-1] or q.shape[1] != k:
            problems.append(f"node{i}: label array shape {q.shape} vs parent bond {a.shape[-1]} (qn_size {k})")
            continue
        nch = len(nd.children)
        if a.ndim != nch + len(bn.basis_sets) + 1:
            problems.append(f"node{i}: tensor rank {a.ndim} != children {nch} + sets {len(bn.basis_sets)} + 1")
            continue
        total = np.zeros((1,) * a.ndim + (k,), dtype=int)
        bad_shape = False
        for j, ch in enumerate(nd.children):
            cq = np.asarray(ch.qn)
            if cq.ndim != 2 or cq.shape[0] != a.shape[j]:
                problems.append(f"node{i}: child {j} has {cq.shape[0] if cq.ndim else '?'} labels for a bond of {a.shape[j]}")
                bad_shape = True
                break
            shp = [1] * a.ndim + [k]
            shp[j] = a.shape[j]
            total = total + cq.reshape(shp)
        if bad_shape:
            continue
        for s, b in enumerate(bn.basis_sets):
            sq = np.asarray(b.sigmaqn)
            shp = [1] * a.ndim + [k]
            shp[nch + s] = a.shape[nch + s]
            total = total + sq.reshape(shp)
        shp = [1] * a.ndim + [k]
        shp[-2] = a.shape[-1]
        ok = np.all(total == q.reshape(shp), axis=-1)
        ok = np.broadcast_to(ok, a.shape)
        mx = float(np.max(np.abs(a))) if a.size else 0.0
        bad = (~ok) & (np.abs(a) > rtol * max(mx, 1e-300))
        if np.any(bad):
            where = np.argwhere(bad)[0].tolist()
            problems.append(f"node{i}{'(root)' if nd.parent is None else ''}: non-zero entry {where} "
                            f"|a|={abs(a[tuple(where)]):.2e} (max {mx:.2e}) violates its labels")
    return problems


# --------------------------------------------------------------------------------------- isometry monitor
def isometry_defects(ttns):
    """For every non-root node ``max|A^dag A - 1|`` with A = tensor reshaped to (children x physical, parent),
    recomputed from the raw arrays (what 'canonical with the centre at the root' means).  Returns
    ``[(node index, defect), ...]``."""
    out = []
    for i, nd in enumerate(ttns.node_list):
        if nd.parent is None:
            continue
        a = np.asarray(nd.tensor)
        m = a.reshape(-1, a.shape[-1])
        g = m.conj().T @ m
        out.append((i, float(np.max(np.abs(g - np.eye(g.shape[0])))) if g.size else 0.0))
    return out


def max_isometry_defect(ttns):
    d = isometry_defects(ttns)
    return max((x for _, x in d), default=0.0)


# ------------------------------------------------------------------------------- child-permuted transplants
def transplant_to_permuted_tree(ttns, permuted_tree, info):
    """The SAME state on the isomorphic tree ``permuted_tree`` made by ``rv.trees.permuted_children_copy(tree, rng)``
    (``info`` is its third return value): node i of the original becomes node ``info['old_to_new'][i]`` and its child
    axes are transposed so that new child axis j is the old child axis ``info['child_perms'][i][j]``; labels, coeff and
    configurations are copied.  The original is not modified and shares no arrays with the result."""
    from renormalizer.tn import TTNS
    new = TTNS(permuted_tree)
    perms, o2n = info["child_perms"], info["old_to_new"]
    new_nodes = new.node_list
    for i, nd in enumerate(ttns.node_list):
        a = np.asarray(nd.tensor)
        k = len(nd.children)
        p = list(perms[i])
        assert len(p) == k
        axes = p + list(range(k, a.ndim))
        tgt = new_nodes[o2n[i]]
        assert len(tgt.children) == k
        tgt.tensor = np.ascontiguousarray(np.transpose(a, axes)).copy()
        tgt.qn = np.array(nd.qn).copy()
    new.coeff = ttns.coeff
    new.compress_config = ttns.compress_config.copy()
    new.check_shape()
    return new


def same_topology_subset_tree(tree, keep, qn_size=None, label="rv partial"):
    """A basis tree with the topology of ``tree`` whose node i carries only the basis sets b of the original node with
    ``keep(b)`` true (kept in their order); a node left without sets gets a fresh one-state virtual set of the right
    quantum-number size.  This is the shape of operator tree that ``TTNO.apply`` / ``expectation`` accept for a state
    with more degrees of freedom (``get_skip_pidx``).  Returns ``(new_tree, n_dropped_sets)``."""
    from renormalizer.tn.node import TreeNodeBasis, copy_connection
    from renormalizer.tn.treebase import BasisTree
    if qn_size is None:
        qn_size = int(tree.qn_size)
    new_nodes, dropped = [], 0
    for i, nd in enumerate(tree.node_list):
        sets = [b for b in nd.basis_sets if keep(b)]
        dropped += len(nd.basis_sets) - len(sets)
        if not sets:
            sets = [trees.virtual_basis(qn_size, i, label)]
        new_nodes.append(TreeNodeBasis(list(sets)))
    copy_connection(tree.node_list, new_nodes)
    return BasisTree(new_nodes[0]), dropped
