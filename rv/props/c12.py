"""C12 - tree tensor network time evolution matches the exact propagator."""
import numpy as np

from rv import dense, env, evolve, gen, states, trees
from rv import tree_evolve as te

ID = "C12"
LEVEL = "exploration"
RULE = ("One case = one small real Hermitian model (2..6 basis sets, prod(d) <= 150, ||H|| = 1, none/one/two quantum "
        "numbers, dense reference expm(-i tau H) on the vector in generation order), one tree over its basis sets "
        "(BasisTree.linear / binary / general_mctdh order 2,3 plain, contract_primitive, contract_label / t3ns / hand-made "
        "random trees with multi-set, purely virtual root / internal / leaf nodes; >= 2 nodes), the TTNO of the terms, one "
        "sector, a generic full-rank TTNS of the sector (bond dimensions = largest ranks the sector allows, verified "
        "edge by edge on the dense vector) and two of the four registered schemes (tdvp_vmf, prop_and_compress_tdrk4, "
        "tdvp_ps, tdvp_ps2; rotating) each in real AND imaginary time. Oracles: A one step against the dense propagator "
        "(RK4 P&C: e(h)/e(h/2) >= 0.7*32 and e(h) <= 10 x^5; VMF, and PS / PS2 on complete bonds: exact up to the local "
        "solver; PS on sector-limited bonds: second order, ratio >= 0.7*8; PS2 on sector-limited bonds: e(h) <= 10 x^3), sector conservation and bond bookkeeping of "
        "every result, the default normalised call, plus one rotating extra: D t vs t/2+t/2, E norm and energy of tdvp_ps "
        "at a truncated bond dimension over 5 steps, F bond limits of the growing schemes, linear tree vs chain "
        "implementation of the same scheme, states with auxiliary degrees of freedom (H on the physical ones), 2..4-call "
        "histories switching scheme, step and real/imaginary time, product initial states for P&C. Non-trivial: a "
        "measured convergence ratio (e(h) > 1e-9), a truncated manifold in E, or an exactness comparison in which the "
        "state actually moved (||U psi - psi|| >= 1e-3) on a tree with >= 3 nodes; distinct by (scheme, real/imag, tree "
        "shape, model, sector, step).")
ASSUMPTIONS = [
    "real Hermitian operators only (TTNO asserts 'complex operator not supported yet'); physical basis sets with nbas >= 2 (todense squeezes size-1 axes); quantum-number labels >= 0 (TTNS.random, the only sector-aware random constructor, skips blocks by comparing labels with qntot)",
    "bond dimensions sufficient to hold the result: TTNS.random with limit prod(d), canonicalise + lossless compress; the Schmidt ranks of the dense vector at every edge equal the bond dimensions (checked per case), compress_config fixed with limit 1e6, normalize=False for the order/exactness oracles, fresh EvolveConfig and CompressConfig for every call",
    "calibration on the unchanged tree (throw-away script, 30 + 320 models over all 10 tree kinds, e(h), e(h/2), ratio per scheme, real and imaginary time): RK4 P&C ratio 31.94..32.00 in real time and 27.2..35.7 in imaginary time at ||H||tau = 0.5 (the x^6 term is visible there; the check uses tau <= 0.4) - acceptance 0.7*32 = 22.4, e(h) <= 10 x^5; tdvp_vmf with ivp_rtol 1e-8 / ivp_atol 1e-10 at ||H||h <= 0.3: error 2e-12..1.5e-9 - bound 1e-7; tdvp_ps on complete bonds and tdvp_ps2 from a full-rank state at ||H||h = 0.3: error <= 6e-12 (Krylov) - bound 1e-9",
    "one-site projector splitting is exact only when at every edge one side's basis is complete in the sector (Schmidt rank == number of sub-tree states, or of remaining states, that the sector allows; without quantum numbers: rank == min(dim sub-tree, dim rest)): 27/27 such calibration states gave errors <= 6e-12; otherwise (12 calibration states) it is an order-limited splitting scheme, declared second order (symmetric forward + backward sweep); the ratio is judged at ||H||h in [0.04, 0.06]: 200 searched states gave 7.62..8.6 (one 14.3) with a symmetric sweep and 3.93..4.11 where the implementation is only first order - acceptance 0.7*8 = 5.6; tdvp_ps2 was exact on all calibration states but is not in general when no side of an edge is complete (e.g. virtual root with two children whose common bipartition saturates different charge blocks on different sides: 6e-4 at ||H||h = 0.3, erratic ratio 2.6..4.6 because update_2site pads its bond bases with random null-space vectors): there only e(h) <= 10 x^3 is demanded",
    "conservation (E): |norm drift| <= 1e-6 k, |energy drift| <= 1e-6 k ||H|| after k <= 5 real-time steps (||H||h in {0.1, 0.5, 1}) of tdvp_ps at a truncated bond dimension (the Krylov kernel stops at successive-iterate agreement rtol 1e-5 / atol 1e-8; observed drift <= 5e-15)",
    "splitting (D): error of two half steps <= 2.5 e^{x} e(h/2) + local bound (imaginary time: exp(-tau H) amplifies relative errors by at most e^{x})",
    "linear tree vs chain: states related by renormalizer.tn.tree.from_mps; the tree result within its bound of the dense reference and, when the chain result is within its own bound, within the sum of the bounds of each other; RK4 P&C within 1e-9 (both are the same Taylor polynomial; observed 2e-15)",
    "auxiliary space: BasisTree.add_auxiliary_space on models without multi-DoF basis sets, prod(d) <= 16; H given as TTNO on the physical tree (as the repository's own thermal test does) or on the doubled tree",
    "imaginary time: TTNS.evolve works on the object it is called on (ttns = self, no copy), so the projector-splitting schemes return their input object - only the RETURNED object is judged, against the reference computed from the dense vector taken before the call (aliasing belongs to C13; recorded as class observed:imag-time-in-place)",
    "cost limits: tdvp_vmf is left out for trees with > 7 nodes in the quick tier; tdvp_ps2 on trees with arity-3 nodes and >= 6 nodes (seconds per step: optimal contraction-path search in hop_expr2) runs in one time mode only (quick) and is replaced in the D/F/history extras",
    "prod(d) <= 150, <= 10 nodes; GPU backend, dump-to-disk and adaptive stepping (not offered by the tree code) not exercised; general complex steps are outside the property (TTNS.evolve keeps only the imaginary part)",
]

EXACT_BOUND = {"tdvp_vmf": 1e-7, "tdvp_ps": 1e-9, "tdvp_ps2": 1e-9}
SCHEMES = te.SCHEMES


def plan(tier):
    req = (["scheme:%s|%s" % (s, m) for s in SCHEMES for m in ("real", "imag")]
           + ["A:order", "A:exact", "ps:complete-bonds", "ps:incomplete-bonds", "D:splitting", "E:conservation", "E:truncated",
              "F:bond-limit", "G:per-bond-limits", "H:homogeneity", "H:tdvp_ps2|product-state", "linear-vs-chain", "aux-space", "history", "normalised", "state:product", "sector-checked",
              "multi-set-node", "dummy-node", "branching", "qn-none", "qn-one", "qn-two", "state:complex-amplitudes"]
           + ["kind:" + k for k in trees.ALL_KINDS])
    base = {"case_time_limit": 600, "required_classes": req}
    if tier == "quick":
        base.update({"ncases": 96, "min_nontrivial": 150, "required_counters": {"oracle": 900, "ratios_measured": 60}})
    else:
        base.update({"ncases": 3200, "min_nontrivial": 6000,
                     "required_counters": {"oracle": 30000, "ratios_measured": 2000}})
    return base


# ------------------------------------------------------------------------------------------------- helpers
def rel_err(out, order, ref):
    scale = max(float(np.linalg.norm(ref)), 1e-300)
    return float(np.linalg.norm(te.dense_of(out, order) - ref)) / scale


def heavy(tm):
    """Trees on which one two-site step costs seconds: hop_expr2 asks opt_einsum for an optimal contraction path of
    the 8..10 operands of a two-site problem with arity-3 nodes at every local step."""
    return tm.features["max_arity"] >= 3 and tm.features["n_nodes"] >= 6


def allow_ps2(ctx, tm):
    if not heavy(tm):
        return True
    return ctx.tier != "quick" and bool(ctx.rng.random() < 0.3)


def mode_of(imag):
    return "imag" if imag else "real"


def pick_sector(ctx, gm, min_dim=3):
    for _ in range(10):
        q = states.pick_sector(ctx.rng, gm)
        if states.sector_dim(gm, q) >= min_dim:
            return q
    return None


def set_keys(tm, q):
    tm.shape_key = env.dhash(trees.tree_shape(tm.tree))
    tm.model_key = env.dhash({"m": tm.em.gm.describe(), "t": gen.terms_describe(tm.em.terms, 20), "q": np.asarray(q).tolist()})


def common_checks(ctx, tm, sc, imag, s_in, handed, out, qntot, scale):
    """Sector conservation and bond bookkeeping of one result."""
    ctx.cls("sector-checked")
    vec = te.dense_of(out, tm.order)
    ctx.count("oracle")
    leak = te.sector_leak(tm, vec, qntot)
    ctx.metric_max("sector_leak", leak / max(scale, 1e-300))
    ctx.check(leak <= 1e-10 * max(scale, 1e-300), f"sector|{sc}|{mode_of(imag)}|amplitude-outside-the-sector", leak=leak,
              sector=np.asarray(qntot).tolist())
    ctx.check(np.array_equal(np.asarray(out.qntot).reshape(-1), np.asarray(qntot).reshape(-1)),
              f"sector|{sc}|{mode_of(imag)}|qntot-label-changed", got=np.asarray(out.qntot).tolist())
    if not te.GROWS_BONDS[sc]:
        ctx.count("oracle")
        ctx.check(all(int(a) <= int(b) for a, b in zip(out.bond_dims, s_in.bond_dims)), f"F|{sc}|bond-grew",
                  before=list(s_in.bond_dims), after=list(out.bond_dims))
    if imag and out is handed:
        ctx.cls("observed:imag-time-in-place")
    return vec


def step_size(ctx, sc, order, imag):
    """||H|| h of one step.  Over all oracles the steps span 0.04 .. 1.0."""
    u = float(ctx.rng.uniform(0.0, 1.0))
    if order is None:
        if sc == "tdvp_vmf":
            return 0.15 * (0.6 + 0.4 * u)           # cost: ~ 20 derivative evaluations x nodes x 20 ms
        return 0.3 * (0.2 + 0.8 * u)                 # [0.06, 0.3]
    if order == 2:
        return 0.04 + 0.02 * u                       # [0.04, 0.06]: asymptotic regime of the h^3 term (see ASSUMPTIONS)
    return (0.4 if imag else 0.5) * (0.5 + 0.5 * u)  # RK4: [0.2, 0.4] imaginary, [0.25, 0.5] real time


def ps_order(complete):
    """Declared behaviour of the projector-splitting schemes: exact when every edge has one complete side, otherwise
    a second-order splitting (the projectors of consecutive sub-steps no longer cancel pairwise)."""
    return None if complete else 2


def order_of(sc, complete):
    return ps_order(complete) if sc in ("tdvp_ps", "tdvp_ps2") else te.ORDER[sc]


def oracle_A(ctx, tm, sc, s0, psi, qntot, imag, complete, state_cls="full"):
    """One step against the dense propagator: order or exactness.  Returns the relative error."""
    mode = mode_of(imag)
    ctx.cls(f"scheme:{sc}|{mode}")
    order = order_of(sc, complete)
    if sc == "tdvp_ps":
        ctx.cls("ps:complete-bonds" if complete else "ps:incomplete-bonds")
    if sc == "tdvp_ps2" and not complete:
        ctx.cls("ps2:incomplete-bonds")
    x = step_size(ctx, sc, order, imag)
    tau = -1j * x if imag else x
    out, handed = te.run_step(ctx, tm, sc, s0, tau)
    ref = te.exact(tm, psi, tau)
    scale = float(np.linalg.norm(ref))
    common_checks(ctx, tm, sc, imag, s0, handed, out, qntot, scale)
    e1 = rel_err(out, tm.order, ref)
    moved = float(np.linalg.norm(ref - psi)) >= 1e-3 * max(float(np.linalg.norm(psi)), 1e-300)
    key = (sc, mode, tm.shape_key, tm.model_key, state_cls, round(x, 3))
    if order is None and not te.GROWS_BONDS[sc] and not te.fits(tm, ref, s0.bond_dims, qntot):
        # the exact result needs a larger bond dimension than a scheme that cannot grow bonds was given: no
        # exactness promised (does not happen for the generic full-rank states, whose ranks are the sector maxima)
        ctx.count("exact-result-does-not-fit")
        return e1, x
    ctx.count("oracle")
    if order is None:
        ctx.cls("A:exact")
        bound = EXACT_BOUND[sc]
        ctx.metric_max(f"exact_err_over_bound:{sc}|{mode}", e1 / bound)
        ctx.check(e1 <= bound, f"A|{sc}|{mode}|not-exact-at-full-bond", err=e1, x=x, bound=bound, bonds=list(s0.bond_dims),
                  out_bonds=list(out.bond_dims), kind=tm.kind)
        if moved and len(tm.tree.node_list) >= 3:
            ctx.nontrivial(("A-exact",) + key)
        return e1, x
    ctx.cls("A:order")
    p = order
    ctx.check(e1 <= 10 * x ** (p + 1) + 1e-9, f"A|{sc}|{mode}|error-above-order-bound", e=e1, x=x, p=p)
    if sc == "tdvp_ps2":
        # the two-site update pads its bond bases with random null-space vectors (svd_qn full_matrices=True, numpy global
        # RNG): the error constant is not a smooth function of h, so only the order bound above is judged
        return e1, x
    out2, handed2 = te.run_step(ctx, tm, sc, s0, tau / 2)
    ref2 = te.exact(tm, psi, tau / 2)
    common_checks(ctx, tm, sc, imag, s0, handed2, out2, qntot, float(np.linalg.norm(ref2)))
    e2 = rel_err(out2, tm.order, ref2)
    if e2 > 1e-8:
        ratio = e1 / e2
        ctx.count("ratios_measured")
        ctx.metric_max(f"min_ratio_deficit:{sc}|{mode}", (2 ** (p + 1)) / ratio)
        ctx.check(ratio >= 0.7 * 2 ** (p + 1), f"A|{sc}|{mode}|order-lost", ratio=ratio, expected=2 ** (p + 1), e_h=e1,
                  e_half=e2, x=x, kind=tm.kind, bonds=list(s0.bond_dims), features=tm.features)
        if e1 > 1e-9:
            ctx.nontrivial(("A-order",) + key)
    return e1, x


def oracle_normalised(ctx, tm, sc, s0, psi, qntot, imag, complete):
    """The default call (normalize=True): tensors normalised; prefactor kept (real time) / reduced to its phase
    (imaginary time)."""
    import traceback
    from rv.case import CaseAbort, CaseTimeout, _innermost_repo_frame
    mode = mode_of(imag)
    ctx.cls("normalised")
    x = 0.2
    tau = -1j * x if imag else x
    s = te.fresh_copy(s0, sc)
    env.reseed_global(ctx.rng)
    try:
        with np.errstate(all="ignore"):
            out = s.evolve(tm.ttno, tau)
    except (CaseAbort, CaseTimeout):
        raise
    except Exception as e:  # noqa: BLE001
        where = _innermost_repo_frame(e)
        msg = f"{type(e).__name__}: {str(e)[:120]}"
        if tm.em.gm.qn_size > 1 and te.QN_MSG in str(e):
            # expectation()/ttns_norm attach a one-component dummy node to the tree: own mechanism, case goes on
            ctx.count("oracle")
            ctx.violate(f"evolve|normalize|two-component-qn|crash|{type(e).__name__}@{where}", message=msg, scheme=sc, mode=mode)
            return
        ctx.violate(f"evolve|{sc}|normalize|crash|{type(e).__name__}@{where}", message=msg, mode=mode,
                    traceback=traceback.format_exc()[-1500:])
        raise CaseAbort() from e
    ref = te.exact(tm, psi, tau)
    c0 = s0.coeff
    want = ref / np.linalg.norm(ref) * (1.0 if imag else abs(c0))
    got = te.dense_of(out, tm.order)
    # P&C at x = 0.2: (0.2)^5/120 ~ 3e-6; one-site splitting on sector-limited bonds: second order
    split_tol = 1e-6 if complete else 10 * x ** 3
    tol = {"tdvp_vmf": 1e-6, "tdvp_ps2": split_tol, "prop_and_compress_tdrk4": 1e-4, "tdvp_ps": split_tol}[sc]
    ctx.count("oracle", 3)
    d = float(np.linalg.norm(got - want)) / max(float(np.linalg.norm(want)), 1e-300)
    ctx.check(d <= tol, f"normalised|{sc}|{mode}|result-differs", err=d, tol=tol)
    nrm_t = float(np.linalg.norm(np.asarray(out.todense(list(tm.order))).ravel()))
    ctx.check(abs(nrm_t - 1) <= 1e-8, f"normalised|{sc}|{mode}|tensors-not-normalised", norm=nrm_t)
    want_c = c0 / abs(c0) if imag else c0
    ctx.check(abs(out.coeff - want_c) <= 1e-10 * max(1.0, abs(c0)), f"normalised|{sc}|{mode}|prefactor-wrong", got=out.coeff,
              want=want_c)
    if tm.em.gm.qn_size == 1:
        # the library's own observables at the observation points
        ctx.count("oracle")
        n_lib = ctx.lib(lambda: out.ttns_norm, what="ttns_norm")
        ctx.check(abs(n_lib - nrm_t) <= 1e-9, "observable|ttns_norm|differs-from-dense-norm", lib=n_lib, dense=nrm_t)


def oracle_D(ctx, tm, sc, s0, psi, qntot, imag, complete):
    """psi(t) vs psi(t/2)(t/2)."""
    ctx.cls("D:splitting")
    mode = mode_of(imag)
    order = order_of(sc, complete)
    x = step_size(ctx, sc, order, imag) * 0.8
    tau = -1j * x if imag else x
    one, _ = te.run_step(ctx, tm, sc, s0, tau)
    half, _ = te.run_step(ctx, tm, sc, s0, tau / 2)
    two, _ = te.run_step(ctx, tm, sc, half, tau / 2)
    ref = te.exact(tm, psi, tau)
    e1, e2 = rel_err(one, tm.order, ref), rel_err(two, tm.order, ref)
    eh = rel_err(half, tm.order, te.exact(tm, psi, tau / 2))
    amp = float(np.exp(x)) if imag else 1.0         # ||exp(-tau H)|| <= e^{x} relative to the shrinking reference
    local = EXACT_BOUND[sc] if order is None else 1e-9
    bound = 2.5 * amp * eh + local * (1 + amp)
    ctx.count("oracle", 2)
    ctx.check(e2 <= bound, f"D|{sc}|{mode}|two-half-steps-off", e_two=e2, e_half=eh, e_one=e1, x=x)
    d = float(np.linalg.norm(te.dense_of(one, tm.order) - te.dense_of(two, tm.order))) / max(float(np.linalg.norm(ref)), 1e-300)
    ctx.check(d <= e1 + bound + 1e-12, f"D|{sc}|{mode}|t-vs-t/2+t/2-differ", distance=d, e_one=e1, e_two=e2, x=x)
    if order is not None and e1 > 1e-9:
        ctx.nontrivial(("D", sc, mode, tm.shape_key, tm.model_key, round(x, 3)))


def dense_norm_energy(tm, s):
    v = te.dense_of(s, tm.order)
    return float(np.linalg.norm(v)), float(np.real(np.vdot(v, tm.H @ v)))


def oracle_E(ctx, tm, full, qntot):
    """tdvp_ps conserves norm and energy at any bond dimension (real time, time-independent H, normalize=False)."""
    rng = ctx.rng
    ctx.cls("E:conservation")
    caps = list(full.bond_dims)
    if max(caps) < 2:
        return
    m_lim = int(rng.integers(1, max(caps)))
    tr = te.truncated_state(ctx, tm, full, m_lim)
    truncated = any(int(a) < int(b) for a, b in zip(tr.bond_dims, caps))
    if truncated:
        ctx.cls("E:truncated")
    x = float(rng.choice([0.1, 0.5, 1.0]))
    n0, e0 = dense_norm_energy(tm, tr)
    if n0 < 1e-6:
        return
    cur = tr
    for k in range(1, 6):
        cur, _ = te.run_step(ctx, tm, "tdvp_ps", cur, x, limit=m_lim, what="evolve|tdvp_ps|real|truncated")
        n1, e1 = dense_norm_energy(tm, cur)
        ctx.count("oracle", 3)
        ctx.metric_max("E_norm_drift_over_tol", abs(n1 - n0) / (1e-6 * k * max(1.0, n0)))
        ctx.metric_max("E_energy_drift_over_tol", abs(e1 - e0) / (1e-6 * k * max(1.0, n0 ** 2)))
        ctx.check(abs(n1 - n0) <= 1e-6 * k * max(1.0, n0), "E|tdvp_ps|norm-not-conserved", step=k, n0=n0, n1=n1,
                  bonds=list(cur.bond_dims), x=x)
        ctx.check(abs(e1 - e0) <= 1e-6 * k * max(1.0, n0 ** 2), "E|tdvp_ps|energy-not-conserved", step=k, e0=e0, e1=e1,
                  bonds=list(cur.bond_dims), x=x)
        ctx.check(all(int(a) <= int(b) for a, b in zip(cur.bond_dims, tr.bond_dims)), "F|tdvp_ps|bond-grew",
                  before=list(tr.bond_dims), after=list(cur.bond_dims))
        leak = te.sector_leak(tm, te.dense_of(cur, tm.order), qntot)
        ctx.check(leak <= 1e-10 * max(n0, 1e-300), "sector|tdvp_ps|real|amplitude-outside-the-sector", leak=leak, truncated=True)
        if ctx.violations:
            break
    if tm.em.gm.qn_size == 1:
        # observation points named by the property: ttns_norm and expectation(H) of the final state
        ctx.count("oracle", 2)
        n_lib = ctx.lib(lambda: cur.ttns_norm, what="ttns_norm")
        e_lib = ctx.lib(cur.expectation, tm.ttno, what="expectation")
        nt = float(np.linalg.norm(np.asarray(cur.todense(list(tm.order))).ravel()))
        ctx.check(abs(n_lib - nt) <= 1e-9 * max(1.0, nt), "observable|ttns_norm|differs-from-dense-norm", lib=n_lib, dense=nt)
        et = e1 / max(abs(cur.coeff) ** 2, 1e-300)
        ctx.check(abs(np.real(e_lib) - et) <= 1e-9 * max(1.0, nt ** 2), "observable|expectation|differs-from-dense-energy",
                  lib=e_lib, dense=et)
    if truncated:
        ctx.nontrivial(("E", tm.shape_key, tm.model_key, m_lim, x))


def oracle_F(ctx, tm, full, qntot):
    """The bond-growing schemes respect the configured limit."""
    rng = ctx.rng
    ctx.cls("F:bond-limit")
    caps = list(full.bond_dims)
    if max(caps) < 2:
        return
    lim = int(rng.integers(1, max(caps)))
    start = te.truncated_state(ctx, tm, full, lim)
    for sc in ("prop_and_compress_tdrk4", "tdvp_ps2"):
        if sc == "tdvp_ps2" and not allow_ps2(ctx, tm):
            ctx.cls("ps2-skipped-heavy-tree")
            continue
        cur = start
        for _ in range(2):
            imag = bool(rng.random() < 0.3)
            x = 0.3
            cur, _ = te.run_step(ctx, tm, sc, cur, -1j * x if imag else x, limit=lim, what=f"evolve|{sc}|{mode_of(imag)}|limited")
            ctx.count("oracle")
            ctx.check(max(int(b) for b in cur.bond_dims) <= lim, f"F|{sc}|bond-exceeds-configured-limit", limit=lim,
                      bonds=list(cur.bond_dims))
            leak = te.sector_leak(tm, te.dense_of(cur, tm.order), qntot)
            ctx.check(leak <= 1e-10 * max(float(np.linalg.norm(te.dense_of(cur, tm.order))), 1e-300),
                      f"sector|{sc}|{mode_of(imag)}|amplitude-outside-the-sector", leak=leak, truncated=True)


def oracle_G(ctx, tm, full, psi, qntot, complete):
    """Per-bond limits (CompressConfig.max_dims, one entry per node) that are SUFFICIENT - every bond may keep what the
    full-rank state already has - must leave the two-site scheme as accurate as without limits, and every bond within
    its own limit."""
    from renormalizer.utils import CompressConfig, CompressCriteria
    rng = ctx.rng
    sc = "tdvp_ps2"
    if not allow_ps2(ctx, tm) or len(tm.tree.node_list) < 3:
        return
    ctx.cls("G:per-bond-limits")
    n = len(tm.tree.node_list)
    own = [int(b) for b in full.bond_dims]              # bond to the parent, node by node (pre-order)
    limits = np.array([b + int(rng.integers(0, 2)) for b in own] + [1], dtype=int)
    imag = bool(rng.random() < 0.3)
    order = order_of(sc, complete)
    x = step_size(ctx, sc, order, imag)
    tau = -1j * x if imag else x
    s = te.fresh_copy(full, sc)
    cfg = CompressConfig(CompressCriteria.fixed, max_bonddim=int(max(limits)))
    cfg.set_bonddim(n + 1)
    cfg.max_dims = limits.copy()
    s.compress_config = cfg
    out = te.guarded_evolve(ctx, tm, s, tm.ttno, tau, False, f"evolve|{sc}|{mode_of(imag)}|per-bond-limits", sc)
    ref = te.exact(tm, psi, tau)
    e = float(np.linalg.norm(te.dense_of(out, tm.order) - ref)) / max(float(np.linalg.norm(ref)), 1e-300)
    bound = (10 * x ** (order + 1) + 1e-9) if order is not None else EXACT_BOUND[sc]
    ctx.count("oracle", 2)
    ctx.check(e <= bound, f"G|{sc}|{mode_of(imag)}|sufficient-per-bond-limits-change-the-result", err=e, bound=bound, limits=limits.tolist(),
              bonds_before=own, bonds_after=list(map(int, out.bond_dims)))
    ctx.check(all(int(b) <= int(l) for b, l in zip(out.bond_dims, limits)), f"G|{sc}|bond-exceeds-its-own-limit",
              limits=limits.tolist(), bonds=list(map(int, out.bond_dims)))
    if len(set(limits[:-1].tolist())) > 1:
        ctx.nontrivial(("G", trees.tree_shape_key(tm.tree), limits.tolist(), mode_of(imag), round(x, 3)))


def oracle_history(ctx, tm, full, psi, qntot, complete):
    """2..4 calls switching scheme, step and real/imaginary time; additive error budget from the single-step bounds."""
    rng = ctx.rng
    ctx.cls("history")
    cur, ref, budget = full, psi.copy(), 0.0
    trace = []
    for _ in range(int(rng.integers(2, 5))):
        sc = SCHEMES[int(rng.integers(0, 4))]
        if sc == "tdvp_vmf" and len(tm.tree.node_list) > 6 and rng.random() < 0.7:
            sc = "tdvp_ps2"
        if sc == "tdvp_ps2" and not allow_ps2(ctx, tm):
            sc = "tdvp_ps"
        imag = bool(rng.random() < 0.4)
        order = order_of(sc, complete)
        x = step_size(ctx, sc, order, imag) * float(rng.uniform(0.4, 1.0))
        tau = -1j * x if imag else x
        cur, _ = te.run_step(ctx, tm, sc, cur, tau)
        ref = te.exact(tm, ref, tau)
        amp = float(np.exp(x)) if imag else 1.0
        local = (10 * x ** (order + 1)) if order is not None else 10 * EXACT_BOUND[sc]
        budget = amp * budget + local
        trace.append((sc, mode_of(imag), round(x, 3)))
        e = rel_err(cur, tm.order, ref)
        ctx.count("oracle")
        ctx.metric_max("history_err_over_budget", e / (budget + 1e-9))
        if not ctx.check(e <= budget + 1e-9, "history|error-above-additive-budget", trace=trace, err=e, budget=budget,
                         bonds=list(cur.bond_dims)):
            break
        leak = te.sector_leak(tm, te.dense_of(cur, tm.order), qntot)
        ctx.check(leak <= 1e-10 * max(float(np.linalg.norm(ref)), 1e-300), "sector|history|amplitude-outside-the-sector",
                  leak=leak, trace=trace)


def oracle_product(ctx, tm, qntot):
    """Propagation and compression grows bonds by itself: product initial states."""
    ctx.cls("state:product")
    s = ctx.lib(te.product_state, ctx, tm, qntot, what="TTNS(basis, condition)")
    psi = te.dense_of(s, tm.order)
    if te.sector_leak(tm, psi, qntot) > 1e-12:
        ctx.violate("product-state|outside-the-requested-sector", sector=np.asarray(qntot).tolist())
        return
    for imag in (False, True):
        oracle_A(ctx, tm, "prop_and_compress_tdrk4", s, psi, qntot, imag, False, state_cls="product")


def oracle_homogeneity(ctx, tm, qntot, full):
    """Without normalisation every scheme is homogeneous of degree one in the input amplitudes: evolving mu*psi gives mu
    times the evolved psi (the effective Hamiltonians are built from environments of the state itself, so a stale or
    mis-scaled environment shows up here even where the splitting is exact).  The factor is put into the TENSORS
    (TTNS.scale), bond-dimension-one product states included; both runs see the same global random seed."""
    rng = ctx.rng
    ctx.cls("H:homogeneity")
    product = bool(rng.random() < 0.6)
    s0 = te.product_state(ctx, tm, qntot) if product else full
    start = "product-state" if product else "full-rank-state"
    cands = ["tdvp_ps", "prop_and_compress_tdrk4"] + (["tdvp_ps2"] * 3 if allow_ps2(ctx, tm) else [])
    sc = cands[int(rng.integers(0, len(cands)))]
    if sc == "tdvp_ps2":
        # the two-site update completes its bond bases with null-space vectors that LAPACK / the random padding choose and
        # of which only some are kept: which ones is not a continuous function of the two-site tensor (a sign change of the
        # input already selects others, measured deviation 2e-5).  Positive powers of two rescale every intermediate exactly
        mu = [4.0, 0.25, 2.0, 0.5][int(rng.integers(0, 4))]
    else:
        mu = [4.0, 0.25, -3.0, complex(2 * np.exp(0.7j))][int(rng.integers(0, 4))]
    imag = bool(rng.random() < 0.4)
    x = float(rng.uniform(0.1, 0.3))             # ||H|| h as elsewhere
    tau = -1j * x if imag else x
    mode = mode_of(imag)
    ctx.cls(f"H:{sc}|{start}")
    state = rng.bit_generator.state
    out1, _ = te.run_step(ctx, tm, sc, s0, tau, what=f"evolve|{sc}|{mode}|psi")
    after = rng.bit_generator.state
    rng.bit_generator.state = state            # the scaled run draws the same seed for the library's global RNG
    outm, _ = te.run_step(ctx, tm, sc, s0.scale(mu), tau, what=f"evolve|{sc}|{mode}|mu*psi")
    rng.bit_generator.state = after
    a = te.dense_of(out1, tm.order)
    b = te.dense_of(outm, tm.order)
    ctx.count("oracle")
    ctx.count("homogeneity_checks")
    ctx.close(b, mu * a, 2e-4 if sc == "tdvp_ps2" else 1e-6, f"H|{sc}|{mode}|evolved-state-not-proportional-to-the-input-amplitude|{start}",
              scale=max(float(np.linalg.norm(mu * a)), 1e-300), mu=mu, x=x, bonds=list(s0.bond_dims))


def oracle_ps_incomplete(ctx):
    """The one-site splitting on sector-limited bond bases (no side of some edge complete): a second-order scheme.
    Such states need quantum numbers and a sector in which different charge blocks saturate on different sides, so
    they are searched for (up to 12 models)."""
    rng = ctx.rng
    for _ in range(12):
        em = te.hermitian_tree_model(ctx, nsite=(3, 6), qn_mode=str(rng.choice(["one", "two"], p=[0.7, 0.3])))
        kind = trees.ALL_KINDS[int(rng.integers(0, len(trees.ALL_KINDS)))]
        tree, desc, kind = te.build_tree(ctx, em, kind)
        tm = te.place(ctx, em, tree, desc, kind)
        q = pick_sector(ctx, em.gm, min_dim=4)
        if q is None:
            continue
        full = te.random_full_state(ctx, tm, q)
        if full is None:
            continue
        psi = te.dense_of(full, tm.order)
        rep = te.edge_report(tm, psi, q)
        if all(r["complete"] for r in rep) or [r["rank"] for r in rep] != [int(b) for b in full.bond_dims]:
            continue
        set_keys(tm, q)
        te.classify_tree(ctx, tm)
        ctx.cls("ps:incomplete-searched")
        for imag in (False, True):
            oracle_A(ctx, tm, "tdvp_ps", full, psi, q, imag, False)
        return
    ctx.count("ps-incomplete-search-failed")


# ----------------------------------------------------------------------------------- linear tree vs chain
def oracle_chain(ctx):
    from renormalizer.tn.tree import from_mps
    rng = ctx.rng
    ctx.cls("linear-vs-chain")
    em = te.hermitian_tree_model(ctx, nsite=(2, 5), max_dim=100)
    q = pick_sector(ctx, em.gm)
    if q is None:
        return
    full = evolve.generic_full_state(ctx, em, q)
    if full is None:
        ctx.count("chain-state-refused")
        return
    psi = states.dense_of(full).ravel()
    basis_tree, ttns, ttno = ctx.lib(from_mps, full, what="from_mps")
    tm = te.TreeModel()
    tm.em, tm.tree, tm.kind, tm.ttno = em, basis_tree, "linear", ttno
    tm.phys = te.physical(em.gm.basis)
    tm.order, tm.dims, tm.H, tm.aux = list(tm.phys), [b.nbas for b in tm.phys], np.asarray(em.H), None
    tm.dim = int(np.prod(tm.dims))
    ctx.count("oracle")
    if not ctx.close(te.dense_of(ttns, tm.order), psi, 1e-12, "linear-vs-chain|from_mps|vector-differs", scale=1.0):
        return
    caps = [int(c) for c in states.exact_bond_caps(em.gm.dims)]
    complete = list(full.bond_dims) == caps
    cat = {s.name: s for s in evolve.scheme_list()}
    chain_name = {"tdvp_ps": "ps-krylov", "tdvp_ps2": "ps2-krylov", "prop_and_compress_tdrk4": "pc-tdrk4",
                  "tdvp_vmf": "vmf-std-noovlp"}
    start = int(rng.integers(0, 4))
    for k in range(2):
        sc = SCHEMES[(start + k) % 4]
        imag = bool(rng.random() < 0.5)
        mode = mode_of(imag)
        ctx.cls(f"linear-vs-chain:{sc}|{mode}")
        order = order_of(sc, complete)
        x = step_size(ctx, sc, order, imag)
        tau = -1j * x if imag else x
        ref = te.exact(tm, psi, tau)
        scale = float(np.linalg.norm(ref))
        bound = (10 * x ** (order + 1) + 1e-9) if order is not None else EXACT_BOUND[sc]
        m = full.copy()
        m.evolve_config = cat[chain_name[sc]].make_cfg()
        cm = evolve.guarded_evolve(ctx, m, em.mpo, tau, False, f"chain-evolve|{chain_name[sc]}|{mode}", cat[chain_name[sc]].family)
        got_c = states.dense_of(cm).ravel()
        out, _ = te.run_step(ctx, tm, sc, ttns, tau)
        got_t = te.dense_of(out, tm.order)
        e_c = float(np.linalg.norm(got_c - ref)) / scale
        e_t = float(np.linalg.norm(got_t - ref)) / scale
        d = float(np.linalg.norm(got_c - got_t)) / scale
        ctx.count("oracle", 2)
        ctx.metric_max(f"linear_vs_chain_distance:{sc}", d)
        ctx.check(e_t <= bound, f"linear-vs-chain|{sc}|{mode}|tree-result-off-the-reference", e_tree=e_t, e_chain=e_c, x=x, bound=bound)
        pair_tol = 2 * bound if sc != "prop_and_compress_tdrk4" else 1e-9
        if e_c <= bound:        # the chain is C09's subject; it serves as second reference only when it is itself in bounds
            ctx.check(d <= pair_tol, f"linear-vs-chain|{sc}|{mode}|differ", distance=d, e_tree=e_t, e_chain=e_c, x=x, tol=pair_tol)
        else:
            ctx.count("chain-out-of-its-own-bound")
        if d > 0 and len(basis_tree.node_list) >= 3:
            ctx.nontrivial(("chain", sc, mode, env.dhash(em.gm.describe()), np.asarray(q).tolist(), round(x, 3)))


# ------------------------------------------------------------------------------------------ auxiliary space
def oracle_aux(ctx):
    from renormalizer.tn import TTNO, TTNS
    rng = ctx.rng
    em = te.hermitian_tree_model(ctx, nsite=(2, 4), max_dim=16, no_multi_dof=True)
    kind = trees.ALL_KINDS[int(rng.integers(0, len(trees.ALL_KINDS)))]
    tree, desc, kind = te.build_tree(ctx, em, kind)
    tm = te.place(ctx, em, tree, desc, kind)
    try:
        atree, adesc, pairs = trees.auxiliary_space_tree(tree)
    except Exception as e:  # noqa: BLE001 - add_auxiliary_space itself is not this property's subject
        ctx.refuse(f"add_auxiliary_space: {type(e).__name__}")
        return
    if any(p.nbas != qb.nbas for p, qb in pairs):
        ctx.refuse("add_auxiliary_space: copy changed nbas")
        return
    ctx.cls("aux-space")
    qof = {id(p): qb for p, qb in pairs}
    order = tm.phys + [qof[id(p)] for p in tm.phys]
    q = pick_sector(ctx, em.gm, min_dim=2)
    if q is None or not states.all_qn_nonnegative(em.gm):
        return
    env.reseed_global(rng)
    try:
        with np.errstate(all="ignore"):
            s = TTNS.random(atree, np.asarray(q), tm.dim ** 2, 1.0)
    except Exception:  # noqa: BLE001 - constructor refusal
        ctx.count("aux-state-refused")
        return
    s.compress_config = te.big_cfg()
    s.canonicalise()
    s.compress()
    Psi = te.dense_of(s, order)
    nrm = float(np.linalg.norm(Psi))
    if not np.isfinite(nrm) or nrm < 1e-8:
        return
    s.scale(1.0 / nrm, inplace=True)
    Psi = Psi / nrm
    ttno_aux = ctx.lib(TTNO, atree, list(em.terms), what="TTNO(aux tree)")
    tm.aux = list(order)
    # edges complete?  ranks of the doubled vector against the sector of the P labels (Q labels are zero)
    atm = te.TreeModel()
    atm.phys, atm.dims = order, [b.nbas for b in order]
    pos = {id(b): i for i, b in enumerate(order)}
    atm.subsets = []
    for node in atree.node_list:
        sub, stack = [], [node]
        while stack:
            n = stack.pop()
            sub += [pos[id(b)] for b in n.basis_sets if id(b) in pos]
            stack += list(n.children)
        atm.subsets.append(sorted(sub))
    rep = te.edge_report(atm, Psi, q)
    complete = all(r["complete"] for r in rep)
    ranks_ok = [r["rank"] for r in rep] == [int(b) for b in s.bond_dims]
    if not ranks_ok:
        ctx.count("aux-state-not-generic")
        return
    start = int(rng.integers(0, 4))
    runs = [(SCHEMES[(start + k) % 4], bool(rng.random() < 0.5)) for k in range(2)]
    # the operator on the PHYSICAL tree applied to a state on the doubled tree is the configuration in which state and
    # operator trees differ: every scheme's index bookkeeping is asked for it in turn (by case index, not by a coin)
    forced = (SCHEMES[(ctx.idx // 8) % 4], True)
    if forced not in runs:
        runs.append(forced)
    for sc, on_p_tree in runs:
        imag = bool(rng.random() < 0.5)
        mode = mode_of(imag)
        ctx.cls(f"aux-space:{sc}|{mode}", "aux-space:ttno-on-physical-tree" if on_p_tree else "aux-space:ttno-on-doubled-tree")
        order_p = order_of(sc, complete)
        x = step_size(ctx, sc, order_p, imag)
        tau = -1j * x if imag else x
        U = te.exact(tm, np.eye(tm.dim), tau)
        ref = (U @ Psi.reshape(tm.dim, tm.dim)).ravel()
        scale = float(np.linalg.norm(ref))
        st = te.fresh_copy(s, sc)
        what = f"evolve|{sc}|{mode}|aux-space"
        out = te.guarded_evolve(ctx, tm, st, tm.ttno if on_p_tree else ttno_aux, tau, False, what, sc)
        got = te.dense_of(out, order)
        e = float(np.linalg.norm(got - ref)) / scale
        bound = (10 * x ** (order_p + 1) + 1e-9) if order_p is not None else EXACT_BOUND[sc]
        ctx.count("oracle", 2)
        ctx.metric_max(f"aux_err_over_bound:{sc}", e / bound)
        ctx.check(e <= bound, f"aux-space|{sc}|{mode}|differs-from-U-on-the-physical-DoFs", err=e, bound=bound, x=x, kind=kind,
                  on_physical_tree=on_p_tree, bonds=list(s.bond_dims))
        mask = dense.sector_mask(order, q)
        ctx.check(float(np.linalg.norm(got[~mask])) <= 1e-10 * scale, f"sector|{sc}|{mode}|amplitude-outside-the-sector", aux=True)
        if len(atree.node_list) >= 2 and float(np.linalg.norm(ref - Psi)) >= 1e-3:
            ctx.nontrivial(("aux", sc, mode, trees.tree_shape_key(atree), env.dhash(em.gm.describe()), round(x, 3)))


# ----------------------------------------------------------------------------------------------------- case
def run_case(ctx):
    rng = ctx.rng
    idx = ctx.idx
    names = te.registered_schemes()
    if sorted(names) != sorted(SCHEMES):
        ctx.violate("registered-schemes-changed", got=names)
        return
    em = te.hermitian_tree_model(ctx, nonneg_qn=True)
    kind = trees.ALL_KINDS[idx % len(trees.ALL_KINDS)]
    tree, desc, kind = te.build_tree(ctx, em, kind)
    tm = te.place(ctx, em, tree, desc, kind)
    te.classify_tree(ctx, tm)
    q = pick_sector(ctx, em.gm)
    if q is None:
        ctx.refuse("no sector with >= 3 states")
        return
    coeff = [None, None, 2.0, 0.5, complex(np.exp(0.7j))][int(rng.integers(0, 5))]
    full = te.random_full_state(ctx, tm, q, coeff=coeff)
    if full is None:
        ctx.refuse("TTNS.random refused the sector")
        return
    psi = te.dense_of(full, tm.order)
    if np.iscomplexobj(psi) and float(np.linalg.norm(psi.imag)) > 1e-6:
        ctx.cls("state:complex-amplitudes")
    if coeff is not None:
        ctx.cls("state:prefactor")
    rep = te.edge_report(tm, psi, q)
    ranks = [r["rank"] for r in rep]
    complete = all(r["complete"] for r in rep)
    set_keys(tm, q)
    ctx.describe({"model": em.gm.describe(), "terms": gen.terms_describe(em.terms, 8), "sector": np.asarray(q).tolist(),
                  "tree": desc, "bond_dims": list(full.bond_dims), "schmidt_ranks": ranks, "all_edges_complete": complete,
                  "prefactor": coeff})
    ctx.count("oracle")
    if not ctx.check(te.sector_leak(tm, psi, q) <= 1e-12, "initial-state|outside-the-requested-sector"):
        return
    if ranks != [int(b) for b in full.bond_dims]:
        # not the generic full-rank state the exactness oracles assume (never seen in calibration)
        ctx.refuse("initial state not generic: Schmidt ranks differ from the bond dimensions")
        return

    first = SCHEMES[idx % 4]
    second = SCHEMES[(idx % 4 + 1 + (idx // 4) % 3) % 4]
    chosen = [first, second]
    if "tdvp_vmf" in chosen and len(tree.node_list) > 7 and ctx.tier == "quick":
        # the derivative of the variable-mean-field scheme costs ~ nodes x 20 ms per evaluation
        chosen = [s for s in chosen if s != "tdvp_vmf"] + ["tdvp_ps"]
        chosen = list(dict.fromkeys(chosen))
        ctx.cls("vmf-skipped-large-tree")
    for sc in chosen:
        modes = (False, True)
        if sc == "tdvp_ps2" and heavy(tm) and ctx.tier == "quick":
            modes = (bool(idx % 2),)
            ctx.cls("ps2-one-mode-heavy-tree")
        for imag in modes:
            oracle_A(ctx, tm, sc, full, psi, q, imag, complete)
            if ctx.violations:
                break
        if ctx.violations:
            break
    if "tdvp_ps" in chosen and complete and not ctx.violations:
        oracle_ps_incomplete(ctx)
    # default (normalised) call of one scheme
    cands = [s for s in chosen if not (s == "tdvp_ps2" and heavy(tm)) and not (s == "tdvp_vmf" and len(tree.node_list) > 5)]
    cands = cands or ["tdvp_ps"]
    oracle_normalised(ctx, tm, cands[int(rng.integers(0, len(cands)))], full, psi, q, bool(rng.random() < 0.5), complete)

    extra = (idx + idx // 8) % 8
    light = [s for s in chosen if s != "tdvp_vmf" and (s != "tdvp_ps2" or allow_ps2(ctx, tm))] or ["tdvp_ps"]
    if extra == 0:
        d_sc = chosen[int(rng.integers(0, len(chosen)))]
        if d_sc == "tdvp_ps2" and not allow_ps2(ctx, tm):
            d_sc = light[0]
        oracle_D(ctx, tm, d_sc, full, psi, q, bool(rng.random() < 0.5), complete)
    elif extra in (1, 7):
        oracle_E(ctx, tm, full, q)
        if extra == 7:
            oracle_D(ctx, tm, light[0], full, psi, q, bool(rng.random() < 0.5), complete)
    elif extra == 2:
        oracle_F(ctx, tm, full, q)
        oracle_G(ctx, tm, full, psi, q, complete)
    elif extra == 3:
        oracle_chain(ctx)
    elif extra == 4:
        oracle_aux(ctx)
    elif extra == 5:
        oracle_history(ctx, tm, full, psi, q, complete)
    else:
        oracle_product(ctx, tm, q)
        oracle_E(ctx, tm, full, q)
    if extra in (2, 5, 6) and not ctx.violations:
        oracle_homogeneity(ctx, tm, q, full)
