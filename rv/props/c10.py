"""C10 - imaginary-time and thermal propagation yield the Gibbs state."""
import numpy as np
import scipy.linalg

from rv import dense, env, evolve, gen, states

ID = "C10"
LEVEL = "exploration"
RULE = ("Four kinds of cases: (I) evolve(H, -i tau) of generated states for every scheme that accepts a complex step, "
        "raw (normalize=False) against exp(-tau H)psi with the same order oracle as C09 and normalised against "
        "exp(-tau H)psi/||.||; (T) ThermalProp on generated Holstein models (1-3 molecules x 1-2 modes, omega0 = or != "
        "omega1, schemes 1-4) from max_entangled_gs/ex to beta/2 in N steps, energies and electron/phonon occupations "
        "against Tr(exp(-beta H) O)/Z in the zero-/one-exciton sector, error decreasing with N, plus exact=True in the "
        "GS/EX spaces; (P) Mpo.exact_propagator(model, x, space, shift) for real/imaginary/complex x and shift != 0 "
        "against the dense exponential of the local vibrational Hamiltonian assembled from the Phonon parameters; (X) "
        "Mps.evolve_exact / MpDm.evolve_exact with non-zero offset. Non-trivial: tau||H|| >= 0.05 and a non-zero "
        "offset or >= 4 steps (T), measured order ratio (I), shift != 0 (P/X); distinct by (scheme, model, beta, N).")
ASSUMPTIONS = [
    "reference Gibbs averages by dense diagonalisation in the sector (dim <= 1500)",
    "ThermalProp with propagation-and-compression at unlimited bond dimension: per-step Taylor error (tau||H||)^5/120 accumulates over N steps, bound 0.1*N*(tau||H||)^5 + 1e-9 on energies/occupations relative to ||H||",
    "general-RK P&C needs a complex guess_dt for a complex step (check_valid_dt refuses real guess_dt with 'real and imag not compatible': documented refusal)",
    "exact propagator reference: GS space sum omega b^dag b, EX space sum omega b^dag b + term10 (b^dag + b) per mode, identity on electronic sites, as the docstring states",
]


def plan(tier):
    base = {"case_time_limit": 600,
            "required_classes": ["I:raw", "I:normalised", "I:real-state-complex-H", "T:thermal-prop", "T:exact", "P:exact-propagator", "X:evolve_exact",
                                 "space:GS", "space:EX", "offset!=0", "family:pc", "family:ps", "family:vmf", "family:cmf", "modes:repeated-frequency", "T:exact-nonidentity-input", "X:mpdm-noncommuting-input",
                                 "P:reference-tied-to-model-hamiltonian", "T:h_mpo_model-differs-from-the-model-of-the-state",
                                 "T:complex-hermitian-couplings", "tree:electronic-node-with-two-or-more-children",
                                 "tree", "tree-scheme:prop_and_compress_tdrk4", "tree-scheme:tdvp_ps2"],
            "required_counters": {"oracle": 600, "ratios_measured": 40, "tree_thermal_runs": 20}}
    if tier == "quick":
        base.update({"ncases": 144, "min_nontrivial": 60})
    else:
        base.update({"ncases": 2400, "min_nontrivial": 1200, "required_counters": {"oracle": 10000, "ratios_measured": 800, "tree_thermal_runs": 400}})
    return base


def err(out, ref):
    return float(np.linalg.norm(states.dense_of(out) - ref))


# ------------------------------------------------------------------------------------- (I) imaginary time
def imag_cfg(sc):
    cfg = sc.make_cfg()
    if sc.name.startswith("pc-tdrk-"):
        cfg.guess_dt = -0.1j
    return cfg


def case_imag(ctx):
    rng = ctx.rng
    # every 12th case is laid out for the class "real state, complex Hamiltonian" (rare by chance, required by plan())
    force_rc = bool(ctx.idx % 12 == 0)
    em = evolve.hermitian_model(ctx, allow_complex=bool(force_rc or rng.random() < 0.25))
    for _ in range(10):
        if not force_rc or em.mpo.is_complex:
            break
        em = evolve.hermitian_model(ctx, allow_complex=True)
    qntot = None
    for _ in range(10):
        q = states.pick_sector(rng, em.gm)
        if states.sector_dim(em.gm, q) >= 3:
            qntot = q
            break
    if qntot is None:
        ctx.refuse("no sector with >= 3 states")
        return
    full = evolve.generic_full_state(ctx, em, qntot, complex_amplitudes=bool((not force_rc) and rng.random() < 0.4))
    if full is None:
        ctx.refuse("sector-aware random constructor refused")
        return
    if em.mpo.is_complex and not full.is_complex:
        ctx.cls("I:real-state-complex-H")
    if rng.random() < 0.3:
        full.coeff = full.coeff * float(rng.choice([2.0, 0.5]))
    psi = states.dense_of(full)
    key = env.dhash({"m": em.gm.describe(), "t": gen.terms_describe(em.terms, 20), "q": qntot.tolist()})
    ctx.describe({"kind": "imaginary-time step", "model": em.gm.describe(), "terms": gen.terms_describe(em.terms, 8),
                  "sector": qntot.tolist(), "bond_dims": full.bond_dims, "complex_H": em.complex_h})
    all_s = evolve.scheme_list()
    nsel = 6
    start = (ctx.idx * nsel) % len(all_s)
    for sc in [all_s[(start + k) % len(all_s)] for k in range(nsel)]:
        ctx.cls("family:" + sc.family)
        order = sc.order
        if sc.family == "ps" and list(full.bond_dims) != [int(c) for c in states.exact_bond_caps(em.gm.dims)]:
            order = 2
        x = (0.3 if order is None else {1: 0.1, 2: 0.2, 3: 0.3}.get(order, 0.4)) * float(rng.uniform(0.6, 1.0))
        if sc.family == "cmf" and order == 2:
            x *= 2.0      # the inner site solves of CMF use solve_ivp's default rtol 1e-3: an error floor of ~1e-5
        tau = x / em.hnorm

        def ref(t):
            return scipy.linalg.expm(-t * em.H) @ psi

        ctx.cls("I:raw")
        o1 = evolve.run_step(ctx, sc, full, em.mpo, -1j * tau, cfg=imag_cfg(sc), what=f"evolve|{sc.name}|imag")
        e1 = err(o1, ref(tau))
        ctx.count("oracle")
        scale = float(np.linalg.norm(ref(tau)))
        if order is None:
            solver = "vmf" if sc.family == "vmf" else sc.name.split("-")[1]
            bound = {"krylov": 1e-9, "RK45": 1e-7, "RK23": 1e-6, "vmf": 1e-7}[solver]
            ctx.metric_max(f"imag_exact_err_over_bound:{sc.family}:{solver}", e1 / (bound * scale))
            ctx.check(e1 <= bound * scale, f"I|{sc.family}|{solver}|imaginary-time-not-exact-at-full-bond", err=e1, x=x)
        else:
            ctx.check(e1 <= 10 * x ** (order + 1) * scale + 1e-9, f"I|{sc.name}|error-above-order-bound", e=e1, x=x, p=order)
            o2 = evolve.run_step(ctx, sc, full, em.mpo, -1j * tau / 2, cfg=imag_cfg(sc), what=f"evolve|{sc.name}|imag")
            e2 = err(o2, ref(tau / 2))
            floor = {"ps": 1e-6, "cmf": 5e-5}.get(sc.family, 1e-8) * scale
            if e2 > floor:
                ctx.count("ratios_measured")
                ratio = e1 / e2
                # a ratio below the asymptotic one at this step may be pre-asymptotic (measured: 3.7, 6.3, 7.3, 7.7 on successive
                # halvings for the second-order CMF at x = 0.37): the step is halved up to three more times while the error stays
                # above the solver floor, and the finest measurable ratio decides
                ea, eb, tt, ratios = e1, e2, tau / 2, [ratio]
                for _ in range(3):
                    if ratio >= 0.7 * 2 ** (order + 1):
                        break
                    tt = tt / 2
                    ec = err(evolve.run_step(ctx, sc, full, em.mpo, -1j * tt, cfg=imag_cfg(sc), what=f"evolve|{sc.name}|imag"), ref(tt))
                    if ec <= floor:
                        # the next halving is below the solver floor: the order cannot be measured any finer
                        ratio = None
                        ctx.cls("I:coarse-ratio-low-and-finer-step-below-solver-floor")
                        break
                    ea, eb = eb, ec
                    ratio = ea / eb
                    ratios.append(ratio)
                    ctx.cls("I:ratio-measured-at-a-finer-step")
                if ratio is not None:
                    ctx.metric_max(f"imag_min_ratio_deficit:{sc.family}", 2 ** (order + 1) / ratio)
                    ctx.check(ratio >= 0.7 * 2 ** (order + 1), f"I|{sc.name}|order-lost-in-imaginary-time", ratio=ratio, ratios=ratios,
                              expected=2 ** (order + 1), e_h=e1, e_half=e2, x=x)
                    ctx.nontrivial(("I", sc.name, key, round(x, 3)))
        # default call: the result is the normalised vector (tensors normalised, prefactor reduced to its phase)
        if rng.random() < 0.5:
            ctx.cls("I:normalised")
            on = evolve.run_step(ctx, sc, full, em.mpo, -1j * tau, cfg=imag_cfg(sc), normalize=True,
                                 what=f"evolve|{sc.name}|imag|normalize")
            r = ref(tau)
            want = r / np.linalg.norm(r)
            tol = max(10 * (e1 / scale), 1e-9)
            ctx.count("oracle", 2)
            ctx.check(abs(on.mp_norm - 1) <= 1e-8 and abs(abs(on.coeff) - 1) <= 1e-10, f"I|{sc.family}|result-not-normalised",
                      mp_norm=on.mp_norm, coeff=abs(on.coeff))
            ctx.close(states.dense_of(on), want, tol, f"I|{sc.family}|normalised-result-differs", scale=1.0)
        ctx.count("oracle")
        ctx.close(states.dense_of(full), psi, 1e-12, f"I|{sc.family}|input-changed", scale=max(float(np.linalg.norm(psi)), 1e-300))
        if ctx.violations:
            break


# ----------------------------------------------------------------------------------------- Holstein models
def holstein(ctx, max_dim=1500, allow_complex_j=True, force_complex_j=False):
    from renormalizer.model import HolsteinModel, Mol, Phonon
    from renormalizer.utils import Quantity
    rng = ctx.rng
    for _ in range(50):
        nmol = int(rng.integers(2 if force_complex_j else 1, 4))
        mols = []
        dim = 1
        seen, degenerate = [], False
        for _m in range(nmol):
            phs = []
            for _p in range(int(rng.integers(1, 3))):
                w0 = float(rng.uniform(0.5, 2.0))
                w1 = w0 if rng.random() < 0.6 else float(w0 * rng.uniform(0.7, 1.3))
                nlev = int(rng.integers(2, 5))
                if seen and rng.random() < 0.35:
                    # a mode that repeats the frequency and basis size of an earlier one (other displacement)
                    w0, w1_old, nlev = seen[int(rng.integers(0, len(seen)))]
                    w1 = w1_old if rng.random() < 0.5 else w0
                    degenerate = True
                seen.append((w0, w1, nlev))
                d = float(rng.uniform(-1.0, 1.0))
                phs.append(Phonon([Quantity(w0), Quantity(w1)], [Quantity(0), Quantity(d)], nlev))
                dim *= nlev
            mols.append(Mol(Quantity(float(rng.uniform(0.0, 1.0))), phs))
        scheme = int(rng.integers(1, 5))
        dim *= (2 ** nmol) if scheme < 4 else (nmol + 1)
        if dim > max_dim:
            continue
        j = rng.uniform(-0.5, 0.5, size=(nmol, nmol))
        j = (j + j.T) / 2
        if allow_complex_j and nmol >= 2 and (force_complex_j or rng.random() < 0.3):
            # complex Hermitian couplings (Peierls phases): the purified states become genuinely complex
            ph = rng.uniform(-np.pi, np.pi, size=(nmol, nmol))
            ph = np.triu(ph, 1)
            j = j * np.exp(1j * (ph - ph.T))
            ctx.cls("holstein:complex-hermitian-J")
        np.fill_diagonal(j, 0)
        model = HolsteinModel(mols, j, scheme=scheme)
        if degenerate:
            ctx.cls("modes:repeated-frequency")
        desc = {"nmol": nmol, "scheme": scheme, "modes": [[(round(p.omega[0], 3), round(p.omega[1], 3), round(p.dis[1], 3),
                                                              p.n_phys_dim) for p in m.ph_list] for m in mols],
                "elocalex": [round(m.elocalex, 3) for m in mols]}
        return model, desc
    ctx.refuse("no Holstein model within the dimension cap")
    from rv.case import CaseAbort
    raise CaseAbort()


def local_vib_hamiltonian(model, space):
    """Dense H_loc in the order of model.basis, built from the Phonon parameters (reference for exact_propagator)."""
    mats = []
    ph_of = {}
    for imol, mol in enumerate(model.mol_list):
        for iph, ph in enumerate(mol.ph_list):
            ph_of[(imol, iph)] = ph
    sites = []
    for b in model.basis:
        if b.is_phonon:
            ph = ph_of[b.dof]
            n = ph.n_phys_dim
            num = np.diag(np.arange(n, dtype=float))
            bdag = np.diag(np.sqrt(np.arange(1, n)), k=-1)
            h = ph.omega[0] * num
            if space == "EX":
                h = h + ph.term10 * (bdag + bdag.T)
            sites.append(h)
        else:
            sites.append(None)
    dims = [b.nbas for b in model.basis]
    dim = int(np.prod(dims))
    H = np.zeros((dim, dim))
    for i, h in enumerate(sites):
        if h is None:
            continue
        m = np.ones((1, 1))
        for k, d in enumerate(dims):
            m = np.kron(m, h if k == i else np.eye(d))
        H += m
    return H


def case_propagator(ctx):
    from renormalizer.mps import Mpo, Mps, MpDm
    from renormalizer.utils import Quantity
    rng = ctx.rng
    model, desc = holstein(ctx, max_dim=600)
    space = str(rng.choice(["GS", "EX"]))
    ctx.cls("P:exact-propagator", "space:" + space, f"scheme:{model.scheme}")
    Hloc = local_vib_hamiltonian(model, space)
    # the formula above is the one the docstring states; it is tied to the MODEL's own Hamiltonian where that is possible:
    # in the zero-exciton sector H is purely vibrational, and for one molecule with omega_e = omega_g the one-exciton block
    # is H_loc(EX) plus a constant
    Hfull = dense.op_dense(model.basis, model.ham_terms)
    m0 = dense.sector_mask(model.basis, [0])
    if space == "GS":
        ctx.count("oracle")
        ctx.cls("P:reference-tied-to-model-hamiltonian")
        d = Hfull[np.ix_(m0, m0)] - Hloc[np.ix_(m0, m0)]
        c = np.trace(d) / d.shape[0]          # the zero-point energy (model.gs_zpe) is not part of the propagator's Hamiltonian
        ctx.close(d, c * np.eye(d.shape[0]), 1e-10, "P|local-vibrational-hamiltonian|zero-exciton-block-differs-by-more-than-a-constant",
                  scale=max(float(np.linalg.norm(Hfull[np.ix_(m0, m0)])), 1.0))
        ctx.close(c, float(model.gs_zpe), 1e-10, "P|local-vibrational-hamiltonian|constant-is-not-the-zero-point-energy", scale=max(1.0, abs(c)))
    elif model.mol_num == 1 and all(abs(ph.omega[0] - ph.omega[1]) < 1e-14 for ph in model[0].ph_list):
        m1 = dense.sector_mask(model.basis, [1])
        d = Hfull[np.ix_(m1, m1)] - Hloc[np.ix_(m1, m1)]
        c = np.trace(d) / d.shape[0]
        ctx.count("oracle")
        ctx.cls("P:reference-tied-to-model-hamiltonian")
        ctx.close(d, c * np.eye(d.shape[0]), 1e-10, "P|local-vibrational-hamiltonian|one-exciton-block-differs-by-more-than-a-constant",
                  scale=max(float(np.linalg.norm(Hfull[np.ix_(m1, m1)])), 1.0))
    kind = int(rng.integers(0, 3))
    mag = float(rng.uniform(0.05, 1.0))
    x = [-mag, -1j * mag, complex(-mag * 0.6, mag * 0.8)][kind] if rng.random() < 0.8 else [mag, 1j * mag, complex(mag, mag)][kind]
    shift = float(rng.choice([0.0, 0.7, -1.3]))
    ctx.describe({"kind": "exact_propagator", "model": desc, "space": space, "x": x, "shift": shift})
    prop = ctx.lib(Mpo.exact_propagator, model, x, space, shift, what="exact_propagator")
    ref = scipy.linalg.expm(x * (Hloc + shift * np.eye(Hloc.shape[0])))
    ctx.count("oracle")
    ctx.close(prop.todense(), ref, 1e-10, f"P|exact_propagator|{space}|differs-from-dense-exponential",
              scale=max(float(np.linalg.norm(ref)), 1e-300), shift=shift, x=x)
    ctx.check(max(prop.bond_dims) == 1, "P|exact_propagator|bond-dimension-not-one", bonds=prop.bond_dims)
    if shift != 0:
        ctx.cls("offset!=0")
        ctx.nontrivial(("P", desc, space, kind, shift))
    # ---- evolve_exact on states and density operators with an offset -----------------------------------
    ctx.cls("X:evolve_exact")
    offset = float(rng.choice([0.0, 0.9, -0.4]))
    h_mpo = ctx.lib(Mpo, model, offset=Quantity(offset), what="Mpo(offset)")
    dt = float(rng.uniform(0.1, 1.0))
    nexc = 1 if space == "EX" else 0
    from rv import gen as _g
    env.reseed_global(rng)
    mps = Mps.random(model, nexc, 4, percent=1.0)
    mps.coeff = complex(np.exp(1j * 0.3)) * float(rng.choice([1.0, 2.0]))
    psi0 = states.dense_of(mps)
    out = ctx.lib(mps.evolve_exact, h_mpo, dt, space, what="Mps.evolve_exact")
    want = scipy.linalg.expm(-1j * dt * Hloc) @ psi0
    ctx.count("oracle", 2)
    ok = ctx.close(states.dense_of(out), want, 1e-10, "X|Mps.evolve_exact|result-differs-from-exp(-iH_loc t)psi",
                   scale=max(float(np.linalg.norm(want)), 1e-300), offset=offset,
                   phase_missing=bool(np.allclose(states.dense_of(out) * np.exp(-1j * offset * dt), want, atol=1e-9)))
    ctx.close(states.dense_of(mps), psi0, 1e-12, "X|Mps.evolve_exact|input-changed", scale=max(float(np.linalg.norm(psi0)), 1e-300),
              offset=offset)
    if model.scheme < 4 or True:
        dm = ctx.lib(MpDm.max_entangled_ex if nexc else MpDm.max_entangled_gs, model, what="MpDm.max_entangled")
        if rng.random() < 0.5:
            # an input that does not commute with the propagator pins the documented side of the multiplication
            dm = ctx.lib(MpDm.from_mps, mps, what="MpDm.from_mps")
            ctx.cls("X:mpdm-noncommuting-input")
            # the purified state is the input state, prefactor (norm and phase) included: the reference of what follows is
            # read from the library object, so the object itself is pinned to the harness's vector first
            ctx.count("oracle")
            ctx.close(states.dense_of(dm), np.diag(psi0), 1e-12, "X|MpDm.from_mps|differs-from-diag(psi)-prefactor-included",
                      scale=max(float(np.linalg.norm(psi0)), 1e-300), coeff=complex(mps.coeff))
        M0 = states.dense_of(dm)
        out = ctx.lib(dm.evolve_exact, h_mpo, dt, space, what="MpDm.evolve_exact")
        # documented in MpDm.evolve_exact ("Mpdm is applied on the propagator, different from base method"; the finite-
        # temperature spectra use it for the bra side): rho -> rho . exp(-i H_loc t)
        want = M0 @ scipy.linalg.expm(-1j * dt * Hloc)
        ctx.count("oracle", 2)
        ctx.close(states.dense_of(out), want, 1e-10, "X|MpDm.evolve_exact|result-differs", scale=max(float(np.linalg.norm(want)), 1e-300),
                  offset=offset)
        ctx.close(states.dense_of(dm), M0, 1e-12, "X|MpDm.evolve_exact|input-changed", scale=max(float(np.linalg.norm(M0)), 1e-300))
    if offset != 0:
        ctx.cls("offset!=0")
        ctx.nontrivial(("X", desc, space, offset))


# ----------------------------------------------------------------------------------------- (T) ThermalProp
def gibbs_refs(model, nexc, beta):
    from renormalizer.model import Op
    H = dense.op_dense(model.basis, model.ham_terms)
    mask = dense.sector_mask(model.basis, [nexc])
    rho = dense.gibbs(H, beta, mask)
    e = float(np.real(np.trace(rho @ H)))
    eocc = [float(np.real(np.trace(rho @ dense.op_dense(model.basis, [Op(r"a^\dagger a", d)])))) for d in model.e_dofs]
    pocc = [float(np.real(np.trace(rho @ dense.op_dense(model.basis, [Op("n", d)])))) for d in model.v_dofs]
    hn = float(np.linalg.norm(H[np.ix_(mask, mask)], 2))
    return e, np.array(eocc), np.array(pocc), hn


def case_thermal(ctx):
    from renormalizer.mps import MpDm
    from renormalizer.mps.thermalprop import ThermalProp
    from renormalizer.utils import EvolveConfig, EvolveMethod, CompressConfig, CompressCriteria
    rng = ctx.rng
    # every third thermal case: complex Hermitian couplings in the one-exciton space (complex purified states)
    forced = (ctx.idx // 6) % 3 == 1
    model, desc = holstein(ctx, max_dim=400, force_complex_j=forced)
    nexc = 1 if forced else int(rng.integers(0, 2))
    space = "EX" if nexc else "GS"
    ctx.cls("T:thermal-prop", "space:" + space, f"scheme:{model.scheme}")
    if np.iscomplexobj(model.j_matrix) and nexc:
        ctx.cls("T:complex-hermitian-couplings")
    beta = float(10 ** rng.uniform(-1, 1)) / 2.0
    e_ref, eocc_ref, pocc_ref, hn = gibbs_refs(model, nexc, beta)
    beta = min(beta, 6.0 / hn)          # keep exp(-beta H) well conditioned
    e_ref, eocc_ref, pocc_ref, hn = gibbs_refs(model, nexc, beta)
    ctx.describe({"kind": "thermal", "model": desc, "nexciton": nexc, "beta": beta, "beta*||H||": beta * hn})
    other_model = None
    if rng.random() < 0.35:
        # the documented h_mpo_model argument: the infinite-temperature state is built for a reference model on the same
        # basis (vibrations only), the Hamiltonian of the propagation is that of `model`
        from renormalizer.model import Model
        vset = set(model.v_dofs)
        vib = [t for t in model.ham_terms if all(d in vset for d in t.dofs)]
        if vib:
            other_model = ctx.lib(Model, list(model.basis), vib, what="Model(reference)", promised=False)
            ctx.cls("T:h_mpo_model-differs-from-the-model-of-the-state")
    errs = {}
    n1 = max(4, int(np.ceil(beta / 2 * hn / 0.5)))       # per-step tau*||H|| <= 0.5
    for N in (n1, 2 * n1):
        tau = beta / 2 / N
        if other_model is None:
            init = ctx.lib(MpDm.max_entangled_ex if nexc else MpDm.max_entangled_gs, model, what="MpDm.max_entangled")
        else:
            init = ctx.lib(MpDm.max_entangled_ex if nexc else MpDm.max_entangled_gs, other_model, what="MpDm.max_entangled")
        init.compress_config = CompressConfig(CompressCriteria.fixed, max_bonddim=10 ** 6)
        cfg = EvolveConfig(EvolveMethod.prop_and_compress)
        if other_model is None:
            job = ctx.lib(ThermalProp, init, evolve_config=cfg, what="ThermalProp")
        else:
            job = ctx.lib(ThermalProp, init, h_mpo_model=model, evolve_config=cfg, what="ThermalProp(h_mpo_model)")
        ctx.lib(job.evolve, evolve_dt=-1j * tau, nsteps=N, what="ThermalProp.evolve")
        e = job.energies[-1]
        eocc = np.asarray(job.e_occupations_array[-1])
        pocc = np.asarray(job.ph_occupations_array[-1])
        x = tau * hn
        bound = 0.1 * N * x ** 5 + 1e-9
        d_e = abs(e - e_ref) / max(hn, 1e-300)
        d_o = float(max(np.max(np.abs(eocc - eocc_ref)) if len(eocc_ref) else 0, np.max(np.abs(pocc - pocc_ref)) / 4 if len(pocc_ref) else 0))
        errs[N] = max(d_e, d_o)
        ctx.count("oracle", 3)
        ctx.metric_max("thermal_err_over_bound", max(d_e, d_o) / bound)
        ctx.check(d_e <= bound, "T|ThermalProp|energy-differs-from-canonical-average", got=e, want=e_ref, N=N, x=x, beta=beta)
        ctx.check(d_o <= bound, "T|ThermalProp|occupations-differ-from-canonical-average", e_got=eocc, e_want=eocc_ref,
                  ph_got=pocc, ph_want=pocc_ref, N=N, x=x)
        ctx.check(abs(float(np.sum(eocc)) - nexc) <= 1e-8, "T|ThermalProp|exciton-number-not-conserved", total=float(np.sum(eocc)))
        if N >= 4 and x >= 0.05:
            ctx.nontrivial(("T", desc, nexc, round(beta, 4), N))
    ns = sorted(errs)
    if errs[ns[0]] > 1e-7 and errs[ns[1]] > 1e-9:
        ctx.count("ratios_measured")
        ctx.check(errs[ns[1]] <= 0.5 * errs[ns[0]], "T|ThermalProp|error-does-not-decrease-with-N", errs=errs)
    # ---- exact=True: purely local vibrational Hamiltonian ------------------------------------------------
    ctx.cls("T:exact")
    init = ctx.lib(MpDm.max_entangled_ex if nexc else MpDm.max_entangled_gs, model, what="MpDm.max_entangled")
    if rng.random() < 0.5:
        # an input that does not commute with the propagator: the density-operator form of a random pure state
        from renormalizer.mps import Mps
        from rv import env as _env
        _env.reseed_global(rng)
        pure = ctx.lib(Mps.random, model, nexc, 4, 1.0, what="Mps.random", promised=False)
        init = ctx.lib(MpDm.from_mps, pure, what="MpDm.from_mps")
        ctx.cls("T:exact-nonidentity-input")
    job = ctx.lib(ThermalProp, init, exact=True, space=space, what="ThermalProp(exact)")
    N = int(rng.integers(1, 5))
    ctx.lib(job.evolve, evolve_dt=-1j * beta / 2 / N, nsteps=N, what="ThermalProp.evolve(exact)")
    final = job.latest_mps
    M = states.dense_of(final)
    Hloc = local_vib_hamiltonian(model, space)
    M0 = states.dense_of(init)
    want = scipy.linalg.expm(-beta / 2 * Hloc) @ M0
    want = want / np.linalg.norm(want)
    ctx.count("oracle")
    # normalised purified state up to a phase-free positive factor
    ctx.close(M / max(np.linalg.norm(M), 1e-300), want, 1e-8, "T|ThermalProp(exact)|state-differs-from-local-gibbs", scale=1.0,
              N=N, beta=beta)


def run_case(ctx):
    if ctx.idx % 8 == 7:
        from rv.props import c10_tree
        return c10_tree.run_tree_case(ctx)
    k = ctx.idx % 6
    if k in (0, 1, 2):
        case_imag(ctx)
    elif k in (3, 4):
        case_propagator(ctx)
    else:
        case_thermal(ctx)
