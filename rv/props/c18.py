"""C18 - numerical kernels meet their contracts on every admissible input.

Direct workloads drive renormalizer.lib.expm_krylov and renormalizer.mps.svd_qn.{svd_qn,eigh_qn} with generated
inputs; the oracle is the set of runtime contracts of rv/kernel_contracts.py (installed on every bound reference,
so the same oracle also judges the calls made at the real call sites of an "in-situ" class of cases: canonicalise,
compress, TDVP-PS / TDVP-PS2 steps and a state-averaged DMRG sweep on small random models with quantum numbers).
For the Krylov kernel a second, independent comparison is made against eigh of the generated matrix itself.
"""
import numpy as np

from rv import env, kernel_contracts as kc, monitors

ID = "C18"
LEVEL = "exploration"
RULE = ("Krylov: Hermitian A = Q diag(w) Q^H, real/complex, n in 1..150, spectra generic/graded/degenerate/"
        "rank-deficient/clustered/diagonal, centred/PSD/NSD, ||A|| in [1e-2,1e2], ||A|||dt| log-uniform in "
        "[1e-3,20], dt real+/real-/imaginary+/imaginary-/generic complex as python or numpy scalars, block_size "
        "2..50, start vectors real/complex, Gaussian / basis vector / inside an invariant subspace of dimension "
        "1..5, norms 1e-3..1e3; result compared with eigh-based exp(dt A)v (contract on the materialised map AND "
        "the generated matrix); the exit branch of every run (full space, breakdown, convergence; buffer growth) is "
        "observed with sys.monitoring LINE events on expm_krylov. Blocked decompositions: rectangular real/complex "
        "arrays (1..40 x 1..40, one- or two-index sides) with arbitrary 1- or 2-component label patterns on both "
        "sides (left-only / right-only sectors, single sector, 1x1 blocks, unbalanced blocks), dense / symmetry-"
        "respecting / low-rank / zero-block / repeated-singular-value content, scales 1e-6..1e6; every array goes "
        "through economic SVD, full SVD (optimised and plain), QR and RQ in economic and full form. eigh_qn: random "
        "PSD (full-rank and rank-deficient) density matrices, both systems. In-situ: random models with quantum "
        "numbers, Mps.random -> canonicalise -> compress -> one TDVP-PS / TDVP-PS2 step (real or imaginary time) or "
        "a 2-root DMRG sweep, or the same on a TTNS (binary/linear tree, TDVP-PS), with the contracts attached. A sub-case is non-trivial when the decomposed matrix has "
        ">= 2 symmetry sectors with entries on both sides or the Krylov run needed >= 2 Lanczos vectors; distinct by "
        "(case index, sub-case index) of the deterministic generator.")
ASSUMPTIONS = [
    "Krylov tolerance: ||r - exp(dt A)v|| <= 1e-4 ||exp(dt A)v|| + 1e-7 (||v|| + sqrt(n)) + 1e4 eps ||exp(dt A)|| ||v||, "
    "i.e. ten times the kernel's own successive-iterate allclose(rtol=1e-5, atol=1e-8 per element) plus the "
    "amplified input rounding (relevant only for real dt and a start vector without weight on the growing part of "
    "the spectrum, where the dense reference itself is rounding noise); calibrated: worst observed ratio on the "
    "promised class is < 1e-2 of this bound",
    "generic complex dt is generated although the statement only names real and imaginary dt; its violations carry "
    "the suffix |complex-dt",
    "a callable that returns its argument object itself (aliasing) is not generated; the map is always given as a "
    "callable returning a fresh array, as at every call site of the repository",
    "start vectors are exactly (to rounding) inside invariant subspaces; adversarially almost-invariant vectors "
    "combined with exponential growth exp(+20) are outside the generated class",
    "decomposition tolerances: |U^H U - 1|_max <= 1e-10, reconstruction 1e-10 ||mask*A||_F, support 1e-12 max|U|, "
    "singular values 1e-10 s_max against numpy.linalg.svd(mask*A)",
    "sectors whose partner sector is empty are legitimately dropped; in full mode only the first sum_s min(m_s,n_s) "
    "columns are paired and must reconstruct; 'Invalid quantum number' (no sector at all) is a documented refusal",
    "eigh_qn is judged only when the input is Hermitian PSD to 1e-10 (the caller's obligation)",
    "the contract materialises the linear map only for dimension <= 400",
    "in-situ cases: crashes outside krylov.py / svd_qn.py are other properties' business and count as refusals",
]

KRYLOV_RUNS = 6
SVD_ARRAYS = 5
EIGH_RUNS = 8


def _layout(tier):
    if tier == "quick":
        return [("krylov", 1200), ("svd", 800), ("eigh", 160), ("insitu", 160)]
    return [("krylov", 48000), ("svd", 32000), ("eigh", 6000), ("insitu", 6000)]


def _kind(tier, idx):
    for kind, n in _layout(tier):
        if idx < n:
            return kind
        idx -= n
    raise IndexError(idx)


def plan(tier):
    lay = dict(_layout(tier))
    nk, ns, ne, ni = lay["krylov"], lay["svd"], lay["eigh"], lay["insitu"]
    ncases = nk + ns + ne + ni

    def half(rate, n):
        # minimum = half of what the deterministic generators produce per case on the unchanged tree (measured)
        return int(0.5 * rate * n)

    return {
        "ncases": ncases,
        "min_nontrivial": half(3.0, ncases),
        "case_time_limit": 120,
        "max_refused_frac": 0.2,
        "required_classes": [
            "krylov:real-start-real-map", "krylov:complex-start-real-map", "krylov:complex-start-complex-map",
            "krylov:real-start-complex-map", "krylov:dt-real+", "krylov:dt-real-", "krylov:dt-imag+",
            "krylov:dt-imag-", "krylov:dt-complex", "krylov:n=1", "krylov:invariant-subspace", "krylov:degenerate",
            "krylov:rank-deficient", "krylov:diagonal", "krylov:block_size=2", "krylov:block_size=50",
            "krylov:fault:eigh_tridiagonal-fails", "svd:fault:gesdd-fails",
            "svd:left-only-sector", "svd:right-only-sector", "svd:two-component", "svd:single-sector",
            "svd:opt-branch", "svd:complex", "svd:two-index-side", "svd:zero-block", "eigh:L", "eigh:R",
            "eigh:rank-deficient", "insitu:tdvp_ps", "insitu:tdvp_ps2", "insitu:dmrg-2roots", "insitu:ttns-tdvp_ps", "insitu:imaginary-time",
        ],
        "required_counters": {
            "oracle": half(12, nk) + half(33, ns) + half(7.5, ne) + half(25, ni),
            "branch:full-space": half(1.2, nk),
            "branch:breakdown": half(2.0, nk),
            "branch:converged": half(2.5, nk),
            "branch:buffer-growth": half(2.0, nk),
            "krylov_post_checked": half(6, nk),
            "krylov_independent_checks": half(6, nk),
            "svd_qn_contract_evals:economic": half(4.8, ns),
            "svd_qn_contract_evals:full": half(9.6, ns),
            "svd_qn_contract_evals:qr-L-economic": half(4.8, ns),
            "svd_qn_contract_evals:qr-R-economic": half(4.8, ns),
            "svd_qn_contract_evals:qr-L-full": half(4.8, ns),
            "svd_qn_contract_evals:qr-R-full": half(4.8, ns),
            "svd_qn_multi_sector_evals": half(3.0, ns),
            "eigh_qn_contract_evals": half(7.5, ne),
            "svd_qn_callsite_evals": half(15, ni),
            "krylov_callsite_evals": half(9, ni),
            "krylov_callsite_post_checked": half(8, ni),
            "eigh_qn_callsite_evals": half(1.4, ni),
        },
    }


def setup(tier):
    kc.install_all(max_dim=400)


def run_case(ctx):
    ctx.evaluations = 0
    monitors.drain(_Sink())          # nothing recorded before this case may leak into it
    kc.drain_observations()
    kc.WORST.clear()
    st = kc.tracer_status()
    if not st["installed"] or st["missing"]:
        ctx.note_inconclusive(f"krylov exit-branch tracer incomplete: {st['missing']}")
    kind = _kind(ctx.tier, ctx.idx)
    ctx.cls("kind:" + kind)
    try:
        {"krylov": _krylov_case, "svd": _svd_case, "eigh": _eigh_case, "insitu": _insitu_case}[kind](ctx)
    finally:
        obs = kc.drain_observations()
        for o in obs:
            ctx.count("observation:" + o["kind"])
        monitors.drain(ctx)
        for name, val in kc.WORST.items():
            ctx.metric_max(name, val)
        kc.WORST.clear()


class _Sink:
    def violate(self, *a, **k):
        pass

    def count(self, *a, **k):
        pass


def _crash(ctx, what, e, **detail):
    from rv.case import _innermost_repo_frame
    ctx.violate(f"{what}|crash|{type(e).__name__}@{_innermost_repo_frame(e)}", message=str(e)[:160], **detail)


# =============================================================================================== Krylov
SCENARIOS = ["tiny", "small", "generic", "generic-large", "invariant", "degenerate", "rankdef", "diagonal", "slow",
             "clustered", "graded"]


def _loguniform(rng, lo, hi):
    return float(10 ** rng.uniform(np.log10(lo), np.log10(hi)))


def _spectrum(rng, scen, n):
    if scen == "degenerate":
        vals = rng.uniform(-1, 1, size=int(rng.integers(1, 5)))
        w = rng.choice(vals, size=n)
    elif scen == "rankdef":
        w = rng.uniform(-1, 1, size=n)
        w[rng.random(n) < rng.uniform(0.3, 0.95)] = 0.0
    elif scen == "clustered":
        c = rng.uniform(-1, 1, size=int(rng.integers(2, 4)))
        w = rng.choice(c, size=n) + _loguniform(rng, 1e-10, 1e-5) * rng.normal(size=n)
    elif scen == "graded":
        w = 10 ** rng.uniform(-8, 0, size=n) * rng.choice([-1.0, 1.0], size=n)
    elif scen == "diagonal":
        sub = str(rng.choice(["degenerate", "rankdef", "uniform", "integers"]))
        if sub == "integers":
            w = rng.integers(-3, 4, size=n).astype(float)
        elif sub == "uniform":
            w = rng.uniform(-1, 1, size=n)
        else:
            w = _spectrum(rng, sub, n)
    elif rng.random() < 0.3:
        w = rng.normal(size=n)
    else:
        w = rng.uniform(-1, 1, size=n)
    return np.asarray(w, dtype=float)


def _gen_krylov(rng):
    scen = str(rng.choice(SCENARIOS))
    cmap = bool(rng.random() < 0.5)
    if scen == "tiny":
        n = int(rng.integers(1, 4))
    elif scen == "small":
        n = int(rng.integers(4, 13))
    elif scen == "generic":
        n = int(rng.integers(13, 61))
    elif scen == "generic-large":
        n = int(rng.integers(61, 151))
    elif scen == "slow":
        n = int(rng.integers(20, 90))
    else:
        n = int(round(_loguniform(rng, 2, 150)))
    w = _spectrum(rng, scen, n)
    shift = str(rng.choice(["centred", "psd", "nsd"]))
    if shift == "psd":
        w = np.abs(w)
    elif shift == "nsd":
        w = -np.abs(w)
    if not np.any(w):
        w = np.ones(n) * (-1.0 if shift == "nsd" else 1.0)       # A = c*1: the Krylov space is one-dimensional
    scale = _loguniform(rng, 1e-2, 1e2)
    w = w / np.max(np.abs(w)) * scale
    diagonal = scen == "diagonal"
    if diagonal:
        q = np.eye(n)
        if rng.random() < 0.5:
            q = q[:, rng.permutation(n)]
        cmap = False
    else:
        g = rng.normal(size=(n, n))
        if cmap:
            g = g + 1j * rng.normal(size=(n, n))
        q, _ = np.linalg.qr(g)
    a = (q * w) @ q.conj().T
    a = (a + a.conj().T) / 2
    if n == 1:
        cmap = False
        a = a.real
    # ---- time step
    tau = _loguniform(rng, 8, 20) if scen == "slow" else _loguniform(rng, 1e-3, 20)
    mag = tau / scale
    dtc = str(rng.choice(["real+", "real-", "imag+", "imag-", "complex"], p=[0.22, 0.22, 0.22, 0.22, 0.12]))
    rep = str(rng.choice(["python", "numpy"]))
    if dtc == "real+":
        dt = mag
    elif dtc == "real-":
        dt = -mag
    elif dtc == "imag+":
        dt = 1j * mag
    elif dtc == "imag-":
        dt = -1j * mag
    else:
        ph = rng.uniform(0, 2 * np.pi)
        dt = complex(mag * np.cos(ph), mag * np.sin(ph))
    if dtc.startswith("real"):
        form = str(rng.choice(["float", "complex-with-zero-imag"], p=[0.8, 0.2]))
        if form != "float":
            dt = complex(dt, 0.0)
    if rep == "numpy":
        dt = np.complex128(dt) if isinstance(dt, complex) else np.float64(dt)
    # ---- start vector: the real-start/complex-map combination is kept at ~12 % of the complex maps
    if cmap:
        cstart = bool(rng.random() < 0.75)
    else:
        cstart = bool(rng.random() < 0.5)
    vkind = "invariant" if scen == "invariant" else str(rng.choice(["gauss", "gauss", "gauss", "basis", "invariant"]))
    kdim = None
    if vkind == "invariant":
        kdim = min(n, int(rng.integers(1, 6)))
        idx = rng.choice(n, size=kdim, replace=False)
        c = rng.normal(size=kdim)
        if cstart:
            c = c + 1j * rng.normal(size=kdim)
        v = q[:, idx] @ c
        if np.iscomplexobj(v) and not cstart:
            if cmap:
                cstart = True              # a vector inside an invariant subspace of a complex map is complex
            else:
                v = v.real
    elif vkind == "basis":
        v = np.zeros(n, dtype=complex if cstart else float)
        v[int(rng.integers(0, n))] = 1.0
        if cstart:
            v = v * np.exp(1j * rng.uniform(0, 2 * np.pi))
    else:
        v = rng.normal(size=n)
        if cstart:
            v = v + 1j * rng.normal(size=n)
    v = np.asarray(v, dtype=complex if cstart else float)
    vnorm = _loguniform(rng, 1e-3, 1e3) if rng.random() < 0.1 else _loguniform(rng, 0.3, 3)
    v = v / np.linalg.norm(v) * vnorm
    if scen == "slow":
        bs = int(rng.integers(2, 7))
    else:
        bs = int(rng.choice([2, 2, 3, 4, 5, 7, 10, 16, 25, 37, 50, 50, int(rng.integers(2, 51))]))
    style = str(rng.choice(["matmul", "dot", "np.dot"]))
    desc = {"scenario": scen, "n": n, "complex_map": cmap, "complex_start": cstart, "start": vkind,
            "invariant_dim": kdim, "shift": shift, "norm_A": scale, "norm_A_dt": tau, "dt_class": dtc,
            "dt": [float(np.real(dt)), float(np.imag(dt))], "dt_type": type(dt).__name__, "block_size": bs,
            "start_norm": vnorm, "afunc": style}
    return a, v, dt, bs, style, desc


def _afunc(a, style):
    if style == "matmul":
        return lambda x: a @ x
    if style == "dot":
        return a.dot
    return lambda x: np.dot(a, x)


def _krylov_case(ctx):
    from renormalizer.lib import expm_krylov
    rng = ctx.rng
    descs = []
    for k in range(KRYLOV_RUNS):
        a, v, dt, bs, style, d = _gen_krylov(rng)
        descs.append(d)
        n = d["n"]
        cls = kc.krylov_class(d["complex_start"], d["complex_map"])
        ctx.cls("krylov:" + cls, "krylov:dt-" + d["dt_class"], "krylov:scenario-" + d["scenario"])
        if n == 1:
            ctx.cls("krylov:n=1")
        if d["start"] == "invariant":
            ctx.cls("krylov:invariant-subspace")
        if d["scenario"] in ("degenerate", "rankdef", "diagonal"):
            ctx.cls({"degenerate": "krylov:degenerate", "rankdef": "krylov:rank-deficient",
                     "diagonal": "krylov:diagonal"}[d["scenario"]])
        if bs in (2, 50):
            ctx.cls(f"krylov:block_size={bs}")
        before = monitors.COUNTS.get("krylov_post_checked", 0)
        v0 = v.copy()
        ctx.evaluations += 1
        # injected fault: the tridiagonal eigensolver "fails to converge" - the documented fallback (dense eigh of the same
        # tridiagonal matrix) must give the same result
        inject = (k % 4 == 3)
        import renormalizer.lib.krylov.krylov as kmod
        real_eigh = kmod.eigh_tridiagonal
        if inject:
            ctx.cls("krylov:fault:eigh_tridiagonal-fails")
            d["injected_fault"] = "eigh_tridiagonal raises LinAlgError"

            def failing(*_a, **_k):
                ctx.count("faults_injected:eigh_tridiagonal")
                raise np.linalg.LinAlgError("injected: eigenvalues did not converge")
            kmod.eigh_tridiagonal = failing
        try:
            r, nvec = expm_krylov(_afunc(a, style), dt, v, bs)
        except Exception as e:  # noqa: BLE001 - every generated input is inside the promised class
            _crash(ctx, f"krylov|{cls}" + ("|after-injected-eigensolver-failure" if inject else ""), e, **d)
            continue
        finally:
            kmod.eigh_tridiagonal = real_eigh
        last = dict(kc.LAST_KRYLOV)
        d["iterations"], d["exit"], d["grew"] = int(nvec), last.get("exit"), last.get("grew")
        if last.get("exit") in kc.EXIT_BRANCHES:
            ctx.count("branch:" + last["exit"])
        else:
            ctx.count("branch-unidentified")
        if last.get("grew"):
            ctx.count("branch:buffer-growth")
        if monitors.COUNTS.get("krylov_post_checked", 0) != before + 1:
            ctx.note_inconclusive("krylov contract did not evaluate its postcondition on a direct call")
        ctx.count("oracle")
        # independent comparison with the generated matrix itself (not with the materialised callable)
        ref, growth = kc.dense_expm_apply(a, complex(dt) if np.iscomplex(dt) else float(np.real(dt)), v0,
                                          with_growth=True)
        tol = kc.krylov_tolerance(ref, v0, growth)
        r = np.asarray(r)
        ctx.count("krylov_independent_checks")
        ctx.count("oracle")
        sig = kc.krylov_signature(d["complex_start"], d["complex_map"], dt, "dense-mismatch")
        if r.shape != ref.shape or not np.all(np.isfinite(r)):
            ctx.violate(kc.krylov_signature(d["complex_start"], d["complex_map"], dt, "bad-result"), **d)
        else:
            err = float(np.linalg.norm(r - ref))
            ctx.metric_max("krylov_err_over_tol:" + cls, err / tol)
            if err > tol:
                ctx.violate(sig, err=err, tol=tol, ref_norm=float(np.linalg.norm(ref)), **d)
        ctx.check(np.array_equal(v, v0), "krylov|start-vector-modified", **d)
        ctx.metric_max("krylov_max_iterations", int(nvec))
        if int(nvec) >= 2:
            ctx.nontrivial(("krylov", ctx.idx, k))
    ctx.describe({"kind": "krylov", "runs": descs})


class _FailingGesdd:
    """Stand-in for the `scipy` name inside renormalizer.mps.svd_qn: everything passes through, except that
    scipy.linalg.svd with the gesdd driver raises LinAlgError."""

    def __init__(self, real, ctx):
        self._real, self._ctx = real, ctx
        outer = self

        class _Linalg:
            def __getattr__(self, name):
                return getattr(real.linalg, name)

            def svd(self, a, *args, **kwargs):
                if kwargs.get("lapack_driver", "gesdd") == "gesdd":
                    outer._ctx.count("faults_injected:gesdd")
                    raise real.linalg.LinAlgError("injected: SVD did not converge")
                return real.linalg.svd(a, *args, **kwargs)
        self.linalg = _Linalg()

    def __getattr__(self, name):
        return getattr(self._real, name)


# =============================================================================================== svd_qn
MODES = [  # (QR, system, full_matrices, opt_full_matrices)
    (False, None, False, True), (False, "L", True, True), (False, "R", True, False),
    (True, "L", False, True), (True, "R", False, True), (True, "L", True, True), (True, "R", True, True),
]


def _label_pool(rng, k, size):
    pool = set()
    while len(pool) < size:
        pool.add(tuple(int(x) for x in rng.integers(-1, 3, size=k)))
    return np.array(sorted(pool), dtype=int)


def _side(rng, k, total_hint):
    """Labels of one side: shape (m, k) or (a, b, k) - the latter as an outer sum (how the library builds them) or
    with arbitrary per-entry labels."""
    from renormalizer.mps.svd_qn import add_outer
    two = rng.random() < 0.45 and total_hint >= 2
    if not two:
        m = total_hint
        pool = _label_pool(rng, k, int(rng.integers(1, 5)))
        lab = pool[rng.integers(0, len(pool), size=m)]
        return lab.reshape(m, k), (m,), "flat"
    a = int(rng.integers(1, max(2, int(np.sqrt(total_hint)) + 2)))
    b = max(1, total_hint // a)
    if rng.random() < 0.6:
        pa = _label_pool(rng, k, int(rng.integers(1, 4)))
        pb = _label_pool(rng, k, int(rng.integers(1, 3)))
        qa = pa[rng.integers(0, len(pa), size=a)]
        qb = pb[rng.integers(0, len(pb), size=b)]
        return add_outer(qa, qb), (a, b), "outer-sum"
    pool = _label_pool(rng, k, int(rng.integers(1, 5)))
    lab = pool[rng.integers(0, len(pool), size=a * b)]
    return lab.reshape(a, b, k), (a, b), "arbitrary-2index"


def _gen_blocked(rng):
    k = 2 if rng.random() < 0.3 else 1
    shape_kind = str(rng.choice(["balanced", "tall", "wide", "small", "tiny"]))
    if shape_kind == "balanced":
        m, n = int(rng.integers(2, 41)), int(rng.integers(2, 41))
    elif shape_kind == "tall":
        n = int(rng.integers(1, 9))
        m = int(rng.integers(3 * n, min(40, 6 * n) + 1)) if 3 * n <= 40 else 40
    elif shape_kind == "wide":
        m = int(rng.integers(1, 9))
        n = int(rng.integers(3 * m, min(40, 6 * m) + 1)) if 3 * m <= 40 else 40
    elif shape_kind == "small":
        m, n = int(rng.integers(1, 7)), int(rng.integers(1, 7))
    else:
        m, n = 1, int(rng.integers(1, 4))
        if rng.random() < 0.5:
            m, n = n, m
    qnl, lshape, lkind = _side(rng, k, m)
    qnr, rshape, rkind = _side(rng, k, n)
    ql, qr = qnl.reshape(-1, k), qnr.reshape(-1, k)
    m, n = len(ql), len(qr)
    valid = rng.random() >= 0.04
    if valid:
        qntot = ql[int(rng.integers(0, m))] + qr[int(rng.integers(0, n))]
    else:
        qntot = rng.integers(-2, 6, size=k)
    qntot = np.asarray(qntot, dtype=int)
    mask = kc.allowed_mask(ql, qr, qntot)
    cplx = bool(rng.random() < 0.4)
    content = str(rng.choice(["dense", "allowed-only", "low-rank", "zero-block", "repeated", "dense"]))

    def rnd(*shape):
        x = rng.normal(size=shape)
        if cplx:
            x = x + 1j * rng.normal(size=shape)
        return x

    a = rnd(m, n)
    if content == "low-rank":
        r = int(rng.integers(1, 3))
        a = rnd(m, r) @ rnd(r, n)
    left_labels = sorted(set(map(tuple, ql.tolist())))
    if content == "zero-block" and left_labels:
        lab = np.array(left_labels[int(rng.integers(0, len(left_labels)))])
        rows = np.all(ql == lab, axis=1)
        cols = np.all(qr == qntot - lab, axis=1)
        a[np.ix_(rows, cols)] = 0
    if content == "repeated":
        # every allowed block becomes c * [1 0] (equal singular values inside a block and across blocks)
        a = np.where(mask, 0, a)
        c = float(rng.choice([1.0, 2.0]))
        for lab in left_labels:
            rows = np.nonzero(np.all(ql == np.array(lab), axis=1))[0]
            cols = np.nonzero(np.all(qr == qntot - np.array(lab), axis=1))[0]
            for t in range(min(len(rows), len(cols))):
                a[rows[t], cols[t]] = c
    if content == "allowed-only":
        a = np.where(mask, a, 0)
    scale = _loguniform(rng, 1e-6, 1e6) if rng.random() < 0.25 else 1.0
    a = a * scale
    coef = a.reshape(lshape + rshape)
    # structure
    sectors, left_only, right_only = [], 0, 0
    for lab in left_labels:
        ms = int(np.all(ql == np.array(lab), axis=1).sum())
        ns = int(np.all(qr == qntot - np.array(lab), axis=1).sum())
        if ns:
            sectors.append((ms, ns))
        else:
            left_only += 1
    for lab in set(map(tuple, qr.tolist())):
        if not np.any(np.all(ql == qntot - np.array(lab), axis=1)):
            right_only += 1
    desc = {"shape": [m, n], "coef_shape": list(coef.shape), "qn_size": k, "left": lkind, "right": rkind,
            "qntot": qntot.tolist(), "sectors(m_s,n_s)": sectors, "left_only_sectors": left_only,
            "right_only_sectors": right_only, "content": content, "complex": cplx, "scale": scale,
            "valid_qntot": bool(valid), "qnl": ql.tolist() if m <= 12 else f"{m} labels",
            "qnr": qr.tolist() if n <= 12 else f"{n} labels"}
    return coef, qnl, qnr, qntot, desc


def _svd_case(ctx):
    from renormalizer.mps import svd_qn as mod
    rng = ctx.rng
    descs = []
    for k in range(SVD_ARRAYS):
        coef, qnl, qnr, qntot, d = _gen_blocked(rng)
        descs.append(d)
        sectors = d["sectors(m_s,n_s)"]
        if d["left_only_sectors"]:
            ctx.cls("svd:left-only-sector")
        if d["right_only_sectors"]:
            ctx.cls("svd:right-only-sector")
        if d["qn_size"] == 2:
            ctx.cls("svd:two-component")
        if len(sectors) == 1:
            ctx.cls("svd:single-sector")
        if len(sectors) == 0:
            ctx.cls("svd:no-sector")
        if d["complex"]:
            ctx.cls("svd:complex")
        if len(d["coef_shape"]) > 2:
            ctx.cls("svd:two-index-side")
        if any(not (1 / 3 < ms / ns < 3) for ms, ns in sectors):
            ctx.cls("svd:opt-branch")
        if any(ms == 1 and ns == 1 for ms, ns in sectors):
            ctx.cls("svd:1x1-block")
        ctx.cls("svd:content-" + d["content"])
        if d["content"] == "zero-block":
            ctx.cls("svd:zero-block")
        keep = coef.copy()
        inject = (k % 3 == 2)
        if inject:
            ctx.cls("svd:fault:gesdd-fails")
            d["injected_fault"] = "scipy.linalg.svd(lapack_driver='gesdd') raises LinAlgError"
        for QR, system, full, opt in MODES:
            mode = kc.svd_qn_mode(QR, system, full)
            before = monitors.COUNTS.get("svd_qn_contract_evals", 0)
            env.reseed_global(rng)          # add_orthonormal_basis draws from the global numpy RNG
            ctx.evaluations += 1
            real_scipy = mod.scipy
            if inject:
                # injected fault, visible to the module under test only: the divide-and-conquer driver "does not converge";
                # the documented fallback (gesvd) must serve the call
                mod.scipy = _FailingGesdd(real_scipy, ctx)
            try:
                try:
                    mod.svd_qn(coef, qnl, qnr, qntot, QR=QR, system=system, full_matrices=full, opt_full_matrices=opt)
                finally:
                    mod.scipy = real_scipy
            except ValueError as e:
                if "Invalid quantum number" in str(e) and len(sectors) == 0:
                    ctx.refuse("svd_qn: Invalid quantum number (no sector has entries on both sides)")
                    ctx.count("svd_refused_no_sector")
                    continue
                _crash(ctx, f"svd_qn|{mode}", e, **d)
                continue
            except Exception as e:  # noqa: BLE001
                _crash(ctx, f"svd_qn|{mode}", e, **d)
                continue
            if len(sectors) == 0:
                ctx.violate(f"svd_qn|{mode}|no-sector-but-no-refusal", **d)
                continue
            if monitors.COUNTS.get("svd_qn_contract_evals", 0) != before + 1:
                ctx.note_inconclusive("svd_qn contract did not evaluate on a direct call")
            ctx.count("oracle")
        ctx.check(np.array_equal(coef, keep), "svd_qn|input-modified", **d)
        if len(sectors) >= 2:
            ctx.nontrivial(("svd", ctx.idx, k))
    ctx.describe({"kind": "svd_qn", "arrays": descs})


# =============================================================================================== eigh_qn
def _eigh_case(ctx):
    from renormalizer.mps import svd_qn as mod
    rng = ctx.rng
    descs = []
    for k in range(EIGH_RUNS):
        kq = 2 if rng.random() < 0.3 else 1
        n = int(rng.integers(1, 31))
        q, shape, skind = _side(rng, kq, n)
        qc, cshape, _ = _side(rng, kq, int(rng.integers(1, 13)))
        qf, qcf = q.reshape(-1, kq), qc.reshape(-1, kq)
        n = len(qf)
        valid = rng.random() >= 0.04
        if valid:
            qntot = qf[int(rng.integers(0, n))] + qcf[int(rng.integers(0, len(qcf)))]
        else:
            qntot = rng.integers(-2, 6, size=kq)
        qntot = np.asarray(qntot, dtype=int)
        cplx = bool(rng.random() < 0.4)
        rank = n if rng.random() < 0.5 else int(rng.integers(1, n + 1))
        b = rng.normal(size=(n, rank))
        if cplx:
            b = b + 1j * rng.normal(size=(n, rank))
        respecting = bool(rng.random() < 0.5)
        same = np.all(qf[:, None, :] == qf[None, :, :], axis=-1)
        dm = b @ b.conj().T
        if respecting:
            dm = np.where(same, dm, 0)          # principal blocks of a PSD matrix: still PSD
        dm = dm * (_loguniform(rng, 1e-6, 1e6) if rng.random() < 0.25 else 1.0)
        system = "L" if rng.random() < 0.5 else "R"
        four_index = len(shape) == 2 and rng.random() < 0.7
        dm_in = dm.reshape(shape + shape) if four_index else dm
        qnbigl, qnbigr = (q, qc) if system == "L" else (qc, q)
        has_partner = [bool(np.any(np.all(qcf == qntot - row, axis=1))) for row in qf]
        nsect = len({tuple(r) for r, h in zip(qf.tolist(), has_partner) if h})
        d = {"n": n, "qn_size": kq, "system": system, "complex": cplx, "rank": rank, "respecting": respecting,
             "sectors": nsect, "rows_in_sectors": int(sum(has_partner)), "qntot": qntot.tolist(),
             "dm_shape": list(dm_in.shape), "labels": skind}
        descs.append(d)
        ctx.cls("eigh:" + system)
        if rank < n:
            ctx.cls("eigh:rank-deficient")
        if kq == 2:
            ctx.cls("eigh:two-component")
        if sum(has_partner) < n:
            ctx.cls("eigh:dropped-sector")
        before = monitors.COUNTS.get("eigh_qn_contract_evals", 0)
        ctx.evaluations += 1
        try:
            mod.eigh_qn(dm_in, qnbigl, qnbigr, qntot, system)
        except Exception as e:  # noqa: BLE001
            if nsect == 0:
                ctx.refuse(f"eigh_qn: no sector has a partner ({type(e).__name__})")
                continue
            _crash(ctx, f"eigh_qn|{system}", e, **d)
            continue
        if nsect == 0:
            continue
        if monitors.COUNTS.get("eigh_qn_contract_evals", 0) != before + 1:
            ctx.note_inconclusive("eigh_qn contract did not evaluate on a direct call")
        ctx.count("oracle")
        if nsect >= 2:
            ctx.nontrivial(("eigh", ctx.idx, k))
    ctx.describe({"kind": "eigh_qn", "runs": descs})


# =============================================================================================== in situ
def _insitu_tree(ctx, gm, terms, mpo, qntot, m_max, tau):
    """The same contracts at the call sites of renormalizer.tn (tree.py: svd_qn, time_evolution.py: expm_krylov)."""
    from renormalizer.tn import BasisTree, TTNO, TTNS
    from renormalizer.utils import EvolveConfig, EvolveMethod
    rng = ctx.rng
    shape = str(rng.choice(["binary", "linear"]))
    ctx.cls("insitu:tree-" + shape)
    tree = _lib_step(ctx, "BasisTree", getattr(BasisTree, shape), list(gm.basis))
    ttno = _lib_step(ctx, "TTNO", TTNO, tree, list(terms))
    env.reseed_global(rng)
    with np.errstate(all="ignore"):
        ttns = _lib_step(ctx, "TTNS.random", TTNS.random, tree, qntot, m_max, 1.0)
    if not all(np.all(np.isfinite(np.asarray(node.tensor))) for node in ttns.node_list):
        ctx.refuse("insitu TTNS.random: non-finite tensors")
        return
    ctx.evaluations += 1
    _lib_step(ctx, "ttns.canonicalise", ttns.canonicalise)
    _lib_step(ctx, "ttns.compress", ttns.compress)
    hd = np.asarray(_lib_step(ctx, "todense", mpo.todense))
    hnorm = float(np.linalg.norm(hd, 2))
    if not np.isfinite(hnorm) or hnorm == 0:
        ctx.refuse("insitu: operator norm zero or non-finite")
        return
    ttns.evolve_config = EvolveConfig(EvolveMethod.tdvp_ps)
    env.reseed_global(rng)
    _lib_step(ctx, "ttns.evolve", ttns.evolve, ttno, tau / hnorm)
    _insitu_account(ctx)


def _insitu_account(ctx):
    c = monitors.COUNTS
    ncalls = c.get("svd_qn_callsite_evals", 0) + c.get("krylov_callsite_evals", 0) + c.get("eigh_qn_callsite_evals", 0)
    ctx.count("oracle", ncalls)
    ctx.evaluations += ncalls
    if c.get("svd_qn_multi_sector_evals", 0) or c.get("krylov_post_checked", 0):
        ctx.nontrivial(("insitu", ctx.idx))


KERNEL_FILES = ("renormalizer/mps/svd_qn.py", "renormalizer/lib/krylov/krylov.py")


def _lib_step(ctx, what, fn, *args, **kwargs):
    """Library call of an in-situ case: a crash inside a kernel file is C18's business, anything else is a refusal."""
    from rv.case import CaseAbort, _innermost_repo_frame
    try:
        return fn(*args, **kwargs)
    except Exception as e:  # noqa: BLE001
        where = _innermost_repo_frame(e)
        if where.split(":")[0] in KERNEL_FILES:
            ctx.violate(f"insitu|{what}|crash|{type(e).__name__}@{where}", message=str(e)[:160])
        else:
            ctx.refuse(f"insitu {what}: {type(e).__name__}@{where}")
        raise CaseAbort() from e


def _insitu_case(ctx):
    from renormalizer.model import Model
    from renormalizer.mps import Mps, Mpo
    from renormalizer.mps import gs
    from renormalizer.utils import EvolveConfig, EvolveMethod
    from rv import dense, gen
    rng = ctx.rng
    variant = ["tdvp_ps", "tdvp_ps", "tdvp_ps2", "dmrg-2roots", "ttns-tdvp_ps"][ctx.idx % 5]
    qn_mode = "two" if rng.random() < 0.2 else "one"
    if variant == "ttns-tdvp_ps":
        # TTNS.evolve -> normalize -> ttns_norm builds TTNO.dummy with one-component labels and raises "Inconsistent
        # quantum number size" for two-component models (not a kernel matter; seen while calibrating)
        qn_mode = "one"
    cap = 64 if variant == "tdvp_ps2" else 200
    for _ in range(50):
        gm = gen.random_basis_list(rng, nsite=(3, 6), max_dim=cap, qn_mode=qn_mode, min_dim=8)
        if gm.has_qn and max(gm.dims) <= 5:
            break
    else:
        ctx.refuse("insitu: no model with quantum numbers generated")
        return
    # state-averaged DMRG asserts on a real state with a complex operator: mostly real operators there, and the
    # state is made complex when the operator is
    allow_complex = bool(rng.random() < {"dmrg-2roots": 0.3, "ttns-tdvp_ps": 0.0}.get(variant, 0.6))
    terms = gen.hermitian_terms(rng, gm, int(rng.integers(3, 10)), max_support=3, allow_complex=allow_complex,
                                charge_conserving=True, scale=1.0)
    if not terms:
        ctx.refuse("insitu: no Hermitian charge-conserving term available")
        return
    # a sector that contains at least two basis states
    qn_all = dense.basis_qn(gm.basis)
    labels, counts = np.unique(qn_all.reshape(len(qn_all), -1), axis=0, return_counts=True)
    big = labels[counts >= 2]
    if len(big) == 0:
        ctx.refuse("insitu: every sector is one-dimensional")
        return
    qntot = np.asarray(big[int(rng.integers(0, len(big)))], dtype=int)
    m_max = int(rng.integers(2, 5)) if variant == "tdvp_ps2" else int(rng.integers(2, 9))
    imaginary = variant in ("tdvp_ps", "tdvp_ps2") and bool(rng.random() < 0.3)
    tau = float(rng.choice([0.05, 0.5, 3.0, 10.0]))       # ||H|| * step, so that the local problems stay moderate
    ctx.describe({"kind": "insitu", "variant": variant, "model": gm.describe(), "terms": gen.terms_describe(terms, 20),
                  "qntot": qntot.tolist(), "m_max": m_max, "imaginary_time": imaginary, "norm_H_step": tau})
    ctx.cls("insitu:" + variant, "insitu:qn-" + qn_mode)
    if imaginary:
        ctx.cls("insitu:imaginary-time")
    model = _lib_step(ctx, "Model", Model, list(gm.basis), list(terms))
    mpo = _lib_step(ctx, "Mpo", Mpo, model)
    if variant == "ttns-tdvp_ps":
        return _insitu_tree(ctx, gm, terms, mpo, qntot, m_max, tau)
    env.reseed_global(rng)
    with np.errstate(all="ignore"):
        mps = _lib_step(ctx, "Mps.random", Mps.random, model, qntot, m_max, 1.0)
    if not all(np.all(np.isfinite(np.asarray(mt.array))) for mt in mps):
        ctx.refuse("insitu Mps.random: no amplitude in the requested sector (non-finite tensors)")
        return
    ctx.evaluations += 1
    _lib_step(ctx, "canonicalise", mps.canonicalise)
    _lib_step(ctx, "compress", mps.compress)
    if variant == "dmrg-2roots":
        if mpo.dtype == np.complex128 or any(np.iscomplexobj(np.asarray(mt.array)) for mt in mpo):
            ctx.cls("insitu:dmrg-complex-operator")
            mps = _lib_step(ctx, "to_complex", mps.to_complex)
        mps.optimize_config.procedure = [[m_max, 0.4], [m_max, 0.0]]
        mps.optimize_config.nroots = 2
        env.reseed_global(rng)
        _lib_step(ctx, "optimize_mps", gs.optimize_mps, mps, mpo)
    else:
        mps.evolve_config = EvolveConfig(getattr(EvolveMethod, variant))
        hd = np.asarray(_lib_step(ctx, "todense", mpo.todense))
        hnorm = float(np.linalg.norm(hd, 2))
        if not np.isfinite(hnorm) or hnorm == 0:
            ctx.refuse("insitu: operator norm zero or non-finite")
            return
        h = tau / hnorm
        dt = -1j * h if imaginary else h
        env.reseed_global(rng)
        _lib_step(ctx, "evolve", mps.evolve, mpo, dt)
    _insitu_account(ctx)
