"""C17 - fermionic Hamiltonians and site reordering keep the physics unchanged.

Families (chosen from the case index so that every tier sees all of them):
  A  static   : spatial integrals -> int_to_h -> qc_model -> Mpo            vs  second-quantised reference
  A2 static   : arbitrary spin-orbital tensors -> qc_model -> Mpo           vs  second-quantised reference
  A3 static   : FCIDUMP file -> read_fcidump -> qc_model -> Mpo             vs  second-quantised reference
  B  swaps    : Mpo.try_swap_site walks (swap_jw True / False)              vs  Hamiltonian rebuilt in the new order / P H P^T
  C  OFS-opt  : optimize_mps with on-the-fly swapping                       vs  exact diagonalisation in the sector
  D  OFS-evol : TDVP-PS2 with on-the-fly swapping                           vs  expm(-iHt) psi0

The reference is the harness's own: `dense.fermion_ops` (bit strings + explicit signs, no Pauli strings), a signed
permutation for the change of orbital order, `dense.permute_sites_*` for plain site permutations.
"""
import functools
import itertools
import os
import tempfile
import traceback

import numpy as np
import scipy.sparse as sp

from rv import dense, env, states

ID = "C17"
LEVEL = "exploration"
RULE = ("Random real symmetric one-electron integrals and 8-fold symmetric two-electron integrals (sum_L B^L(x)B^L, "
        "8-fold symmetrised random tensors, density-density, Hubbard, sparse, vanishing orbital blocks, zero) for 1..3 "
        "spatial orbitals (4 in thorough), all four (stacked, conserve_qn) combinations; arbitrary spin-orbital tensors "
        "fed to qc_model; FCIDUMP files in the 4-fold and in the unique (8-fold) listing; walks of 1..8 random adjacent "
        "try_swap_site calls with and without the Jordan-Wigner correction on ab-initio, spin and vibronic operators; "
        "optimize_mps and TDVP-PS2 with OFS (ofs_s, ofs_d, ofs_ds, ofs_debug) at full bond dimension on ab-initio "
        "(ofs_swap_jw True and False), spin and vibronic general Models. Non-trivial: >= 2 spatial orbitals with a "
        "non-zero two-electron part (static families, distinct by hash of the integrals), a walk on >= 3 sites whose "
        "operator is changed by the swaps (distinct by operator and walk), or an OFS run in which >= 1 swap was "
        "actually performed (counted by a wrapper on Mpo.try_swap_site; distinct by model, sector and configuration).")
ASSUMPTIONS = [
    "conventions read from the code and confirmed by the checks: spin orbital P = 2*p + s sits on site P (spatial "
    "orbital p, s = 0 alpha on even sites, s = 1 beta on odd sites); BasisHalfSpin state index 0 = empty, index 1 = "
    "occupied ('+' = |0><1| annihilates, '-' creates, Z = diag(1,-1) is the parity string); eri[p,q,r,s] = (pq|rs) in "
    "chemists' notation; int_to_h needs the pair-exchange symmetry (pq|rs) = (rs|pq), all generated tensors have it",
    "reference: H = sum h_pq a+_ps a_qs + 1/2 sum (pq|rs) a+_ps a+_rt a_st a_qs built from the SPATIAL integrals with "
    "dense.fermion_ops (site 0 = slowest index); a new orbital order is a signed permutation U (sign = parity of the "
    "inversions among the occupied orbitals) and the harness verifies U H U^T == rebuilt Hamiltonian on every case "
    "that uses it (a failure of that self-check is a harness error, never a violation)",
    "tolerance 1e-9 * max(1, ||H||_F) for all operator equalities (static and after swaps; only the two graph "
    "algorithms are used for swaps, the QR variant's coefficient cut is C01's business)",
    "with ofs_swap_jw=True the operator after swaps must be the Jordan-Wigner Hamiltonian REBUILT in the new orbital "
    "order and the state the fermionic state re-expressed in that order; with False P H P^T and the permuted vector",
    "optimize_mps: procedure entries are CompressConfig objects carrying ofs (integer entries create a fresh "
    "CompressConfig without ofs, so OFS is silently off for them - recorded as counter 'int_procedure_swap_calls', not "
    "judged); 2site only (the OFS branch asserts a two-site tensor); the start state is Mps.random with a bond limit "
    "that discards no block (a start without amplitude in some block traps the two-site sweeps whatever OFS does); "
    "schedule = optionally 1-2 truncating sweeps with percent > 0 (where the discarded-weight criteria act), then one "
    "sweep with percent > 0 and 4-6 with percent 0 at a bond limit that discards nothing; every sweep energy >= exact "
    "sector ground energy - 1e-9; lowest sweep energy == exact (1e-6 relative, e_rtol) is demanded only for schedules "
    "without truncating sweeps and only when the same run with OFS off reaches it (truncation to 2-4 states can lose "
    "quantum-number blocks for good, path dependent: seen once in 8000 cases with OFS on and not off); runs that miss "
    "the ground energy are counted (optimiser_stuck_*), reached ones as ground_energy_reached",
    "the returned state is judged in its own final order (res.model.basis): its Rayleigh quotient with the reference "
    "Hamiltonian in that order must equal (1e-7 relative) the local eigenvalue of the sweep step it was taken from "
    "(recorded by a wrapper on gs.single_sweep; optimize_mps returns the state of the step that was best in the "
    "previous sweep, which need not be converged); when that eigenvalue is the exact ground energy the weight outside "
    "the exact ground space (levels within 1e-6*scale, so degenerate ground spaces are compared as subspaces) must be "
    "<= max(1e-6, 4e-6*scale/gap); normalisation and sector support 1e-8; the passed Hamiltonian MPO is compared in "
    "the order of its own .model (the docstring says it no longer corresponds to the returned state)",
    "TDVP-PS2 calibration (900 runs on a tree with the swap_jw spelling repaired, ||H||*dt in [0.05,0.4], 2-4 steps, "
    "krylov and RK45 local solvers at ivp_rtol 1e-8/atol 1e-10, start = Mps.random with no block discarded): the "
    "OFS-off run is within 2e-8*||psi|| of expm(-iHt)psi0 and the OFS-on runs (all criteria, with and without the JW "
    "correction) within 1.5e-8; bound used: max(2e-6, 10 * error of the OFS-off run of the same case) relative to "
    "||psi0||; an OFS-off error above 1e-5 makes the case inconclusive, not violated",
    "StackedMpo has no try_swap_site: OFS with a StackedMpo is outside the promised class (not generated)",
    "HolsteinModel is refused by the OFS code (documented NotImplementedError); only general Model objects are used",
    "dense dimension <= 4096; 4 spatial orbitals only in the static and swap families of the thorough tier",
]

TOL = 1e-9
FAMILIES = ["static", "static", "static-so", "static", "swaps", "swaps", "swaps", "swaps",
            "ofs-opt", "ofs-opt", "ofs-opt", "ofs-opt", "ofs-opt", "ofs-evolve", "ofs-evolve", "ofs-evolve"]


def plan(tier):
    classes = ["family:static", "family:static-so", "family:swaps", "family:ofs-opt", "family:ofs-evolve", "stacked",
               "flat", "conserve_qn:True", "conserve_qn:False", "swap_jw:True", "swap_jw:False", "model:qc", "swap_jw:without-quantum-numbers", "qc:complex-hopping",
               "model:spin", "model:vibronic", "spelling:library", "spelling:sigma", "ofs:ofs_s", "ofs:ofs_d",
               "ofs:ofs_ds", "ofs:ofs_debug", "fcidump:4fold", "fcidump:8fold", "swapped-in-optimisation",
               "swapped-in-evolution", "schedule:truncating-sweeps-first", "norb:1", "norb:2", "norb:3", "rdm",
               "rdm-sector:open-shell", "rdm-sector:closed-shell"]
    if tier == "quick":
        return {"ncases": 640, "min_nontrivial": 250, "case_time_limit": 240, "required_classes": classes,
                "required_counters": {"oracle": 5000, "walk_swaps": 300, "swaps_opt": 100, "swaps_evolve": 50,
                                      "ofs_runs_with_swap": 80, "ofs_runs_with_swap:ofs_s": 10,
                                      "ofs_runs_with_swap:ofs_ds": 10, "ofs_runs_with_swap:ofs_d": 1,
                                      "jw_selfcheck": 200, "sweep_monitor": 150, "try_swap_site_calls": 2000,
                                      "ground_energy_reached": 150}}
    return {"ncases": 8000, "min_nontrivial": 3000, "case_time_limit": 600, "required_classes": classes + ["norb:4"],
            "required_counters": {"oracle": 60000, "walk_swaps": 4000, "swaps_opt": 1500, "swaps_evolve": 800,
                                  "ofs_runs_with_swap": 1200, "ofs_runs_with_swap:ofs_s": 150,
                                  "ofs_runs_with_swap:ofs_ds": 150, "ofs_runs_with_swap:ofs_d": 20,
                                  "jw_selfcheck": 3000, "sweep_monitor": 2000, "try_swap_site_calls": 30000,
                                  "ground_energy_reached": 2000}}


# ------------------------------------------------------------------------------------ swap counter (monitor)
SWAPLOG = []
SWEEPLOG = []
_installed = False


def setup(tier=None):
    """Wrap Mpo.try_swap_site (class attribute, so every call site sees it) to record calls and performed swaps."""
    global _installed
    if _installed:
        return
    from renormalizer.mps import Mpo
    orig = Mpo.try_swap_site

    @functools.wraps(orig)
    def counted(self, new_model, *args, **kwargs):
        before = [tuple(b.dofs) for b in self.model.basis]
        res = orig(self, new_model, *args, **kwargs)
        after = [tuple(b.dofs) for b in self.model.basis]
        SWAPLOG.append(before != after)
        return res

    Mpo.try_swap_site = counted

    # the micro-iteration energies of every DMRG sweep and the step from which the returned state is taken
    from renormalizer.mps import gs
    orig_sweep = gs.single_sweep

    @functools.wraps(orig_sweep)
    def logged_sweep(mps, mpo, environ, omega, percent, last_opt_e_idx):
        out = orig_sweep(mps, mpo, environ, omega, percent, last_opt_e_idx)
        try:
            SWEEPLOG.append({"last": last_opt_e_idx, "micro": [(float(np.min(e)), list(c)) for e, c in out[0]],
                             "M": int(mps.compress_config.bond_dim_max_value)})
        except Exception:  # noqa: BLE001 - the monitor must never disturb the run
            SWEEPLOG.append(None)
        return out

    gs.single_sweep = logged_sweep
    _installed = True


# ------------------------------------------------------------------------------------------ fermionic reference
@functools.lru_cache(maxsize=None)
def _cops(n):
    return tuple(sp.csr_matrix(m) for m in dense.fermion_ops(n))


def ladder(nso, order=None):
    """Annihilators / creators of the spin orbitals 0..nso-1 when spin orbital order[k] sits on site k."""
    c = _cops(nso)
    if order is None:
        order = range(nso)
    pos = {int(lab): k for k, lab in enumerate(order)}
    a = [c[pos[P]] for P in range(nso)]
    ad = [m.T.tocsr() for m in a]
    return a, ad


def fermi_ref_spatial(h, eri, order=None):
    """sum h_pq a+_ps a_qs + 1/2 sum (pq|rs) a+_ps a+_rt a_st a_qs, spin orbital 2p+s, on the given site order."""
    n = len(h)
    nso = 2 * n
    a, ad = ladder(nso, order)
    H = sp.csr_matrix((2 ** nso, 2 ** nso))
    for p, q in itertools.product(range(n), repeat=2):
        if h[p, q] != 0:
            for s in range(2):
                H = H + h[p, q] * (ad[2 * p + s] @ a[2 * q + s])
    for p, q, r, s_ in itertools.product(range(n), repeat=4):
        v = eri[p, q, r, s_]
        if v == 0:
            continue
        for s in range(2):
            for t in range(2):
                H = H + 0.5 * v * (ad[2 * p + s] @ ad[2 * r + t] @ a[2 * s_ + t] @ a[2 * q + s])
    return np.asarray(H.todense())


def fermi_ref_so(h1, h2, order=None):
    """sum h1[p,q] a+_p a_q + sum h2[p,q,r,s] a+_p a+_q a_r a_s over spin orbitals (qc_model's documented meaning)."""
    nso = len(h1)
    a, ad = ladder(nso, order)
    H = sp.csr_matrix((2 ** nso, 2 ** nso))
    for p, q in np.argwhere(h1 != 0):
        H = H + h1[p, q] * (ad[p] @ a[q])
    for p, q, r, s in np.argwhere(h2 != 0):
        H = H + h2[p, q, r, s] * (ad[p] @ ad[q] @ a[r] @ a[s])
    return np.asarray(H.todense())


def number_ops(nso, order=None):
    a, ad = ladder(nso, order)
    na = sum((ad[P] @ a[P] for P in range(0, nso, 2)), sp.csr_matrix((2 ** nso, 2 ** nso)))
    nb = sum((ad[P] @ a[P] for P in range(1, nso, 2)), sp.csr_matrix((2 ** nso, 2 ** nso)))
    return np.asarray(na.todense()), np.asarray(nb.todense())


def reorder_unitary(order):
    """Signed permutation U with psi_new = U psi_old: old = spin orbital k on site k, new = order[k] on site k."""
    n = len(order)
    dim = 2 ** n
    U = np.zeros((dim, dim))
    for new in range(dim):
        labs = [int(order[k]) for k in range(n) if (new >> (n - 1 - k)) & 1]
        inv = sum(1 for i in range(len(labs)) for j in range(i + 1, len(labs)) if labs[i] > labs[j])
        old = sum(1 << (n - 1 - lab) for lab in labs)
        U[new, old] = (-1) ** inv
    return U


class HarnessSelfCheck(Exception):
    pass


def guarded(ctx, fn, *args, what=None, **kwargs):
    """ctx.lib with one mechanism-level signature for the assertion of swap_site that fires when an original bond
    operator is left without any contribution (whatever the call path: direct walk, DMRG sweep, TDVP step)."""
    from rv.case import CaseAbort

    def call(*a, **k):
        try:
            return fn(*a, **k)
        except AssertionError as e:
            tb = traceback.extract_tb(e.__traceback__)
            if tb and tb[-1].name == "swap_site" and "new_out_ops3" in (tb[-1].line or ""):
                ctx.violate("swap_site|assertion|original-bond-operator-left-without-contribution", context=what,
                            traceback=traceback.format_exc()[-1200:])
                raise CaseAbort() from e
            raise

    call.__name__ = getattr(fn, "__name__", "call")
    return ctx.lib(call, *args, what=what, **kwargs)


# --------------------------------------------------------------------------------------------------- generators
def sym8(t):
    t = (t + t.transpose(1, 0, 2, 3)) / 2
    t = (t + t.transpose(0, 1, 3, 2)) / 2
    t = (t + t.transpose(2, 3, 0, 1)) / 2
    return t


H_KINDS = ["dense", "dense", "sparse", "diagonal", "zero-block", "zero"]
ERI_KINDS = ["lowrank", "lowrank", "sym8", "density-density", "hubbard", "sparse-lowrank", "sparse-sym8", "zero-block",
             "zero"]


def gen_integrals(rng, norb, h_kind=None, eri_kind=None):
    if h_kind is None:
        h_kind = H_KINDS[int(rng.integers(0, len(H_KINDS)))]
    if eri_kind is None:
        eri_kind = ERI_KINDS[int(rng.integers(0, len(ERI_KINDS)))]
    h = rng.normal(size=(norb, norb))
    h = (h + h.T) / 2
    if h_kind == "sparse":
        m = rng.random((norb, norb)) < 0.5
        m = np.triu(m) | np.triu(m).T
        h = h * m
    elif h_kind == "diagonal":
        h = np.diag(np.diag(h))
    elif h_kind == "zero":
        h = np.zeros((norb, norb))
    zero_orbs = []
    if norb >= 2:
        k = int(rng.integers(1, norb))
        zero_orbs = sorted(rng.choice(norb, size=k, replace=False).tolist())
    else:
        zero_orbs = [0]
    if h_kind == "zero-block":
        for o in zero_orbs:
            h[o, :] = 0
            h[:, o] = 0

    def symB(nl, diag=False, sparse=False):
        B = rng.normal(size=(nl, norb, norb))
        B = (B + B.transpose(0, 2, 1)) / 2
        if diag:
            B = B * np.eye(norb)[None]
        if sparse:
            m = rng.random((nl, norb, norb)) < 0.45
            m = np.triu(m) | np.triu(m).transpose(0, 2, 1)
            B = B * m
        return B

    nl = int(rng.integers(1, 4))
    if eri_kind == "lowrank":
        B = symB(nl)
        eri = np.einsum("Lpq,Lrs->pqrs", B, B)
    elif eri_kind == "sym8":
        eri = sym8(rng.normal(size=(norb,) * 4))
    elif eri_kind == "density-density":
        B = symB(nl, diag=True)
        eri = np.einsum("Lpq,Lrs->pqrs", B, B)
    elif eri_kind == "hubbard":
        eri = np.zeros((norb,) * 4)
        for p in range(norb):
            eri[p, p, p, p] = float(rng.uniform(0.5, 4.0))
    elif eri_kind == "sparse-lowrank":
        B = symB(nl, sparse=True)
        eri = np.einsum("Lpq,Lrs->pqrs", B, B)
    elif eri_kind == "sparse-sym8":
        keep = sym8((rng.random((norb,) * 4) < 0.4).astype(float)) == 1.0
        eri = sym8(rng.normal(size=(norb,) * 4)) * keep
    elif eri_kind == "zero-block":
        eri = sym8(rng.normal(size=(norb,) * 4))
        for o in zero_orbs:
            eri[o] = 0
            eri[:, o] = 0
            eri[:, :, o] = 0
            eri[:, :, :, o] = 0
    else:
        eri = np.zeros((norb,) * 4)
    if rng.random() < 0.3:
        h = h * 10.0 ** rng.uniform(-2, 2)
    if rng.random() < 0.3:
        eri = eri * 10.0 ** rng.uniform(-2, 2)
    if not np.any(h) and not np.any(eri):
        h[0, 0] = float(rng.uniform(0.3, 2.0))
        h_kind += "+h00"
    assert np.allclose(eri, sym8(eri), atol=0, rtol=1e-13)
    return h, eri, {"norb": norb, "h_kind": h_kind, "eri_kind": eri_kind}


def int_key(h, eri):
    return {"h": np.round(h, 10).ravel().tolist(), "eri": np.round(eri, 10).ravel().tolist()}


def flat_terms(terms):
    if terms and isinstance(terms[0], list):
        return [t for sub in terms for t in sub]
    return list(terms)


def rename_sigma(t):
    """The same JW term written with the long spelling of the spin symbols."""
    from renormalizer.model import Op
    m = {"+": "sigma_+", "-": "sigma_-", "Z": "sigma_z"}
    return Op(" ".join(m[s] for s in t.split_symbol), t.dofs, t.factor, qn=t.qn_list)


def gen_spin(rng, nsite, with_qn):
    """Random XXZ-like spin model with couplings between arbitrary pairs; returns basis, terms."""
    from renormalizer.model import Op
    from renormalizer.model.basis import BasisHalfSpin
    basis = [BasisHalfSpin(f"s{i}", sigmaqn=[0, 1] if with_qn else [0, 0]) for i in range(nsite)]
    terms = []
    pairs = [(i, j) for i in range(nsite) for j in range(i + 1, nsite)]
    for (i, j) in pairs:
        if j == i + 1 or rng.random() < 0.5:
            jz, jxy = float(rng.normal()), float(rng.normal())
            terms.append(Op("sigma_z sigma_z", [f"s{i}", f"s{j}"], jz, qn=[0, 0]))
            # sigma_- = |1><0| raises the label of BasisHalfSpin(sigmaqn=[0,1]) by one
            q = [-1, 1] if with_qn else [0, 0]
            terms.append(Op("sigma_+ sigma_-", [f"s{i}", f"s{j}"], jxy, qn=q))
            terms.append(Op("sigma_- sigma_+", [f"s{i}", f"s{j}"], jxy, qn=[-x for x in q]))
            if not with_qn and rng.random() < 0.5:
                terms.append(Op("sigma_x sigma_x", [f"s{i}", f"s{j}"], float(rng.normal()), qn=[0, 0]))
    for i in range(nsite):
        terms.append(Op("sigma_z", f"s{i}", float(rng.normal()), qn=0))
        if not with_qn and rng.random() < 0.6:
            terms.append(Op("sigma_x", f"s{i}", float(rng.normal()), qn=0))
    return basis, terms


def gen_vibronic(rng, max_dim=2048):
    """General Model of a vibronic problem: electronic sites (one conserved exciton number) and SHO modes."""
    from renormalizer.model import Op
    from renormalizer.model.basis import BasisSimpleElectron, BasisSHO
    for _ in range(50):
        ne = int(rng.integers(2, 4))
        nv = int(rng.integers(1, 4))
        layout = ["e"] * ne + ["v"] * nv
        rng.shuffle(layout)
        basis, enames, vnames, omegas = [], [], [], {}
        for kind in layout:
            if kind == "e":
                name = f"e{len(enames)}"
                enames.append(name)
                basis.append(BasisSimpleElectron(name))
            else:
                name = f"v{len(vnames)}"
                vnames.append(name)
                omegas[name] = float(rng.choice([0.5, 1.0, 1.7]))
                basis.append(BasisSHO(name, omegas[name], int(rng.integers(2, 5))))
        if int(np.prod([b.nbas for b in basis])) <= max_dim:
            break
    terms = []
    for i, e in enumerate(enames):
        terms.append(Op(r"a^\dagger a", e, float(rng.normal()), qn=[1, -1]))
        for f in enames[i + 1:]:
            if rng.random() < 0.8:
                j = float(rng.normal())
                terms.append(Op(r"a^\dagger a", [e, f], j, qn=[1, -1]))
                terms.append(Op(r"a^\dagger a", [f, e], j, qn=[1, -1]))
    for v in vnames:
        terms.append(Op(r"b^\dagger b", v, omegas[v], qn=[0, 0]))
        for e in enames:
            if rng.random() < 0.7:
                terms.append(Op(r"a^\dagger a x", [e, e, v], float(rng.normal()) * 0.7, qn=[1, -1, 0]))
    return basis, terms


def basis_desc(basis):
    return [f"{type(b).__name__}({b.dofs[0]!r},{b.nbas})" for b in basis]


# ------------------------------------------------------------------------------------------------ run_case
def witness_open_finding(ctx):
    """Deterministic witness of the (repaired) finding recorded in known_findings.json, so that every run states whether
    it has returned: a fixed walk of adjacent swaps in which swap_site meets a cancelled bond operator."""
    from renormalizer.model import Model, Op
    from renormalizer.model.basis import BasisHalfSpin
    from renormalizer.mps import Mpo
    b = [BasisHalfSpin(i) for i in range(5)]
    terms = [Op("Z Z", [0, 2]), Op("Z Z", [2, 3]), Op("Z", 1), Op("Z", 2)]
    mpo = Mpo(Model(list(b), terms))
    cur = list(b)
    ctx.cls("witness:swap-walk-with-cancelled-bond-operator")
    from rv import dense
    for i in [1, 3, 2, 1, 2, 3, 1, 0, 2, 1]:      # the fourth swap met the cancelled operator; the later ones re-use its label
        cur[i], cur[i + 1] = cur[i + 1], cur[i]
        guarded(ctx, mpo.try_swap_site, Model(list(cur), terms), False, what="try_swap_site|witness")
        ctx.count("oracle")
        ctx.close(mpo.todense(), dense.op_dense(cur, terms), 1e-10, "witness|swapped-operator-differs", scale=4.0)


def run_case(ctx):
    setup()
    if ctx.idx == 0:
        from rv.case import CaseAbort
        try:
            witness_open_finding(ctx)
        except CaseAbort:
            pass
    # rotate so that a worker chunk (indices congruent mod 16) contains every family: balanced chunks
    fam = FAMILIES[(ctx.idx + ctx.idx // len(FAMILIES)) % len(FAMILIES)]
    ctx.cls("family:" + fam)
    if fam == "static":
        case_static(ctx)
    elif fam == "static-so":
        case_static_so(ctx)
    elif fam == "swaps":
        case_swaps(ctx)
    elif fam == "ofs-opt":
        case_ofs_opt(ctx)
    else:
        case_ofs_evolve(ctx)


def pick_norb(ctx, lo=1, allow4=True):
    rng = ctx.rng
    if ctx.tier == "thorough" and allow4 and rng.random() < 0.08:
        return 4
    return int(rng.choice([k for k in (1, 2, 2, 3, 3) if k >= lo]))


def operator_checks(ctx, got, ref, scale, tag, nso=None, order=None):
    """Dense equality with the reference, Hermiticity, conservation of N_alpha and N_beta."""
    ctx.count("oracle")
    ok = ctx.close(got, ref, TOL, f"qc-mpo|differs-from-fermionic-reference|{tag}", scale=scale)
    ctx.count("oracle")
    ctx.close(got, np.asarray(got).conj().T, TOL, f"qc-mpo|not-hermitian|{tag}", scale=scale)
    if nso is not None:
        na, nb = number_ops(nso, order)
        for name, nop in (("N_alpha", na), ("N_beta", nb)):
            ctx.count("oracle")
            ctx.close(got @ nop, nop @ got, TOL * nso, f"qc-mpo|does-not-commute-with-{name}|{tag}", scale=scale)
    return ok


def qn_checks(ctx, basis, mpo, conserve_qn, tag):
    nso = len(basis)
    q = dense.basis_qn(basis)
    if conserve_qn:
        na, nb = number_ops(nso)
        ctx.count("oracle")
        ctx.check(q.shape[1] == 2 and np.array_equal(q[:, 0], np.diag(na).astype(int))
                  and np.array_equal(q[:, 1], np.diag(nb).astype(int)),
                  f"qc-model|stored-quantum-numbers-are-not-N_alpha-N_beta|{tag}")
    else:
        ctx.check(not np.any(q), f"qc-model|nonzero-labels-without-conserve_qn|{tag}")
    ctx.check(not np.any(np.asarray(mpo.qntot)), f"qc-mpo|qntot-nonzero|{tag}", qntot=np.asarray(mpo.qntot))
    problems = states.check_labels(mpo)
    ctx.count("oracle")
    ctx.check(not problems, f"qc-mpo|bond-labels-inconsistent|{tag}", problems=problems[:3])


def build_qc(ctx, sh, aseri, stacked, conserve_qn, what="qc_model"):
    """(basis, terms, list of Mpo, dense operator) through the library for one option combination."""
    from renormalizer.model import Model, h_qc
    from renormalizer.mps import Mpo, StackedMpo
    basis, terms = ctx.lib(h_qc.qc_model, sh, aseri, stacked=stacked, conserve_qn=conserve_qn, what=what)
    if stacked:
        mpos = [ctx.lib(Mpo, Model(basis, sub), what="Mpo(qc stacked)") for sub in terms]
        StackedMpo(mpos)
    else:
        mpos = [ctx.lib(Mpo, Model(basis, terms), what="Mpo(qc)")]
    d = sum(np.asarray(m.todense()) for m in mpos)
    return basis, terms, mpos, d


def case_static(ctx):
    from renormalizer.model import h_qc
    rng = ctx.rng
    norb = pick_norb(ctx)
    h, eri, desc = gen_integrals(rng, norb)
    nso = 2 * norb
    desc["family"] = "static"
    do_fcidump = rng.random() < 0.4
    desc["fcidump"] = do_fcidump
    ctx.describe(dict(desc, h=h, eri=eri))
    ctx.cls(f"norb:{norb}", "h:" + desc["h_kind"], "eri:" + desc["eri_kind"])
    ref = fermi_ref_spatial(h, eri)
    scale = max(1.0, float(np.linalg.norm(ref)))
    if norb >= 2 and np.any(eri):
        ctx.nontrivial({"family": "static", **int_key(h, eri)})

    sh, aseri = ctx.lib(h_qc.int_to_h, h, eri, what="int_to_h")
    # localise: the spin-orbital tensors alone, read with qc_model's documented meaning
    ctx.count("oracle")
    ctx.close(fermi_ref_so(sh, aseri), ref, TOL, "int_to_h|spin-orbital-integrals-differ-from-fermionic-reference",
              scale=scale)
    results = {}
    for stacked in (False, True):
        for conserve_qn in (True, False):
            tag = ("stacked" if stacked else "flat") + ("" if conserve_qn else "|no-qn")
            ctx.cls("stacked" if stacked else "flat", f"conserve_qn:{conserve_qn}")
            ctx.evaluations += 1
            basis, terms, mpos, d = build_qc(ctx, sh, aseri, stacked, conserve_qn)
            results[(stacked, conserve_qn)] = d
            operator_checks(ctx, d, ref, scale, tag, nso)
            ctx.count("oracle")
            ctx.close(dense.op_dense(basis, flat_terms(terms)), ref, TOL,
                      f"qc-terms|term-list-differs-from-fermionic-reference|{tag}", scale=scale)
            for m in mpos:
                qn_checks(ctx, basis, m, conserve_qn, tag)
            ctx.check(len(basis) == nso and [b.dofs[0] for b in basis] == list(range(nso)),
                      "qc-model|basis-order-is-not-spin-orbital-order")
    ctx.count("oracle")
    ctx.close(results[(True, True)], results[(False, True)], TOL, "qc-mpo|stacked-differs-from-flat", scale=scale)
    ctx.count("oracle")
    ctx.close(results[(True, False)], results[(False, False)], TOL, "qc-mpo|stacked-differs-from-flat|no-qn",
              scale=scale)
    if do_fcidump:
        fcidump_checks(ctx, h, eri, ref, scale)
    if norb <= 3 and rng.random() < 0.4:
        rdm_checks(ctx, h, eri, sh, aseri, norb, ref)


def rdm_checks(ctx, h, eri, sh, aseri, norb, ref):
    """The spin-traced reduced density matrices of the PySCF interface (built from the same ladder operators and the same
    normal-ordering simplification as the Hamiltonian) against their documented definitions on the dense vector:
    1RDM[p,q] = sum_s <p_s^+ q_s>, 2RDM[p,q,r,s] = sum_st <p_s^+ r_t^+ s_t q_s>, E = h.1RDM + 1/2 (pq|rs).2RDM."""
    from renormalizer.model import Model, h_qc
    from renormalizer.mps import Mps
    from renormalizer.mps.gs import DmrgFCISolver
    from rv import env, states
    rng = ctx.rng
    nso = 2 * norb
    basis, terms = ctx.lib(h_qc.qc_model, sh, aseri, what="qc_model")
    model = Model(basis, terms)
    na, nb = int(rng.integers(0, norb + 1)), int(rng.integers(0, norb + 1))
    if rng.random() < 0.35:
        nb = na
    if na + nb == 0:
        na = nb = 1
    env.reseed_global(rng)
    mps = ctx.lib(Mps.random, model, [na, nb], int(rng.integers(2, 9)), 1.0, what="Mps.random", promised=False)
    if float(np.linalg.norm(states.dense_of(mps))) < 1e-8:
        return
    mps.normalize("mps_and_coeff")
    psi = np.asarray(states.dense_of(mps)).ravel()
    psi = psi / np.linalg.norm(psi)
    ctx.cls("rdm", f"rdm-sector:{'closed' if na == nb else 'open'}-shell")
    solver = DmrgFCISolver()
    solver.nsorb = nso
    solver.mps = mps
    rdm1 = np.asarray(ctx.lib(solver.make_rdm1, None, norb, (na, nb), what="DmrgFCISolver.make_rdm1"))
    rdm2 = np.asarray(ctx.lib(solver.make_rdm2, mps, norb, (na, nb), what="DmrgFCISolver.make_rdm2"))
    a, ad = ladder(nso)
    apsi = [m @ psi for m in a]
    ref1 = np.zeros((norb, norb))
    for p, q in itertools.product(range(norb), repeat=2):
        ref1[p, q] = sum(float(np.real(np.vdot(apsi[2 * p + s], apsi[2 * q + s]))) for s in range(2))
    ref2 = np.zeros((norb,) * 4)
    pair = {}
    for x, y in itertools.product(range(nso), repeat=2):
        pair[(x, y)] = a[x] @ apsi[y]              # a_x a_y |psi>
    for p, q, r, s_ in itertools.product(range(norb), repeat=4):
        v = 0.0
        for s in range(2):
            for t in range(2):
                # <p_s^+ r_t^+ s_t q_s> = (a_r,t a_p,s psi)^+ (a_s,t a_q,s psi)
                v += float(np.real(np.vdot(pair[(2 * r + t, 2 * p + s)], pair[(2 * s_ + t, 2 * q + s)])))
        ref2[p, q, r, s_] = v
    ctx.count("oracle", 4)
    ctx.count("rdm_checks")
    ctx.close(rdm1, ref1, 1e-9, "rdm|make_rdm1|differs-from-spin-traced-definition", scale=max(1.0, float(na + nb)))
    ctx.close(rdm2, ref2, 1e-9, "rdm|make_rdm2|differs-from-spin-traced-definition", scale=max(1.0, float((na + nb) ** 2)))
    ctx.close(float(np.trace(rdm1)), float(na + nb), 1e-9, "rdm|make_rdm1|trace-is-not-the-electron-number", scale=max(1.0, na + nb))
    e_rdm = float(np.einsum("pq,pq->", h, rdm1) + 0.5 * np.einsum("pqrs,pqrs->", eri, rdm2))
    e_ref = float(np.real(np.vdot(psi, ref @ psi)))
    ctx.close(e_rdm, e_ref, 1e-9, "rdm|energy-from-density-matrices-differs-from-<H>", scale=max(1.0, float(np.linalg.norm(ref, 2))))
    if norb >= 2:
        ctx.nontrivial({"family": "rdm", "sector": [na, nb], **int_key(h, eri)})


def write_fcidump(fname, h, eri, nuc, style):
    """Plain FCIDUMP: 4 header lines, then (pq|rs) with p>=q, r>=s (style '4fold': every such pair of pairs,
    as pyscf.tools.fcidump.from_mo writes it; style '8fold': only pq >= rs, the unique integrals), h, core."""
    n = len(h)
    with open(fname, "w") as f:
        f.write(f" &FCI NORB={n:4d},NELEC={n},MS2=0,\n  ORBSYM={'1,' * n}\n  ISYM=1,\n &END\n")
        for i in range(n):
            for j in range(i + 1):
                for k in range(n):
                    for l in range(k + 1):
                        if style == "8fold" and i * (i + 1) // 2 + j < k * (k + 1) // 2 + l:
                            continue
                        if eri[i, j, k, l] != 0:
                            f.write(f" {eri[i, j, k, l]:.17e} {i + 1:4d} {j + 1:4d} {k + 1:4d} {l + 1:4d}\n")
        for i in range(n):
            for j in range(i + 1):
                if h[i, j] != 0:
                    f.write(f" {h[i, j]:.17e} {i + 1:4d} {j + 1:4d}    0    0\n")
        f.write(f" {nuc:.17e}    0    0    0    0\n")


def fcidump_checks(ctx, h, eri, ref, scale):
    from renormalizer.model import h_qc
    nuc = float(ctx.rng.normal())
    with tempfile.TemporaryDirectory(prefix="c17_") as tmp:
        for style in ("4fold", "8fold"):
            ctx.cls("fcidump:" + style)
            fname = os.path.join(tmp, f"FCIDUMP_{style}")
            write_fcidump(fname, h, eri, nuc, style)
            sh, aseri, got_nuc = ctx.lib(h_qc.read_fcidump, fname, len(h), what="read_fcidump")
            ctx.check(got_nuc == nuc, f"read_fcidump|core-energy-differs|{style}", got=got_nuc, want=nuc)
            listing = "complete-4fold-listing" if style == "4fold" else "unique-8fold-listing"
            ctx.count("oracle")
            if not ctx.close(fermi_ref_so(sh, aseri), ref, TOL,
                             f"read_fcidump|{listing}|differs-from-fermionic-reference", scale=scale):
                continue
            basis, terms, mpos, d = build_qc(ctx, sh, aseri, False, True)
            operator_checks(ctx, d, ref, scale, f"fcidump-{style}", 2 * len(h))


def case_static_so(ctx):
    """qc_model fed directly with spin-orbital tensors (as example/hubbard-like users do): every index pattern."""
    rng = ctx.rng
    nso = int(rng.choice([2, 3, 4, 4, 5, 6]))
    spin_conserving = bool(rng.random() < 0.5)
    h1 = rng.normal(size=(nso, nso))
    if rng.random() < 0.7:
        h1 = (h1 + h1.T) / 2
    h1 = h1 * (rng.random((nso, nso)) < 0.7)
    h2 = rng.normal(size=(nso,) * 4) * (rng.random((nso,) * 4) < min(1.0, 14.0 / nso ** 3))
    for p, q, r, s in itertools.product(range(nso), repeat=4):
        if p == q or r == s:
            h2[p, q, r, s] = 0
        elif spin_conserving and sorted((p % 2, q % 2)) != sorted((r % 2, s % 2)):
            h2[p, q, r, s] = 0
    if spin_conserving:
        h1 = h1 * (np.add.outer(np.arange(nso), np.arange(nso)) % 2 == 0)
    if not np.any(h1) and not np.any(h2):
        h1[0, 0] = 1.0
    ctx.describe({"family": "static-so", "nso": nso, "spin_conserving": spin_conserving, "h1": h1,
                  "h2_nonzero": [[int(x) for x in idx] + [float(h2[tuple(idx)])] for idx in np.argwhere(h2 != 0)][:40]})
    ctx.cls(f"nso:{nso}", f"so-spin-conserving:{spin_conserving}")
    ref = fermi_ref_so(h1, h2)
    scale = max(1.0, float(np.linalg.norm(ref)))
    if nso >= 4 and np.count_nonzero(h2) >= 2:
        ctx.nontrivial({"family": "static-so", **int_key(h1, h2)})
    for stacked in (False, True):
        for conserve_qn in ((True, False) if spin_conserving else (False,)):
            tag = "spin-orbital-input|" + ("stacked" if stacked else "flat") + ("" if conserve_qn else "|no-qn")
            ctx.cls("stacked" if stacked else "flat", f"conserve_qn:{conserve_qn}")
            ctx.evaluations += 1
            basis, terms, mpos, d = build_qc(ctx, h1, h2, stacked, conserve_qn)
            ctx.count("oracle")
            ctx.close(d, ref, TOL, f"qc-mpo|differs-from-fermionic-reference|{tag}", scale=scale)
            if spin_conserving:
                na, nb = number_ops(nso)
                for name, nop in (("N_alpha", na), ("N_beta", nb)):
                    ctx.count("oracle")
                    ctx.close(d @ nop, nop @ d, TOL * nso, f"qc-mpo|does-not-commute-with-{name}|{tag}", scale=scale)
                for m in mpos:
                    qn_checks(ctx, basis, m, conserve_qn, tag)


# ------------------------------------------------------------------------------------------------- models
class Problem:
    """A Hamiltonian with its dense reference in the original order and the rule for other orders."""

    def __init__(self, kind, basis, terms, swap_jw, ref0, jw_data=None, desc=None):
        self.kind, self.basis, self.terms, self.swap_jw = kind, list(basis), list(terms), swap_jw
        self.ref0 = ref0
        self.dims = [b.nbas for b in basis]
        self.scale = max(1.0, float(np.linalg.norm(ref0)))
        self.jw_data = jw_data
        self.desc = desc or {}
        self.names = [tuple(b.dofs) for b in basis]
        self.tag = kind + ("|spelling=" + self.desc["spelling"] if kind == "qc" else "")

    def order_of(self, basis_now):
        return [self.names.index(tuple(b.dofs)) for b in basis_now]

    def ref(self, order):
        """The Hamiltonian the library must hold when original site order[k] sits on site k."""
        if self.swap_jw:
            kind, a, b = self.jw_data
            return fermi_ref_spatial(a, b, order) if kind == "spatial" else fermi_ref_so(a, b, order)
        return dense.permute_sites_op(self.ref0, self.dims, list(order))

    def vec(self, psi, order):
        """A state given in the original order, expressed in the new order."""
        if self.swap_jw:
            return reorder_unitary(order) @ psi
        return dense.permute_sites_vec(psi, self.dims, list(order))

    def mask(self, qntot, order):
        return dense.sector_mask([self.basis[k] for k in order], qntot)


def jw_selfcheck(ctx, prob, order):
    """The two independent ways the harness has to express 'the same fermionic operator in another orbital order'
    must agree; otherwise the harness is wrong and the case is a harness error."""
    U = reorder_unitary(order)
    a = U @ prob.ref0 @ U.T
    b = prob.ref(order)
    if np.linalg.norm(a - b) > 1e-10 * prob.scale:
        raise HarnessSelfCheck("signed permutation and rebuilt Hamiltonian disagree")
    ctx.count("jw_selfcheck")


def make_qc_problem(ctx, swap_jw, norb=None, spelling="library", conserve_qn=True, need_eri=True):
    from renormalizer.model import h_qc
    rng = ctx.rng
    if norb is None:
        norb = pick_norb(ctx, allow4=False)
    ek = None
    if need_eri:
        ek = ["lowrank", "sym8", "density-density", "hubbard", "sparse-lowrank", "zero-block"][int(rng.integers(0, 6))]
    h, eri, desc = gen_integrals(rng, norb, h_kind=["dense", "sparse", "dense"][int(rng.integers(0, 3))], eri_kind=ek)
    sh, aseri = ctx.lib(h_qc.int_to_h, h, eri, what="int_to_h")
    jw_data = ("spatial", h, eri)
    ref0 = None
    if rng.random() < 0.3:
        # complex Hermitian one-electron part (Peierls phases on the hoppings): complex coefficients in the operator
        nso = len(sh)
        phi = rng.uniform(0, 2 * np.pi, size=(nso, nso))
        phi = np.triu(phi, 1)
        sh = sh.astype(complex) * np.exp(1j * (phi - phi.T))
        jw_data = ("so", sh, aseri)
        ref0 = fermi_ref_so(sh, aseri)
        ctx.cls("qc:complex-hopping")
    basis, terms = ctx.lib(h_qc.qc_model, sh, aseri, conserve_qn=conserve_qn, what="qc_model")
    if spelling == "sigma":
        terms = [rename_sigma(t) for t in terms]
    if ref0 is None:
        ref0 = fermi_ref_spatial(h, eri)
    desc.update({"h": h, "eri": eri, "spelling": spelling, "conserve_qn": conserve_qn, "complex_hopping": jw_data[0] == "so"})
    ctx.cls(f"norb:{norb}", "eri:" + desc["eri_kind"], f"conserve_qn:{conserve_qn}", "spelling:" + spelling)
    prob = Problem("qc", basis, terms, swap_jw, ref0, jw_data, desc)
    prob.key = int_key(h, eri)
    return prob


def make_spin_problem(ctx, nsite=None):
    rng = ctx.rng
    if nsite is None:
        nsite = int(rng.integers(3, 7))
    with_qn = bool(rng.random() < 0.6)
    basis, terms = gen_spin(rng, nsite, with_qn)
    ref0 = dense.op_dense(basis, terms)
    ctx.cls(f"spin-qn:{with_qn}")
    prob = Problem("spin", basis, terms, False, ref0, None, {"nsite": nsite, "with_qn": with_qn})
    prob.key = {"terms": [[t.symbol, [str(d) for d in t.dofs], round(float(t.factor), 10)] for t in terms]}
    return prob


def make_vibronic_problem(ctx, max_dim=None):
    rng = ctx.rng
    if max_dim is None:
        max_dim = 1024 if ctx.tier == "quick" else 2048
    basis, terms = gen_vibronic(rng, max_dim)
    ref0 = dense.op_dense(basis, terms)
    prob = Problem("vibronic", basis, terms, False, ref0, None, {"basis": basis_desc(basis)})
    prob.key = {"basis": basis_desc(basis),
                "terms": [[t.symbol, [str(d) for d in t.dofs], round(float(t.factor), 10)] for t in terms]}
    return prob


def sector_choices(basis):
    q = dense.basis_qn(basis)
    uniq, counts = np.unique(q, axis=0, return_counts=True)
    return uniq, counts


def pick_sector(rng, basis, min_dim=2):
    uniq, counts = sector_choices(basis)
    ok = [i for i in range(len(uniq)) if counts[i] >= min_dim]
    if not ok:
        ok = list(range(len(uniq)))
    w = counts[ok].astype(float) ** 0.5
    i = ok[int(rng.choice(len(ok), p=w / w.sum()))]
    return uniq[i].astype(int), int(counts[i])


# -------------------------------------------------------------------------------------------- family B: swaps
def case_swaps(ctx):
    from renormalizer.model import Model
    from renormalizer.mps import Mpo
    rng = ctx.rng
    r = rng.random()
    if r < 0.3:
        prob = make_qc_problem(ctx, True, norb=pick_norb(ctx), conserve_qn=bool(rng.random() < 0.75))
    elif r < 0.5:
        prob = make_qc_problem(ctx, True, norb=pick_norb(ctx), spelling="sigma",
                               conserve_qn=bool(rng.random() < 0.75))
    elif r < 0.7:
        prob = make_qc_problem(ctx, False, norb=pick_norb(ctx), conserve_qn=bool(rng.random() < 0.75))
    elif r < 0.85:
        prob = make_spin_problem(ctx)
    else:
        prob = make_vibronic_problem(ctx)
    n = len(prob.basis)
    nsw = int(rng.integers(1, 9))
    algo = ["Hopcroft-Karp", "Hungarian", "qr", "qr"][int(rng.integers(0, 4))]
    build_algo = "qr" if rng.random() < 0.3 else "Hopcroft-Karp"
    walk = [int(rng.integers(0, n - 1)) for _ in range(nsw)]
    ctx.describe({"family": "swaps", "model": prob.kind, "swap_jw": prob.swap_jw, "desc": prob.desc, "walk": walk,
                  "algo": algo})
    ctx.cls("model:" + prob.kind, f"swap_jw:{prob.swap_jw}", "swap-algo:" + algo, "build-algo:" + build_algo)
    sig = ("swap_jw" if prob.swap_jw else "plain-swap") + "|" + prob.tag
    mpo = ctx.lib(Mpo, Model(list(prob.basis), list(prob.terms)), algo=build_algo, what="Mpo")
    ctx.count("oracle")
    if not ctx.close(mpo.todense(), prob.ref0, TOL, f"{sig}|operator-differs-before-any-swap", scale=prob.scale):
        return
    order = list(range(n))
    cur = list(prob.basis)
    changed = False
    for k, i in enumerate(walk):
        order[i], order[i + 1] = order[i + 1], order[i]
        cur[i], cur[i + 1] = cur[i + 1], cur[i]
        new_model = Model(list(cur), list(prob.terms))
        guarded(ctx, mpo.try_swap_site, new_model, prob.swap_jw, algo=algo, what=f"try_swap_site|{sig}")
        ctx.count("walk_swaps")
        want = prob.ref(order)
        if prob.swap_jw:
            jw_selfcheck(ctx, prob, order)
        if np.linalg.norm(want - prob.ref0) > 1e-6 * prob.scale:
            changed = True
        got = np.asarray(mpo.todense())
        ctx.count("oracle")
        extra = {}
        if prob.swap_jw and got.shape == want.shape:
            plain = dense.permute_sites_op(prob.ref0, prob.dims, list(order))
            extra["equals_plain_site_permutation_instead"] = bool(np.linalg.norm(got - plain) <= TOL * prob.scale)
        what = "operator-differs-from-rebuilt-jw" if prob.swap_jw else "operator-differs-from-site-permutation"
        if not ctx.close(got, want, TOL * (k + 2), f"{sig}|{what}", scale=prob.scale, step=k, order=list(order),
                         **extra):
            break
        ctx.check(mpo.model is new_model, f"{sig}|mpo-model-not-updated")
        ctx.check(len(mpo.qn[i + 1]) == mpo.bond_dims[i + 1], f"{sig}|bond-label-length", step=k)
        problems = states.check_labels(mpo)
        ctx.count("oracle")
        if not ctx.check(not problems, f"{sig}|bond-labels-inconsistent-after-swap", problems=problems[:3], step=k):
            break
    if n >= 3 and changed:
        ctx.nontrivial({"family": "swaps", "key": prob.key, "walk": walk, "jw": prob.swap_jw})


# ------------------------------------------------------------------------------------ family C: OFS in DMRG
OFS_NAMES = ["ofs_s", "ofs_d", "ofs_d", "ofs_ds", "ofs_ds", "ofs_debug"]           # optimisation
OFS_NAMES_EVOLVE = ["ofs_s", "ofs_s", "ofs_ds", "ofs_ds", "ofs_d", "ofs_debug"]   # ofs_d never swaps without truncation


def make_ofs_problem(ctx, evolve=False):
    rng = ctx.rng
    r = rng.random()
    if r < 0.35:
        # Jordan-Wigner swaps with and without quantum numbers (the sign of the doubly occupied block must not depend on labels)
        cq = bool(rng.random() < 0.65)
        if not cq:
            ctx.cls("swap_jw:without-quantum-numbers")
        prob = make_qc_problem(ctx, True, norb=int(rng.choice([1, 2, 2, 3, 3] if not evolve else [1, 2, 2, 2, 3])),
                               spelling="library" if rng.random() < 0.55 else "sigma", conserve_qn=cq)
    elif r < 0.5:
        prob = make_qc_problem(ctx, False, norb=int(rng.choice([2, 2, 3])),
                               conserve_qn=bool(rng.random() < 0.8))
    elif r < 0.75:
        prob = make_spin_problem(ctx, nsite=int(rng.integers(3, 7)) if not evolve else int(rng.integers(3, 6)))
    else:
        prob = make_vibronic_problem(ctx, max_dim=512)
    return prob


def random_start(ctx, model, qntot, M, seed=None):
    """Mps.random with a bond limit that keeps every block (no amplitude of the sector is missing at the start)."""
    from renormalizer.mps import Mps
    if seed is None:
        seed = int(ctx.rng.integers(0, 2 ** 31 - 1))
    np.random.seed(seed)
    with np.errstate(all="ignore"):
        mps = ctx.lib(Mps.random, model, np.asarray(qntot), M, 1.0, promised=False, what="Mps.random")
    if not all(np.all(np.isfinite(mt.array)) for mt in mps):
        ctx.refuse("Mps.random: no amplitude in the requested sector")
        from rv.case import CaseAbort
        raise CaseAbort()
    return mps


def ofs_config(M, ofs, jw):
    from renormalizer.utils.configs import CompressConfig, CompressCriteria
    return CompressConfig(CompressCriteria.fixed, max_bonddim=M, ofs=ofs, ofs_swap_jw=jw)


def full_bond(prob):
    """A bond limit under which Mps.random and the two-site updates never discard anything."""
    d = np.array(prob.dims, dtype=float)
    left = np.cumprod(d)[:-1]
    return int(min(max(left.max(), 2), 4096))


def case_ofs_opt(ctx):
    from renormalizer.model import Model
    from renormalizer.mps import Mpo
    from renormalizer.mps.gs import optimize_mps
    from renormalizer.utils.configs import OFS
    rng = ctx.rng
    prob = make_ofs_problem(ctx)
    n = len(prob.basis)
    ofs_name = OFS_NAMES[int(rng.integers(0, len(OFS_NAMES)))]
    ofs = getattr(OFS, ofs_name)
    qntot, secdim = pick_sector(rng, prob.basis)
    M = full_bond(prob)
    cap = int(max(states.exact_bond_caps(prob.dims)))
    # schedule: optionally 1-2 truncating sweeps (this is where the discarded-weight criteria can decide to swap),
    # always with percent > 0 so that the convergence test cannot stop there; then one sweep at full bond dimension
    # with percent > 0 and at least four with percent 0
    schedule = []
    if cap > 2 and rng.random() < (0.9 if ofs_name == "ofs_d" else 0.5):
        for _ in range(int(rng.integers(1, 3))):
            schedule.append([int(rng.integers(2, cap)), float(rng.choice([0.2, 0.4]))])
        ctx.cls("schedule:truncating-sweeps-first")
    schedule += [[M, float(rng.choice([0.2, 0.4]))]] + [[M, 0]] * int(rng.integers(4, 7))
    algo = ["davidson", "direct"][int(rng.integers(0, 2))]
    seed_start = int(rng.integers(0, 2 ** 31 - 1))
    seed_run = int(rng.integers(0, 2 ** 31 - 1))
    ctx.describe({"family": "ofs-opt", "model": prob.kind, "desc": prob.desc, "swap_jw": prob.swap_jw, "ofs": ofs_name,
                  "qntot": qntot, "sector_dim": secdim, "M": M, "schedule": schedule, "algo": algo})
    ctx.cls("model:" + prob.kind, f"swap_jw:{prob.swap_jw}", "ofs:" + ofs_name, "solver:" + algo)
    sig = f"ofs-opt|{'swap_jw' if prob.swap_jw else 'plain-swap'}|{prob.tag}"

    mask0 = dense.sector_mask(prob.basis, qntot)
    w = np.linalg.eigvalsh(prob.ref0[np.ix_(mask0, mask0)])
    e0 = float(w[0])
    escale = max(1.0, abs(e0))

    def run(with_ofs):
        model = Model(list(prob.basis), list(prob.terms))
        mpo = ctx.lib(Mpo, model, what="Mpo")
        mps = random_start(ctx, model, qntot, M, seed_start)
        if mpo.is_complex and not mps.is_complex:
            mps.to_complex(inplace=True)        # a real Mps cannot hold the tensors of a complex problem (Matrix asserts)
        o, jw = (ofs, prob.swap_jw) if with_ofs else (None, False)
        mps.optimize_config.procedure = [[ofs_config(m, o, jw), p] for m, p in schedule]
        mps.optimize_config.method = "2site"
        mps.optimize_config.algo = algo
        mps.compress_config = ofs_config(M, o, jw)
        np.random.seed(seed_run)
        del SWAPLOG[:]
        del SWEEPLOG[:]
        energies, res = guarded(ctx, optimize_mps, mps, mpo,
                                what=sig + ("|optimize_mps" if with_ofs else "|optimize_mps-ofs-off"))
        return np.asarray(energies, dtype=float), res, mps, mpo, len(SWAPLOG), int(sum(SWAPLOG))

    energies, res, mps, mpo, ncalls, nsw = run(True)
    sweeps = list(SWEEPLOG)
    ctx.count("try_swap_site_calls", ncalls)
    ctx.count("swaps_opt", nsw)
    ctx.metric_max("swaps_in_one_optimisation", nsw)
    ctx.check(ncalls > 0, f"{sig}|try_swap_site-never-called-with-ofs-configured")
    if ofs_name == "ofs_debug":
        ctx.check(nsw == 0, f"{sig}|ofs_debug-performed-a-swap", swaps=nsw)
    if nsw > 0:
        ctx.count("ofs_runs_with_swap")
        ctx.count("ofs_runs_with_swap:" + ofs_name)
        ctx.cls("swapped-in-optimisation", f"swapped:{prob.tag}:jw={prob.swap_jw}")
        ctx.nontrivial({"family": "ofs-opt", "key": prob.key, "jw": prob.swap_jw, "ofs": ofs_name, "qntot": qntot,
                        "M": M, "schedule": schedule, "algo": algo})

    # -- energies ------------------------------------------------------------------------------------------
    ctx.count("oracle")
    ctx.check(np.all(energies >= e0 - 1e-9 * escale), f"{sig}|sweep-energy-below-exact-ground-energy",
              energies=energies, exact=e0)
    # Equality with the exact ground energy is a statement about the optimiser, not about the swaps: sweeps that
    # truncate to a few states can lose whole quantum-number blocks for good, and whether that happens depends on the
    # path.  It is therefore demanded only for schedules that never truncate (complete start, nothing discarded), and
    # even there the same run with OFS off is consulted first.  What OFS must guarantee under every schedule - the
    # variational bound above, the operator in its new order and the consistency of the returned state with the
    # energy attributed to it - is checked below regardless.
    truncating = any(m < M for m, _ in schedule)
    if abs(energies.min() - e0) > 1e-6 * escale:
        e_off, _, _, _, calls_off, _ = run(False)
        ctx.check(calls_off == 0, f"{sig}|try_swap_site-called-with-ofs-off")
        if abs(e_off.min() - e0) > 1e-6 * escale:
            ctx.cls("optimiser-stuck-with-and-without-ofs:" + ("truncating" if truncating else "full") + "-schedule")
            ctx.count("optimiser_stuck_with_and_without_ofs")
        elif truncating:
            ctx.cls("optimiser-stuck-with-ofs-only:truncating-schedule")
            ctx.count("optimiser_stuck_with_ofs_only_after_truncating_sweeps")
        else:
            ctx.count("oracle")
            ctx.close(energies.min(), e0, 1e-6, f"{sig}|lowest-energy-differs-from-exact|reached-with-ofs-off",
                      scale=escale, swaps=nsw)
    else:
        ctx.count("oracle")
        ctx.count("ground_energy_reached")

    # -- the Hamiltonian MPO that was passed, re-ordered in place ----------------------------------------------
    order_mpo = prob.order_of(mpo.model.basis)
    order_in = prob.order_of(mps.model.basis)
    ctx.check(order_mpo == order_in, f"{sig}|mpo-order-differs-from-the-order-of-the-swept-state",
              mpo=order_mpo, mps=order_in)
    ctx.check(sorted(order_mpo) == list(range(n)), f"{sig}|final-order-is-not-a-permutation", order=order_mpo)
    if prob.swap_jw:
        jw_selfcheck(ctx, prob, order_mpo)
    want = prob.ref(order_mpo)
    got = np.asarray(mpo.todense())
    extra = {}
    if prob.swap_jw and nsw:
        plain = dense.permute_sites_op(prob.ref0, prob.dims, order_mpo)
        extra["equals_plain_site_permutation_instead"] = bool(np.linalg.norm(got - plain) <= TOL * prob.scale)
    ctx.count("oracle")
    ctx.close(got, want, TOL * (nsw + 2), f"{sig}|hamiltonian-mpo-is-not-the-operator-in-its-new-order",
              scale=prob.scale, order=order_mpo, swaps=nsw, **extra)

    # -- the returned state, in its own final order ---------------------------------------------------------
    order = prob.order_of(res.model.basis)
    ctx.check(sorted(order) == list(range(n)), f"{sig}|state-order-is-not-a-permutation", order=order)
    if prob.swap_jw:
        jw_selfcheck(ctx, prob, order)
    Hn = prob.ref(order)
    psi = np.asarray(states.dense_of(res)).reshape(-1)
    nrm = float(np.linalg.norm(psi))
    ctx.count("oracle")
    if not ctx.close(nrm, 1.0, 1e-8, f"{sig}|returned-state-not-normalised", scale=1.0):
        return
    mask = prob.mask(qntot, order)
    ctx.count("oracle")
    ctx.check(float(np.linalg.norm(psi[~mask])) <= 1e-8, f"{sig}|returned-state-leaks-out-of-the-sector",
              leak=float(np.linalg.norm(psi[~mask])))
    ray = float(np.real(np.vdot(psi, Hn @ psi)) / nrm ** 2)
    # The returned state is the one made at the step `last_opt_e_idx` of the last sweep; the local eigenvalue of that
    # step is the energy the optimiser itself attributes to it (no truncation: the last sweeps run at full bond
    # dimension).  Its Rayleigh quotient with the reference Hamiltonian *in the state's own order* must be that
    # number whether or not the sweeps have converged.
    claim = None
    if sweeps and sweeps[-1] is not None and sweeps[-1]["last"] is not None and sweeps[-1]["M"] >= M:
        hits = [e for e, c in sweeps[-1]["micro"] if c == list(sweeps[-1]["last"])]
        if len(hits) == 1:
            claim = hits[0]
    if claim is None:
        ctx.note_inconclusive("could not identify the sweep step the returned state was taken from")
        return
    ctx.count("sweep_monitor")
    ctx.count("oracle")
    ctx.close(ray, claim, 1e-7, f"{sig}|energy-of-returned-state-in-its-own-order-differs-from-the-optimisers-value",
              scale=escale, order=order, swaps=nsw)
    if abs(claim - e0) <= 1e-6 * escale:
        # the optimiser says this is the ground state: overlap with the exact ground space in that order
        idx = np.where(mask)[0]
        ws, vs = np.linalg.eigh(Hn[np.ix_(idx, idx)])
        inside = ws <= ws[0] + 1e-6 * escale
        gap = float(ws[~inside][0] - ws[0]) if np.any(~inside) else np.inf
        proj = vs[:, inside].conj().T @ psi[idx]
        w_out = max(0.0, 1.0 - float(np.vdot(proj, proj).real) / nrm ** 2)
        ctx.cls("ground-space-degenerate" if int(inside.sum()) > 1 else "ground-state-unique")
        bound = max(1e-6, 4e-6 * escale / gap) if np.isfinite(gap) else 1e-6
        ctx.metric_max("weight_outside_ground_space", w_out)
        ctx.count("oracle")
        ctx.count("ground_state_overlaps")
        ctx.check(w_out <= bound, f"{sig}|returned-state-overlap-with-exact-ground-space-too-small",
                  weight_outside=w_out, bound=bound, gap=gap, order=order, swaps=nsw)
    else:
        ctx.cls("returned-state-taken-from-an-unconverged-step")

    # -- informative: the configuration pattern of the repository's own tests (integer procedure entries) -------
    if rng.random() < 0.15 and prob.kind != "qc":
        model2 = Model(list(prob.basis), list(prob.terms))
        mpo2 = Mpo(model2)
        mps2 = random_start(ctx, model2, qntot, M, seed_start)
        mps2.optimize_config.procedure = [[m, p] for m, p in schedule]
        mps2.optimize_config.method = "2site"
        mps2.compress_config = ofs_config(M, ofs, False)
        del SWAPLOG[:]
        e2, _ = ctx.lib(optimize_mps, mps2, mpo2, promised=False, what="optimize_mps|int-procedure")
        ctx.count("int_procedure_runs")
        ctx.count("int_procedure_swap_calls", len(SWAPLOG))


# -------------------------------------------------------------------------------- family D: OFS in TDVP-PS2
def case_ofs_evolve(ctx):
    from renormalizer.model import Model
    from renormalizer.mps import Mpo
    from renormalizer.utils.configs import OFS, EvolveConfig, EvolveMethod
    rng = ctx.rng
    prob = make_ofs_problem(ctx, evolve=True)
    n = len(prob.basis)
    ofs_name = OFS_NAMES_EVOLVE[int(rng.integers(0, len(OFS_NAMES_EVOLVE)))]
    ofs = getattr(OFS, ofs_name)
    qntot, secdim = pick_sector(rng, prob.basis)
    M = full_bond(prob)
    mask0 = dense.sector_mask(prob.basis, qntot)
    hs = prob.ref0[np.ix_(mask0, mask0)]
    hnorm = max(float(np.linalg.norm(hs, 2)), 1e-3)
    dt = float(rng.uniform(0.05, 0.4)) / hnorm
    nsteps = int(rng.integers(2, 5))
    solver = ["krylov", "krylov", "RK45"][int(rng.integers(0, 3))]
    ctx.describe({"family": "ofs-evolve", "model": prob.kind, "desc": prob.desc, "swap_jw": prob.swap_jw,
                  "ofs": ofs_name, "qntot": qntot, "sector_dim": secdim, "M": M, "dt": dt, "nsteps": nsteps,
                  "solver": solver})
    ctx.cls("model:" + prob.kind, f"swap_jw:{prob.swap_jw}", "ofs:" + ofs_name, "ivp:" + solver)
    sig = f"ofs-evolve|{'swap_jw' if prob.swap_jw else 'plain-swap'}|{prob.tag}"

    def evolve_config():
        return EvolveConfig(EvolveMethod.tdvp_ps2, ivp_solver=solver, ivp_rtol=1e-8, ivp_atol=1e-10)

    model = Model(list(prob.basis), list(prob.terms))
    start = random_start(ctx, model, qntot, M)
    if rng.random() < 0.5:
        states.complexify(rng, start)
        ctx.cls("state:complex-amplitudes")
    psi0 = np.asarray(states.dense_of(start)).reshape(-1).astype(complex)
    n0 = float(np.linalg.norm(psi0))
    exact = dense.propagate(prob.ref0, psi0, dt * nsteps)

    def run(with_ofs):
        m = Model(list(prob.basis), list(prob.terms))
        mpo = ctx.lib(Mpo, m, what="Mpo")
        mps = start.copy()
        mps.model = m
        mps.evolve_config = evolve_config()
        mps.compress_config = ofs_config(M, ofs if with_ofs else None, prob.swap_jw if with_ofs else False)
        del SWAPLOG[:]
        for _ in range(nsteps):
            mps = guarded(ctx, mps.evolve, mpo, dt, normalize=False,
                          what=sig + ("|evolve" if with_ofs else "|evolve-ofs-off"))
        return mps, mpo, len(SWAPLOG), int(sum(SWAPLOG))

    off, mpo_off, calls_off, _ = run(False)
    ctx.check(calls_off == 0, f"{sig}|try_swap_site-called-with-ofs-off")
    err_off = float(np.linalg.norm(np.asarray(states.dense_of(off)).reshape(-1) - exact)) / n0
    ctx.metric_max("evolve_err_ofs_off", err_off)
    if err_off > 1e-5:
        ctx.note_inconclusive(f"TDVP-PS2 without OFS is {err_off:.1e} away from the exact propagation")
        return
    on, mpo, ncalls, nsw = run(True)
    ctx.count("try_swap_site_calls", ncalls)
    ctx.count("swaps_evolve", nsw)
    ctx.check(ncalls > 0, f"{sig}|try_swap_site-never-called-with-ofs-configured")
    if ofs_name == "ofs_debug":
        ctx.check(nsw == 0, f"{sig}|ofs_debug-performed-a-swap", swaps=nsw)
    if nsw > 0:
        ctx.count("ofs_runs_with_swap")
        ctx.cls("swapped-in-evolution", f"swapped:{prob.tag}:jw={prob.swap_jw}")
        ctx.nontrivial({"family": "ofs-evolve", "key": prob.key, "jw": prob.swap_jw, "ofs": ofs_name, "qntot": qntot,
                        "M": M, "dt": dt, "nsteps": nsteps, "solver": solver})
    order = prob.order_of(on.model.basis)
    ctx.check(sorted(order) == list(range(n)), f"{sig}|state-order-is-not-a-permutation", order=order)
    order_mpo = prob.order_of(mpo.model.basis)
    ctx.check(order_mpo == order, f"{sig}|mpo-order-differs-from-state-order", mpo=order_mpo, mps=order)
    if prob.swap_jw:
        jw_selfcheck(ctx, prob, order)
        if order_mpo != order:
            jw_selfcheck(ctx, prob, order_mpo)
    got_op = np.asarray(mpo.todense())
    extra = {}
    if prob.swap_jw and nsw:
        plain = dense.permute_sites_op(prob.ref0, prob.dims, order_mpo)
        extra["equals_plain_site_permutation_instead"] = bool(np.linalg.norm(got_op - plain) <= TOL * prob.scale)
    ctx.count("oracle")
    ctx.close(got_op, prob.ref(order_mpo), TOL * (nsw + 2),
              f"{sig}|hamiltonian-mpo-is-not-the-operator-in-its-new-order", scale=prob.scale, order=order_mpo,
              swaps=nsw, **extra)
    psi = np.asarray(states.dense_of(on)).reshape(-1)
    want = prob.vec(exact, order)
    err_on = float(np.linalg.norm(psi - want)) / n0
    ctx.metric_max("evolve_err_ofs_on", err_on)
    tol = max(2e-6, 10 * err_off)
    ctx.count("oracle")
    ctx.check(err_on <= tol, f"{sig}|evolved-state-differs-from-exact-propagation-in-the-new-order", err=err_on,
              err_without_ofs=err_off, tol=tol, order=order, swaps=nsw)
    mask = prob.mask(qntot, order)
    ctx.count("oracle")
    ctx.check(float(np.linalg.norm(psi[~mask])) <= 1e-8 * n0, f"{sig}|evolved-state-leaks-out-of-the-sector",
              leak=float(np.linalg.norm(psi[~mask])) / n0)
