"""C14 - saved states reload identically; result dumps survive a crash (fault enumeration)."""
import atexit
import gc
import os
import shutil
import signal
import subprocess
import tempfile
import time

import numpy as np

from rv import c14_crash as cc
from rv import env

ID = "C14"
LEVEL = "fault_enumeration"
RULE = ("Crash cases: one case = one child process running the real TdMpsJob.evolve/dump_dict (S=3 steps, a dump "
        "dictionary that identifies generation and step) killed at ONE crash point. Crash points are enumerated from "
        "recording runs: (strace) the entry of the n-th file-system syscall touching the dump directory, for every "
        "syscall name and every n (quick: state-changing syscalls, which delimit every distinct instant; thorough: also "
        "stat/lseek/ioctl), injected with `strace -e inject=<syscall>:signal=KILL:when=n -P <paths>`; (python) every "
        "open/write/flush/close/rename/remove/mkdir event under the dump directory seen by a proxy installed in the "
        "child, dying by os._exit before the operation, after flushing, or after HALF of the buffer of a write has "
        "reached the kernel. Restart histories: the distinct directory states left by the crashes of generation g are "
        "observed, one representative directory per state is kept, and a generation g+1 job is started in each and "
        "crashed at every point of its first dump (thorough: first two dumps, three generations, plus SIGKILL at random "
        "instants whose verdict is again the directory state). One more history: np.savez fails with ENOSPC inside dump "
        "2 (evolve swallows the IOError) and the job is crashed at every point of dump 3. Oracle after every death: "
        "one of <job>.npz / <job>.npz.bak is read completely by np.load and equals the dump dictionary of the step in "
        "progress or of the most recent dump that had completed (restarted job: the newest complete file found at "
        "start). NON-TRIVIAL: crash point strictly inside a dump_dict call that leaves >= 1 file; distinct by (start "
        "state, syscall/operation, n). Round-trip cases: generated Mps / MpDm / Mpo / TTNS (real, complex, any gauge, "
        "0-2 quantum numbers) dump -> load compared bitwise (tensors, dtype, coeff, every qn array, qnidx, qntot, "
        "to_right) and the same continuation (canonicalise, compress, expectation, one evolution step) run on both. "
        "Spill cases: the same histories with dump_matrix_size=1 against the in-memory run; every tensor stored as a "
        "path; dump directory empty after collection.")
ASSUMPTIONS = [
    "crash = the process dies (SIGKILL at a syscall entry, os._exit): unflushed Python buffers are lost, kernel buffers are not; power loss / lost page cache is out of scope",
    "only format versions the library can write (chain '0.4', tree '0.1'); Mpo is dumped/loaded through MatrixProduct.dump/load with zero offset (the offset is not part of the format)",
    "the periodic RESULT file (<job>.npz, <job>.npz.bak) is judged; the optional state dump of TdMpsJob(dump_mps=...) is written in place by design and not part of the property",
    "before the first dump of a job started in a directory without any complete file nothing is demanded (there is no previous step)",
    "the child imports the repository's renormalizer/utils/tdmps.py unmodified but skips renormalizer/__init__.py (import cost); REPO_ROOT is honoured",
    "dump -> load is compared bitwise; continuations (canonicalise, compress, todense, add, expectation, one evolution step; np.random reseeded identically for both runs) must give the same represented object within 1e-10 relative, the same bond dimensions, labels, centre, direction and charge - bitwise agreement is counted, not demanded, because reloaded arrays can have another memory layout (one-ulp BLAS differences were observed); spill-to-disk results: 1e-12 relative",
    "strace path filter (-P) verified against the harness's own descriptor tracking in every recording; if strace/ptrace is unavailable the Python-level injector is the only enumerator and the evidence says so",
]

N_RT = {"quick": 72, "thorough": 900}
N_SPILL = {"quick": 24, "thorough": 240}
N_STRESS = {"quick": 0, "thorough": 20}
STRESS_BATCH = 10

_CAT = None
_RUNDIR = None
_OWN_RUNDIR = False


# ==================================================================================================== plan
def _get_catalogue(tier, build=True):
    global _CAT, _RUNDIR, _OWN_RUNDIR
    if _CAT is not None and _CAT["tier"] == tier:
        return _CAT
    rd = os.environ.get(cc.RUNDIR_ENV)
    if rd and os.path.exists(os.path.join(rd, "catalogue.json")):
        cat = cc.load_catalogue(rd)
        if cat["tier"] == tier and cat.get("repo") == env.REPO_ROOT:
            _CAT, _RUNDIR = cat, rd
            return cat
    if not build:
        return None
    rd = tempfile.mkdtemp(prefix="rv_c14_run_")
    _RUNDIR, _OWN_RUNDIR = rd, True
    atexit.register(shutil.rmtree, rd, True)
    _CAT = cc.build_catalogue(tier, rd, nproc=int(os.environ.get("VERIF_NPROC", "16")))
    os.environ[cc.RUNDIR_ENV] = rd
    return _CAT


def plan(tier):
    cat = _get_catalogue(tier)
    ntasks = len(cat["tasks"])
    req = ["roundtrip:Mps", "roundtrip:MpDm", "roundtrip:Mpo", "roundtrip:TTNS", "complex", "qn-one", "qn-two",
           "spill", "enum:python", "gen:2", "history:ioerror-swallowed", "pos:inside-dump", "control", "long-chain", "spill:accessor-walk",
           "thermal-job", "thermal-job:dump_mps=one", "thermal-job:dump_mps=all", "tree:labels-of-both-signs"]
    if cat["strace_available"] and "strace" in cat["enumerators"]:
        req.append("enum:strace")
    # a further generation exists only if the previous one left a directory state not seen before (restart closure)
    req += [f"gen:{g}" for g in sorted({t["gen"] for t in cat["tasks"]}) if g > 2]
    if tier == "thorough":
        req += ["stress"]
    return {"ncases": N_RT[tier] + N_SPILL[tier] + ntasks + N_STRESS[tier],
            "min_nontrivial": 150 if tier == "quick" else 1500,
            "required_classes": req,
            "required_counters": {"crash_points": 200 if tier == "quick" else 2000, "children_run": 200,
                                  "oracle": 200, "roundtrip_objects": 40, "spill_tensors_on_disk": 40,
                                  "spill_held_references_checked": 200},
            "case_time_limit": 400, "max_inconclusive_frac": 0.0,
            "chunk_timeout": 1500 if tier == "quick" else 3 * 3600}


def setup(tier):
    _get_catalogue(tier)


def teardown():
    return None


# ================================================================================================ dispatcher
def run_case(ctx):
    tier = ctx.tier
    i = ctx.idx
    if i < N_RT[tier]:
        return roundtrip_case(ctx, i)
    i -= N_RT[tier]
    if i < N_SPILL[tier]:
        return spill_case(ctx, i)
    i -= N_SPILL[tier]
    cat = _get_catalogue(tier)
    if i < len(cat["tasks"]):
        return crash_case(ctx, cat["tasks"][i])
    i -= len(cat["tasks"])
    return stress_case(ctx, i)


# =============================================================================================== crash cases
def crash_case(ctx, task):
    desc = {k: task.get(k) for k in ("kind", "enum", "gen", "start", "history", "sys", "n", "op", "dump", "crash_at",
                                      "crash_mode", "ioerror_at", "nsteps")}
    ctx.describe({"crash": desc})
    ctx.cls(f"enum:{task['enum']}", f"gen:{task['gen']}", f"history:{task['history']}")
    if task["kind"] == "control":
        ctx.cls("control")
    if task["gen"] > 1:
        ctx.cls(f"restart-from:{task['start']}")
    o = cc.execute(task, _RUNDIR)
    ctx.count("children_run")
    j = cc.judge(task, o)
    if o["stray"]:
        ctx.cls("child-left-files-in-its-working-directory")       # (inside the case's temp dir; removed with it)
    if j["verdict"] == "inconclusive":
        ctx.note_inconclusive(f"{task['enum']} gen{task['gen']} {task.get('op')}: {j['why']}")
        return
    if o["tdmps"] and not os.path.realpath(o["tdmps"]).startswith(os.path.realpath(env.REPO_ROOT) + os.sep):
        ctx.note_inconclusive(f"child imported {o['tdmps']} instead of REPO_ROOT")
        return
    ctx.count("oracle")
    if task["kind"] == "crash":
        ctx.count("crash_points")
        ctx.cls(f"dirstate:g{task['gen']}:{o['state']}", f"dirstate-by:{task['enum']}:{o['state']}")
        ctx.cls("pos:inside-dump" if j["inside"] else "pos:between-dumps")
        if j["inside"] and j["leaves"] >= 1:
            ctx.nontrivial({"start": task["start"], "history": task["history"], "enum": task["enum"],
                            "op": task.get("sys") or task.get("op"), "n": task.get("n", task.get("crash_at")),
                            "mode": task.get("crash_mode"), "ioerror_at": task.get("ioerror_at")})
        if "observed_state" in task and task["observed_state"] is not None and task["observed_state"] != o["state"]:
            ctx.note_inconclusive(f"nondeterministic crash point: phase 0 saw {task['observed_state']}, case saw {o['state']}")
    if j["verdict"] == "vacuous":
        ctx.count("vacuous_no_previous_result")
    elif j["verdict"] == "violated":
        ctx.violate(j["signature"], **j["detail"])
    else:
        ctx.count("held_with_" + ("current" if j["cur"] in j["have"].values() else "previous"))


# ------------------------------------------------------------------------------------------------- stress
def stress_case(ctx, i):
    """SIGKILL at uniformly random instants of a 40-step job; the verdict is the directory state, never the timing."""
    ctx.cls("stress", "enum:random-sigkill", "gen:1", "history:crash-only")
    ctx.describe({"stress": {"batch": i, "kills": STRESS_BATCH}})
    nsteps = 40
    task = {"kind": "stress", "enum": "random-sigkill", "gen": 1, "start": "clean", "history": "crash-only", "op": "SIGKILL"}
    # calibration: duration from ready to done of an unkilled run
    with cc.Work() as w:
        t_job = _timed_run(w, nsteps, None)[2]
    ctx.count("children_run")
    if t_job is None:
        ctx.note_inconclusive("stress calibration run failed")
        return
    for _ in range(STRESS_BATCH):
        delay = float(ctx.rng.uniform(0, 1.05 * t_job))
        with cc.Work() as w:
            out, rc, _t = _timed_run(w, nsteps, delay)
            m = cc.parse_markers(out)
            key, files = cc.classify_dir(w.out)
        ctx.count("children_run")
        o = {"timed_out": False, "ready": m["ready"], "done": m["done"], "died_as_planned": True, "rc": rc, "stderr": "",
             "last_completed": m["last_completed"], "start_prev": None, "in_dump": m["in_dump"], "files": files, "state": key}
        j = cc.judge(task, o)
        if j["verdict"] == "inconclusive":
            ctx.note_inconclusive("stress: " + j["why"])
            continue
        ctx.count("oracle")
        ctx.count("stress_kills")
        ctx.cls(f"dirstate-by:random-sigkill:{key}")
        if m["done"]:
            ctx.count("stress_kill_after_end")
        elif j["inside"]:
            ctx.count("stress_kill_inside_dump")
            ctx.cls("pos:inside-dump")
        if j["verdict"] == "violated":
            ctx.violate(j["signature"], **j["detail"])


def _timed_run(w, nsteps, delay):
    """Start the child, wait for the ready marker, optionally SIGKILL after `delay` seconds.  -> (stdout, rc, t_job)"""
    cfg = cc.child_cfg(w.out, 1, nsteps)
    p = subprocess.Popen(cc.py_cmd(cfg), cwd=w.tmp, env=cc.child_env(), stdout=subprocess.PIPE, stderr=subprocess.DEVNULL,
                         start_new_session=True)
    try:
        first = p.stdout.readline()
        t0 = time.perf_counter()
        if not first.startswith(b"R"):
            p.kill()
            p.wait()
            return first.decode(errors="replace"), p.returncode, None
        t_job = None
        if delay is not None:
            while time.perf_counter() - t0 < delay:
                pass
            try:
                os.kill(p.pid, signal.SIGKILL)
            except ProcessLookupError:
                pass
            rest = p.stdout.read()
        else:
            lines = []
            for line in p.stdout:
                lines.append(line)
                if line.startswith(b"D"):
                    t_job = time.perf_counter() - t0      # ready marker -> last dump returned (not: process exit)
            rest = b"".join(lines)
        p.wait(timeout=cc.CHILD_TIMEOUT)
        return (first + rest).decode(errors="replace"), p.returncode, t_job
    finally:
        if p.poll() is None:
            p.kill()
            p.wait()


# =========================================================================================== round-trip cases
def _same_bits(a, b):
    a, b = np.asarray(a), np.asarray(b)
    return a.dtype == b.dtype and a.shape == b.shape and a.tobytes() == b.tobytes()


def _fixed(m=10 ** 6):
    from renormalizer.utils import CompressConfig, CompressCriteria
    return CompressConfig(CompressCriteria.fixed, max_bonddim=m)


def compare_chain(ctx, kind, a, b, what):
    """a: original, b: loaded (or: the two continuations).  Bitwise.  Signatures: <what>|<kind>|<difference>."""
    ok = ctx.check(a.site_num == b.site_num, f"{what}|{kind}|site-number-differs", a=a.site_num, b=b.site_num)
    if not ok:
        return False
    for i in range(a.site_num):
        x, y = np.asarray(a[i].array), np.asarray(b[i].array)
        if x.dtype != y.dtype:
            ok &= ctx.check(False, f"{what}|{kind}|tensor-dtype-differs", site=i, a=str(x.dtype), b=str(y.dtype))
        elif not _same_bits(x, y):
            err = float(np.max(np.abs(x - y))) if x.shape == y.shape else None
            ok &= ctx.check(False, f"{what}|{kind}|tensor-differs", site=i, shapes=[list(x.shape), list(y.shape)], max_abs=err)
    ok &= ctx.check(a.dtype == b.dtype, f"{what}|{kind}|dtype-attribute-differs", a=str(a.dtype), b=str(b.dtype))
    ok &= ctx.check(len(a.qn) == len(b.qn), f"{what}|{kind}|qn-differs", why="length", a=len(a.qn), b=len(b.qn))
    if len(a.qn) == len(b.qn):
        for i, (p, q) in enumerate(zip(a.qn, b.qn)):
            p, q = np.asarray(p), np.asarray(q)
            if p.shape != q.shape or not np.array_equal(p, q):
                ok &= ctx.check(False, f"{what}|{kind}|qn-differs", bond=i, a=p, b=q)
                break
    ok &= ctx.check(int(a.qnidx) == int(b.qnidx), f"{what}|{kind}|qnidx-differs", a=a.qnidx, b=b.qnidx)
    ok &= ctx.check(np.array_equal(np.asarray(a.qntot).reshape(-1), np.asarray(b.qntot).reshape(-1)),
                    f"{what}|{kind}|qntot-differs", a=np.asarray(a.qntot), b=np.asarray(b.qntot))
    ok &= ctx.check(bool(a.to_right) == bool(b.to_right) and (a.to_right is None or isinstance(b.to_right, bool)),
                    f"{what}|{kind}|to_right-differs", a=a.to_right, b=b.to_right)
    if hasattr(a, "coeff") or hasattr(b, "coeff"):
        ca, cb = getattr(a, "coeff", None), getattr(b, "coeff", None)
        same = ca is not None and cb is not None and complex(ca) == complex(cb)
        ok &= ctx.check(same, f"{what}|{kind}|coeff-differs", a=ca, b=cb)
    return bool(ok)


CONT_TOL = 1e-10


def _labels_equal(p, q):
    """same multiset of label rows (the order inside a degenerate block may depend on rounding)"""
    p, q = np.asarray(p), np.asarray(q)
    if p.shape != q.shape:
        return False
    p2, q2 = p.reshape(len(p), -1), q.reshape(len(q), -1)
    return np.array_equal(p2[np.lexsort(p2.T[::-1])], q2[np.lexsort(q2.T[::-1])]) if p2.size else True


def similar_chain(ctx, kind, a, b, what="continuation"):
    """Two continuations of bitwise identical inputs.  Bitwise equality is counted; what is DEMANDED is the same
    represented object (1e-10 relative), bond dimensions, labels per bond (as multisets), centre, direction, charge:
    the reloaded arrays may have another memory layout than the originals, which changes BLAS rounding by an ulp."""
    from rv import states
    probe = _Quiet()
    if compare_chain(probe, kind, a, b, what):
        ctx.count("continuations_bitwise_equal")
        return True
    ctx.count("continuations_equal_only_within_tolerance")
    ok = ctx.check(a.bond_dims == b.bond_dims, f"{what}|{kind}|bond-dims-differ", a=a.bond_dims, b=b.bond_dims)
    if ok:
        da, db = states.dense_of(a), states.dense_of(b)
        ok &= ctx.close(db, da, CONT_TOL, f"{what}|{kind}|object-differs", scale=max(float(np.linalg.norm(da)), 1e-300))
        ok &= ctx.check(all(_labels_equal(p, q) for p, q in zip(a.qn, b.qn)), f"{what}|{kind}|qn-differs")
    ok &= ctx.check(int(a.qnidx) == int(b.qnidx), f"{what}|{kind}|qnidx-differs", a=a.qnidx, b=b.qnidx)
    ok &= ctx.check(np.array_equal(np.asarray(a.qntot).reshape(-1), np.asarray(b.qntot).reshape(-1)),
                    f"{what}|{kind}|qntot-differs")
    ok &= ctx.check(bool(a.to_right) == bool(b.to_right), f"{what}|{kind}|to_right-differs", a=a.to_right, b=b.to_right)
    ok &= ctx.check(a.dtype == b.dtype, f"{what}|{kind}|dtype-attribute-differs")
    return bool(ok)


class _Quiet:
    """records nothing: used to ask 'are they bitwise equal?' without producing violations"""

    def check(self, ok, signature, **detail):
        return bool(ok)


def _scalar_close(ctx, x, y, signature):
    x, y = complex(x), complex(y)
    if x == y:
        ctx.count("continuations_bitwise_equal")
        return True
    ctx.count("continuations_equal_only_within_tolerance")
    return ctx.check(abs(x - y) <= CONT_TOL * max(1.0, abs(x)), signature, a=x, b=y)


def _dense_close(ctx, x, y, signature):
    if _same_bits(x, y):
        ctx.count("continuations_bitwise_equal")
        return True
    ctx.count("continuations_equal_only_within_tolerance")
    return ctx.close(y, x, CONT_TOL, signature, scale=max(float(np.linalg.norm(x)), 1e-300))


def outcome(fn):
    try:
        return True, fn()
    except Exception as e:  # noqa: BLE001
        return False, e


def both(ctx, kind, what, fa, fb, compare):
    """Run the same continuation on the original and on the reloaded object; outcomes must agree."""
    seed = int(ctx.rng.integers(0, 2 ** 31 - 1))      # tdvp_ps2 etc. draw from the global numpy RNG
    np.random.seed(seed)
    ra = outcome(fa)
    np.random.seed(seed)
    rb = outcome(fb)
    ctx.count("continuations")
    if ra[0] and rb[0]:
        compare(ra[1], rb[1])
        return ra[1], rb[1]
    if not ra[0] and not rb[0]:
        if type(ra[1]) is type(rb[1]):
            ctx.count("continuation_refused_by_both")
            ctx.cls(f"both-refuse:{what}:{type(ra[1]).__name__}")
        else:
            ctx.violate(f"continuation|{kind}|{what}|different-exceptions", a=repr(ra[1])[:200], b=repr(rb[1])[:200])
        return None
    who = "reloaded-raises" if ra[0] else "original-raises"
    e = rb[1] if ra[0] else ra[1]
    import traceback
    ctx.violate(f"continuation|{kind}|{what}|{who}|{type(e).__name__}", message=str(e)[:200],
                traceback="".join(traceback.format_exception(type(e), e, e.__traceback__))[-1200:])
    return None


def hermitian_mpo(ctx, gm, model, allow_complex):
    from rv import dense, gen
    from renormalizer.mps import Mpo
    rng = ctx.rng
    for _ in range(20):
        terms = gen.hermitian_terms(rng, gm, int(rng.integers(1, 4)), allow_complex=allow_complex)
        if terms and np.linalg.norm(dense.op_dense(gm.basis, terms)) > 1e-8:
            try:
                return Mpo(model, terms), terms
            except Exception:  # noqa: BLE001
                continue
    return None, None


def thermal_job(ctx, tmp):
    """The packaged thermal job with its own result dictionary and state dump: what it wrote must be what it holds, and
    load_thermal_state must give back the propagated density operator."""
    from renormalizer.mps import MpDm
    from renormalizer.mps.thermalprop import ThermalProp, load_thermal_state
    from renormalizer.utils import EvolveConfig, EvolveMethod
    from rv.props import c10
    rng = ctx.rng
    ctx.cls("thermal-job")
    model, desc = c10.holstein(ctx, max_dim=64)
    nexc = int(rng.integers(0, 2))
    mode = ["one", "all"][int(rng.integers(0, 2))]
    ctx.cls("thermal-job:dump_mps=" + mode)
    init = ctx.lib(MpDm.max_entangled_ex if nexc else MpDm.max_entangled_gs, model, what="MpDm.max_entangled")
    init.compress_config = _fixed()
    nsteps = int(rng.integers(1, 4))
    tau = float(rng.uniform(0.05, 0.4))
    ctx.describe({"kind": "thermal-job", "model": desc, "nexciton": nexc, "dump_mps": mode, "nsteps": nsteps, "tau": tau})
    job = ctx.lib(ThermalProp, init, evolve_config=EvolveConfig(EvolveMethod.prop_and_compress), dump_mps=mode, dump_dir=tmp,
                  job_name="thermal", what="ThermalProp(dump)")
    ctx.lib(job.evolve, evolve_dt=-1j * tau, nsteps=nsteps, what="ThermalProp.evolve(dump)")
    res_path = os.path.join(tmp, "thermal.npz")
    if not ctx.check(os.path.exists(res_path), "thermal-job|result-file-missing", files=sorted(os.listdir(tmp))):
        return
    with np.load(res_path, allow_pickle=True) as z:
        d = {k: z[k] for k in z.files}
    ctx.count("oracle", 5)
    ctx.check(np.allclose(d.get("time series", []), [k * tau for k in range(nsteps + 1)], rtol=1e-12, atol=1e-15),
              "thermal-job|result-file|time-series-differs", got=d.get("time series"))
    ctx.check(_same_bits(np.asarray(d.get("energies"), dtype=float), np.asarray(job.energies, dtype=float)),
              "thermal-job|result-file|energies-differ-from-the-job")
    ctx.check(_same_bits(np.asarray(d.get("electron occupations array"), dtype=float), np.asarray(job.e_occupations_array, dtype=float)),
              "thermal-job|result-file|electron-occupations-differ-from-the-job")
    ctx.check(_same_bits(np.asarray(d.get("phonon occupations array"), dtype=float), np.asarray(job.ph_occupations_array, dtype=float)),
              "thermal-job|result-file|phonon-occupations-differ-from-the-job")
    ctx.check(not [f for f in os.listdir(tmp) if f.endswith(".tmp") or f.endswith(".bak")], "thermal-job|leftover-temporary-files",
              files=sorted(os.listdir(tmp)))
    if mode == "one":
        paths = [os.path.join(tmp, "thermal_mps.npz")]
    else:
        paths = [os.path.join(tmp, f"thermal_mps_{k}.npz") for k in range(1, nsteps + 1)]
    for pth in paths:
        ctx.count("oracle")
        ctx.check(os.path.exists(pth), "thermal-job|state-file-missing", want=os.path.basename(pth), files=sorted(os.listdir(tmp)))
    if os.path.exists(paths[-1]):
        back = ctx.lib(load_thermal_state, model, paths[-1], what="load_thermal_state")
        ctx.count("roundtrip_objects")
        if ctx.check(back is not None, "thermal-job|load_thermal_state|returns-None-for-an-existing-file"):
            compare_chain(ctx, "MpDm", job.latest_mps, back, "thermal-job|load_thermal_state")
            ctx.nontrivial(("thermal-job", desc, nexc, mode, nsteps))
    ctx.count("oracle")
    none = ctx.lib(load_thermal_state, model, os.path.join(tmp, "no_such_state.npz"), what="load_thermal_state(missing)")
    ctx.check(none is None, "thermal-job|load_thermal_state|missing-file-does-not-give-None", got=repr(none)[:80])


def roundtrip_case(ctx, i):
    kind = ["Mps", "MpDm", "Mpo", "TTNS"][i % 4]
    ctx.cls(f"roundtrip:{kind}")
    tmp = tempfile.mkdtemp(prefix="rv_c14_")
    try:
        if kind == "MpDm" and i % 12 == 1:
            thermal_job(ctx, tmp)
        elif kind == "TTNS":
            roundtrip_tree(ctx, tmp)
        else:
            roundtrip_chain(ctx, kind, tmp)
    finally:
        gc.collect()
        shutil.rmtree(tmp, ignore_errors=True)


def roundtrip_chain(ctx, kind, tmp):
    from rv import gen, states
    from rv.case import CaseAbort
    from renormalizer.mps import Mps, Mpo, MpDm
    from renormalizer.utils import EvolveConfig, EvolveMethod
    rng = ctx.rng
    small = kind != "Mps"
    if kind == "Mps" and rng.random() < 0.2:
        # long chain of two-state sites: more than ten sites / bonds (multi-digit keys in the file)
        gm = gen.random_basis_list(rng, nsite=(10, 12), max_dim=4096, min_dim=2, kinds=["spin", "elec"],
                                   qn_mode=str(rng.choice(["one", "two"])))
        ctx.cls("long-chain")
    else:
        gm = gen.random_basis_list(rng, nsite=(1, 4) if small else (1, 6), max_dim=24 if small else 400, min_dim=2)
    model = states.model_of(gm)
    qntot = states.pick_sector(rng, gm)
    desc = {"kind": kind, "model": gm.describe(), "sector": qntot.tolist()}
    ctx.cls("qn-" + gm.desc["qn_mode"])
    trace = []
    if kind == "Mpo":
        zero = np.zeros(gm.qn_size, dtype=int)
        obj = None
        for _ in range(20):
            cf = bool(rng.random() < 0.4)
            charge = zero if rng.random() < 0.7 else None
            terms = gen.random_terms(rng, gm, int(rng.integers(1, 6)), target_charge=charge, allow_complex=cf,
                                     complex_factors=cf, decades=1)
            if not terms:
                continue
            if charge is None:
                terms = terms[:1]      # one term = one definite total charge (possibly non-zero)
            try:
                obj = Mpo(model, terms)
            except Exception:  # noqa: BLE001
                obj = None
                continue
            if np.linalg.norm(obj.todense()) > 1e-10:
                desc["terms"] = gen.terms_describe(terms, 5)
                break
            obj = None
        if obj is None:
            ctx.refuse("no operator generated")
            raise CaseAbort()
    else:
        obj = ctx.lib(states.random_state, ctx, gm, model, qntot, what="state-constructor", promised=False)
        if kind == "MpDm":
            obj = ctx.lib(MpDm.from_mps, obj, what="MpDm.from_mps")
    obj.compress_config = _fixed()
    ctx.lib(states.gauge_history, rng, obj, 4, trace, allow_coeff=(kind != "Mpo"), what="gauge-history", promised=False)
    if obj.site_num > 2 and rng.random() < 0.4:
        k = int(rng.integers(1, obj.site_num - 1))
        ctx.lib(obj.move_qnidx, k, what="gauge-history", promised=False)
        trace.append(f"move_qnidx({k})")
    desc["gauge"] = trace
    if obj.is_complex:
        ctx.cls("complex")
    else:
        ctx.cls("real")
    ctx.cls(f"to_right:{obj.to_right}", "centre:" + ("first" if obj.qnidx == 0 else ("last" if obj.qnidx == obj.site_num - 1 else "inner")))
    if kind != "Mpo" and complex(obj.coeff) != 1:
        ctx.cls("coeff-not-one")
    ctx.describe(desc)

    cls = {"Mps": Mps, "MpDm": MpDm, "Mpo": Mpo}[kind]
    fname = os.path.join(tmp, "state.npz")
    before = [np.array(obj[k].array, copy=True) for k in range(obj.site_num)]
    meta_before = {"qn": [np.array(q, copy=True) for q in obj.qn], "qnidx": int(obj.qnidx), "to_right": bool(obj.to_right),
                   "qntot": np.array(obj.qntot, copy=True), "coeff": complex(getattr(obj, "coeff", 1.0))}
    ctx.lib(obj.dump, fname, what=f"{kind}.dump")
    if not ctx.check(os.path.exists(fname), f"roundtrip|{kind}|dump-wrote-no-file"):
        return
    with np.load(fname, allow_pickle=True) as z:
        ver = str(z["version"])
    ctx.cls(f"format:{ver}")
    ctx.check(all(_same_bits(x, obj[k].array) for k, x in enumerate(before)), f"roundtrip|{kind}|dump-changed-the-object")
    ctx.check(len(obj.qn) == len(meta_before["qn"]) and all(np.array_equal(np.asarray(a), b) for a, b in zip(obj.qn, meta_before["qn"]))
              and int(obj.qnidx) == meta_before["qnidx"] and bool(obj.to_right) == meta_before["to_right"]
              and np.array_equal(np.asarray(obj.qntot), meta_before["qntot"])
              and complex(getattr(obj, "coeff", 1.0)) == meta_before["coeff"], f"roundtrip|{kind}|dump-changed-the-bookkeeping-of-the-object")
    loaded = ctx.lib(cls.load, model, fname, what=f"{kind}.load")
    ctx.count("roundtrip_objects")
    ctx.count("oracle")
    ctx.check(type(loaded) is type(obj), f"roundtrip|{kind}|class-differs", a=type(obj).__name__, b=type(loaded).__name__)
    if not compare_chain(ctx, kind, obj, loaded, "roundtrip"):
        return
    ctx.nontrivial(desc)

    # ---- identical continuations -----------------------------------------------------------------------
    def prep(x):
        y = x.copy() if x is obj else x
        y.compress_config = _fixed()
        return y
    A, B = prep(obj), prep(loaded)

    def cmp_chain(x, y, what):
        similar_chain(ctx, kind + "|" + what, x, y)

    def canon(x):
        y = x.copy()
        y.ensure_left_canonical() if rng_choice["left"] else y.ensure_right_canonical()
        y.canonicalise()
        return y
    rng_choice = {"left": bool(rng.random() < 0.5)}
    both(ctx, kind, "canonicalise", lambda: canon(A), lambda: canon(B), lambda x, y: cmp_chain(x, y, "canonicalise"))

    mcut = max(1, int(max(obj.bond_dims)) - int(rng.integers(0, 2)))

    def compress(x):
        y = x.copy()
        y.compress_config = _fixed(mcut)
        y.ensure_right_canonical() if rng_choice["left"] else y.ensure_left_canonical()
        return y.compress()
    both(ctx, kind, "compress", lambda: compress(A), lambda: compress(B), lambda x, y: cmp_chain(x, y, "compress"))

    both(ctx, kind, "todense", lambda: np.asarray(A.todense()), lambda: np.asarray(B.todense()),
         lambda x, y: _dense_close(ctx, x, y, f"continuation|{kind}|todense|differs"))
    both(ctx, kind, "add-self", lambda: A.add(A.copy()), lambda: B.add(B.copy()), lambda x, y: cmp_chain(x, y, "add"))

    if kind == "Mpo":
        if len(gm.basis) <= 4:
            st = outcome(lambda: states.random_state(ctx, gm, model, qntot))
            if st[0]:
                s = st[1]
                s.compress_config = _fixed()
                both(ctx, kind, "apply", lambda: A.apply(s.copy()), lambda: B.apply(s.copy()),
                     lambda x, y: similar_chain(ctx, "Mpo|apply", x, y))
        return
    H, hterms = hermitian_mpo(ctx, gm, model, allow_complex=True)
    if H is None:
        return
    both(ctx, kind, "expectation", lambda: A.expectation(H), lambda: B.expectation(H),
         lambda x, y: _scalar_close(ctx, x, y, f"continuation|{kind}|expectation|differs"))
    if len(gm.basis) < 2:
        return
    method = [EvolveMethod.prop_and_compress_tdrk4, EvolveMethod.tdvp_ps, EvolveMethod.tdvp_ps2][int(rng.integers(0, 3))]
    ctx.cls(f"evolve:{method.name}")

    def evolve(x):
        y = x.copy()
        y.evolve_config = EvolveConfig(method)
        y.compress_config = _fixed(max(4, int(max(obj.bond_dims))))
        if method != EvolveMethod.prop_and_compress_tdrk4:
            y.ensure_left_canonical()
        return y.evolve(H, 0.05)
    both(ctx, kind, f"evolve({method.name})", lambda: evolve(A), lambda: evolve(B),
         lambda x, y: cmp_chain(x, y, f"evolve({method.name})"))


# ------------------------------------------------------------------------------------------------ tree states
def tree_basis(rng):
    """(basis list, descriptor) for a small tree: spins / electrons with 0..2 conserved numbers, vibrations."""
    from renormalizer.model import basis as ba
    mode = str(rng.choice(["none", "one", "two"], p=[0.35, 0.45, 0.2]))
    n = int(rng.integers(2, 7))
    long_tree = bool(rng.random() < 0.15)
    if long_tree:
        n = int(rng.integers(11, 13))       # more than ten nodes: multi-digit keys in the file
    out, desc = [], []
    if not long_tree and rng.random() < 0.2:
        # labels of both signs (S_z-like): negative numbers on the bonds and possibly as the total
        for i in range(n):
            sq = [1, -1] if rng.random() < 0.7 else [-1, 1]
            out.append(ba.BasisHalfSpin(f"s{i}", sigmaqn=sq))
            desc.append(["HalfSpin", sq])
        return out, "signed", desc
    for i in range(n):
        r = 0.0 if long_tree else rng.random()
        if mode == "two":
            sq = [[[0, 0], [1, 0]], [[0, 0], [0, 1]], [[0, 0], [1, 1]]][int(rng.integers(0, 3))]
            out.append(ba.BasisHalfSpin(f"s{i}", sigmaqn=sq))
            desc.append(["HalfSpin", sq])
        elif r < 0.5 or (mode == "one" and i == 0):
            sq = [0, 1] if mode == "one" else [0, 0]
            out.append(ba.BasisHalfSpin(f"s{i}", sigmaqn=sq))
            desc.append(["HalfSpin", sq])
        else:
            nb = int(rng.integers(2, 5))
            out.append(ba.BasisSHO(f"v{i}", float(rng.choice([0.5, 1.0, 1.7])), nb))
            desc.append(["SHO", nb])
    return out, mode, desc


def tree_terms(rng, basis_list, allow_complex=False):
    """A small Hermitian, charge-conserving term list over the tree's degrees of freedom."""
    from renormalizer.model import Op
    from renormalizer.model import basis as ba
    spins = [b for b in basis_list if isinstance(b, ba.BasisHalfSpin)]
    vibs = [b for b in basis_list if isinstance(b, ba.BasisSHO)]
    terms = []
    for b in spins:
        terms.append(Op("sigma_z", b.dof, float(rng.uniform(-1, 1))))
    for b in vibs:
        terms.append(Op(r"b^\dagger b", b.dof, float(rng.uniform(0.2, 1.5))))
    for _ in range(int(rng.integers(1, 4))):
        if len(spins) >= 2 and rng.random() < 0.6:
            i, j = rng.choice(len(spins), size=2, replace=False)
            s1, s2 = spins[int(i)], spins[int(j)]
            if np.array_equal(np.asarray(s1.sigmaqn), np.asarray(s2.sigmaqn)):
                c = float(rng.uniform(-1, 1))
                q = (np.asarray(s1.sigmaqn)[1] - np.asarray(s1.sigmaqn)[0]).tolist()
                nq = [-x for x in q]
                terms.append(Op("sigma_+ sigma_-", [s1.dof, s2.dof], c, qn=[q, nq]))
                terms.append(Op("sigma_- sigma_+", [s1.dof, s2.dof], c, qn=[nq, q]))
        elif spins and vibs:
            s, v = spins[int(rng.integers(0, len(spins)))], vibs[int(rng.integers(0, len(vibs)))]
            terms.append(Op(r"sigma_z b^\dagger+b", [s.dof, v.dof], float(rng.uniform(-0.5, 0.5))))
    return terms


def compare_tree(ctx, a, b, what, op=""):
    ok = ctx.check(len(a.node_list) == len(b.node_list), f"{what}|TTNS{op}|node-number-differs")
    if not ok:
        return False
    for i, (na, nb) in enumerate(zip(a.node_list, b.node_list)):
        x, y = np.asarray(na.tensor), np.asarray(nb.tensor)
        if x.dtype != y.dtype:
            ok &= ctx.check(False, f"{what}|TTNS{op}|tensor-dtype-differs", node=i, a=str(x.dtype), b=str(y.dtype))
        elif not _same_bits(x, y):
            ok &= ctx.check(False, f"{what}|TTNS{op}|tensor-differs", node=i, shapes=[list(x.shape), list(y.shape)],
                            max_abs=float(np.max(np.abs(x - y))) if x.shape == y.shape else None)
        p, q = np.asarray(na.qn), np.asarray(nb.qn)
        if p.shape != q.shape or not np.array_equal(p, q):
            ok &= ctx.check(False, f"{what}|TTNS{op}|qn-differs", node=i, a=p, b=q)
    ok &= ctx.check(np.array_equal(np.asarray(a.qntot).reshape(-1), np.asarray(b.qntot).reshape(-1)),
                    f"{what}|TTNS{op}|qntot-differs", a=np.asarray(a.qntot), b=np.asarray(b.qntot))
    ca, cb = complex(np.asarray(a.coeff).item()), complex(np.asarray(b.coeff).item())
    ok &= ctx.check(ca == cb, f"{what}|TTNS{op}|coeff-differs", a=ca, b=cb)
    return bool(ok)


def similar_tree(ctx, a, b, op):
    """continuations of bitwise identical trees: see similar_chain"""
    if compare_tree(_Quiet(), a, b, "continuation", op):
        ctx.count("continuations_bitwise_equal")
        return True
    ctx.count("continuations_equal_only_within_tolerance")
    what = f"continuation|TTNS{op}"
    ok = ctx.check(list(a.bond_dims) == list(b.bond_dims), f"{what}|bond-dims-differ", a=list(a.bond_dims), b=list(b.bond_dims))
    if ok:
        order = [x for x in a.basis.basis_list if x.nbas > 1]
        da = np.asarray(a.todense(order)) * complex(np.asarray(a.coeff).item())
        db = np.asarray(b.todense(order)) * complex(np.asarray(b.coeff).item())
        ok &= ctx.close(db, da, CONT_TOL, f"{what}|object-differs", scale=max(float(np.linalg.norm(da)), 1e-300))
        ok &= ctx.check(all(_labels_equal(x.qn, y.qn) for x, y in zip(a.node_list, b.node_list)), f"{what}|qn-differs")
    return bool(ok)


def roundtrip_tree(ctx, tmp):
    from rv.case import CaseAbort
    from renormalizer.tn import BasisTree, TTNS, TTNO
    from renormalizer.utils import EvolveConfig, EvolveMethod
    rng = ctx.rng
    kind = "TTNS"
    basis_list, mode, bdesc = tree_basis(rng)
    ctx.cls("qn-" + mode)
    # (general_mctdh creates one-component virtual basis sets: with two quantum numbers it refuses the tree)
    signed = mode == "signed"
    if signed:
        mode = "one"
        ctx.cls("tree:labels-of-both-signs")
    shape = str(rng.choice(["linear", "binary", "mctdh2", "mctdh3"] if mode != "two" else ["linear", "binary"]))
    if shape == "linear":
        tree = ctx.lib(BasisTree.linear, basis_list, what="BasisTree", promised=False)
    elif shape == "binary":
        tree = ctx.lib(BasisTree.binary, basis_list, what="BasisTree", promised=False)
    else:
        tree = ctx.lib(BasisTree.general_mctdh, basis_list, int(shape[-1]), what="BasisTree", promised=False)
    ctx.cls(f"tree:{shape}")
    k = 2 if mode == "two" else 1
    nq = [b for b in basis_list if np.any(np.asarray(b.sigmaqn) != 0)]
    if mode == "none":
        qntot = np.zeros(1, dtype=int)
    else:
        # the label of a random product state
        qntot = np.zeros(k, dtype=int)
        for b in nq:
            qntot = qntot + np.asarray(b.sigmaqn)[int(rng.integers(0, b.nbas))].reshape(-1)
    desc = {"kind": kind, "tree": shape, "basis": bdesc, "qn_mode": mode, "sector": qntot.tolist()}
    m = int(rng.integers(1, 6))
    env.reseed_global(rng)
    hist = []

    def build():
        if signed or rng.random() < 0.2:       # (TTNS.random needs non-negative labels)
            cond = {b.dof: int(np.flatnonzero(np.all(np.asarray(b.sigmaqn).reshape(b.nbas, -1) == 0, axis=1))[0])
                    if mode == "none" or not np.any(np.asarray(b.sigmaqn) != 0) else int(rng.integers(0, b.nbas))
                    for b in basis_list}
            hist.append("product")
            p0 = TTNS(tree, cond)
            if signed and rng.random() < 0.7:
                # a second product state of the same sector (two spins exchanged) added: bonds of dimension two with
                # labels of both signs
                keys = [b.dof for b in basis_list]
                i_, j_ = rng.choice(len(keys), size=2, replace=False).tolist()
                if np.array_equal(np.asarray(basis_list[i_].sigmaqn)[cond[keys[i_]]] + np.asarray(basis_list[j_].sigmaqn)[cond[keys[j_]]],
                                  np.asarray(basis_list[i_].sigmaqn)[cond[keys[j_]]] + np.asarray(basis_list[j_].sigmaqn)[cond[keys[i_]]]):
                    c2 = dict(cond)
                    c2[keys[i_]], c2[keys[j_]] = cond[keys[j_]], cond[keys[i_]]
                    p0 = p0.add(TTNS(tree, c2).scale(0.7))
                    hist.append("+product")
            return p0
        hist.append(f"random(m={m})")
        with np.errstate(all="ignore"):
            return TTNS.random(tree, qntot if mode != "none" else 0, m, float(rng.choice([0.5, 1.0])))
    t = ctx.lib(build, what="TTNS-constructor", promised=False)
    if not all(np.all(np.isfinite(np.asarray(n.tensor))) for n in t.node_list):
        ctx.refuse("TTNS constructor produced non-finite tensors")
        raise CaseAbort()
    t.compress_config = _fixed()
    for _ in range(int(rng.integers(0, 4))):
        op = str(rng.choice(["canonicalise", "compress", "to_complex", "scale-real", "scale-complex", "add-self"]))
        hist.append(op)
        if op == "canonicalise":
            ctx.lib(t.canonicalise, what="gauge:canonicalise", promised=False)
        elif op == "compress":
            ctx.lib(t.compress, what="gauge:compress", promised=False)
        elif op == "to_complex":
            t = ctx.lib(t.to_complex, what="gauge:to_complex", promised=False)
        elif op == "scale-real":
            t = ctx.lib(t.scale, -0.5, what="gauge:scale", promised=False)
        elif op == "scale-complex":
            t = ctx.lib(t.scale, np.exp(0.7j), what="gauge:scale", promised=False)
        else:
            t = ctx.lib(t.add, t.copy(), what="gauge:add", promised=False)
            t.compress_config = _fixed()
    if rng.random() < 0.3:
        t.coeff = t.coeff * [2.0, -0.5, np.exp(0.3j)][int(rng.integers(0, 3))]
        hist.append("coeff")
    desc["history"] = hist
    is_cplx = any(np.iscomplexobj(n.tensor) for n in t.node_list)
    ctx.cls("complex" if is_cplx else "real")
    ctx.describe(desc)

    fname = os.path.join(tmp, "tree.npz")
    snap = {"tensors": [np.array(nd.tensor, copy=True) for nd in t.node_list], "qn": [np.array(nd.qn, copy=True) for nd in t.node_list],
            "coeff": complex(np.asarray(t.coeff).item())}
    ctx.lib(t.dump, fname, what="TTNS.dump")
    ctx.check(all(_same_bits(a, np.asarray(nd.tensor)) for a, nd in zip(snap["tensors"], t.node_list))
              and all(np.array_equal(a, np.asarray(nd.qn)) for a, nd in zip(snap["qn"], t.node_list))
              and complex(np.asarray(t.coeff).item()) == snap["coeff"], "roundtrip|TTNS|dump-changed-the-object")
    if not ctx.check(os.path.exists(fname), "roundtrip|TTNS|dump-wrote-no-file"):
        return
    with np.load(fname, allow_pickle=True) as z:
        ctx.cls(f"format:tree-{z['version']}")
    loaded = ctx.lib(TTNS.load, tree, fname, what="TTNS.load")
    ctx.count("roundtrip_objects")
    ctx.count("oracle")
    if not compare_tree(ctx, t, loaded, "roundtrip"):
        return
    ctx.nontrivial(desc)

    def prep(x, fresh):
        y = x.copy() if fresh else x
        y.compress_config = _fixed()
        return y
    A, B = prep(t, True), prep(loaded, False)

    def canon(x):
        y = x.copy()
        y.canonicalise()
        return y
    both(ctx, kind, "canonicalise", lambda: canon(A), lambda: canon(B),
         lambda x, y: similar_tree(ctx, x, y, "|canonicalise"))
    mcut = max(1, int(max(t.bond_dims)) - int(rng.integers(0, 2)))

    def compress(x):
        y = x.copy()
        y.compress_config = _fixed(mcut)
        y.canonicalise()
        y.compress()
        return y
    both(ctx, kind, "compress", lambda: compress(A), lambda: compress(B),
         lambda x, y: similar_tree(ctx, x, y, "|compress"))
    both(ctx, kind, "todense", lambda: np.asarray(A.todense(list(basis_list))), lambda: np.asarray(B.todense(list(basis_list))),
         lambda x, y: _dense_close(ctx, x, y, "continuation|TTNS|todense|differs"))
    terms = tree_terms(rng, basis_list)
    try:
        H = TTNO(tree, terms)
    except Exception as e:  # noqa: BLE001
        ctx.cls(f"TTNO-refused:{type(e).__name__}")
        return
    both(ctx, kind, "expectation", lambda: A.expectation(H), lambda: B.expectation(H),
         lambda x, y: _scalar_close(ctx, x, y, "continuation|TTNS|expectation|differs"))
    method = [EvolveMethod.tdvp_ps, EvolveMethod.tdvp_ps2, EvolveMethod.prop_and_compress_tdrk4][int(rng.integers(0, 3))]
    ctx.cls(f"evolve:{method.name}")

    def evolve(x):
        y = x.copy()
        y.evolve_config = EvolveConfig(method)
        y.compress_config = _fixed(max(4, int(max(t.bond_dims))))
        y.canonicalise()
        return y.evolve(H, 0.05)
    both(ctx, kind, f"evolve({method.name})", lambda: evolve(A), lambda: evolve(B),
         lambda x, y: similar_tree(ctx, x, y, f"|evolve({method.name})"))


# ================================================================================================ spill cases
def spill_case(ctx, i):
    ctx.cls("spill")
    tmp = tempfile.mkdtemp(prefix="rv_c14_")
    try:
        spill_body(ctx, tmp)
    finally:
        gc.collect()
        shutil.rmtree(tmp, ignore_errors=True)


def spill_body(ctx, tmp):
    from rv import gen, states
    from renormalizer.mps import MpDm
    from renormalizer.utils import EvolveConfig, EvolveMethod
    rng = ctx.rng
    use_dm = bool(rng.random() < 0.25)
    gm = gen.random_basis_list(rng, nsite=(2, 4) if use_dm else (2, 6), max_dim=24 if use_dm else 300, min_dim=2)
    model = states.model_of(gm)
    qntot = states.pick_sector(rng, gm)
    ctx.cls("qn-" + gm.desc["qn_mode"], "spill:MpDm" if use_dm else "spill:Mps")
    a0 = ctx.lib(states.random_state, ctx, gm, model, qntot, what="state-constructor", promised=False)
    b0 = ctx.lib(states.random_state, ctx, gm, model, qntot, what="state-constructor", promised=False)
    tr = []
    ctx.lib(states.gauge_history, rng, a0, 2, tr, what="gauge-history", promised=False)
    from rv import dense
    H = None
    psi = states.dense_of(a0).reshape(-1)
    for _ in range(6):
        H, hterms = hermitian_mpo(ctx, gm, model, allow_complex=True)
        if H is None or np.linalg.norm(dense.op_dense(gm.basis, hterms) @ psi) > 1e-6 * np.linalg.norm(psi):
            break
        H = None
    history = ["sum", "canonicalise+compress"] + (["P&C step", "TDVP-PS step"] if H is not None else [])
    desc = {"kind": "spill", "object": "MpDm" if use_dm else "Mps", "model": gm.describe(), "sector": qntot.tolist(),
            "gauge": tr, "history": history}
    ctx.describe(desc)
    if a0.is_complex or b0.is_complex:
        ctx.cls("complex")
    mcut = max(1, int(max(a0.bond_dims)))
    spill_dir = os.path.join(tmp, "spill")
    os.makedirs(spill_dir)

    def run(on_disk):
        """the history; returns the dense results and (on disk) the storage facts of every object produced"""
        facts = []

        def mk(x):
            y = x.copy()
            y.compress_config = _fixed(10 ** 6)
            if use_dm:
                y = MpDm.from_mps(y)
            if on_disk:
                y.compress_config.dump_matrix_size = 1
                y.compress_config.dump_matrix_dir = spill_dir
                for k in range(y.site_num):
                    y[k] = np.asarray(y[k].array)
            return y

        def note(x, what):
            if on_disk:
                facts.append((what, [type(t).__name__ for t in x._mp]))
            return x
        res = {}
        a, b = note(mk(a0), "input a"), note(mk(b0), "input b")
        b.move_qnidx(a.qnidx)
        b.to_right = a.to_right
        s = note(a.add(b), "sum")
        res["sum"] = states.dense_of(s)
        c = s.copy()
        note(c, "copy")
        c.ensure_right_canonical()
        note(c, "canonicalised")
        c.canonicalise()
        res["canonicalise"] = states.dense_of(c)
        c.compress_config.criteria = c.compress_config.criteria
        c.compress_config.bond_dim_max_value = mcut
        c.compress_config.max_bonddim = mcut
        c = note(c.compress(), "compressed")
        res["compress"] = states.dense_of(c)
        if H is not None:
            for name, method in (("P&C", EvolveMethod.prop_and_compress_tdrk4), ("TDVP-PS", EvolveMethod.tdvp_ps)):
                y = a.copy()
                y.evolve_config = EvolveConfig(method)
                y.compress_config.max_bonddim = max(4, mcut)
                y.compress_config.bond_dim_max_value = max(4, mcut)
                if method == EvolveMethod.tdvp_ps:
                    y.ensure_left_canonical()
                z = note(y.evolve(H, 0.05), f"{name} step")
                res[name] = states.dense_of(z)
                del y, z
        del a, b, s, c
        gc.collect()
        return res, facts
    # ---- the accessor itself: random reads / writes through every equivalent index form against a shadow list ----------
    def accessor_walk():
        y = a0.copy()
        y.compress_config = _fixed(10 ** 6)
        y.compress_config.dump_matrix_size = 1
        y.compress_config.dump_matrix_dir = spill_dir
        n = y.site_num
        shadow = []
        for k in range(n):
            arr = np.array(y[k].array, copy=True)
            y[k] = arr
            shadow.append(arr.copy())
        # prelude: the same site through its two equivalent index forms, read -> write -> read with nothing in between
        i = int(rng.integers(0, n))
        fa, fb = (i, i - n) if rng.random() < 0.5 else (i - n, i)
        _ = np.asarray(y[fa].array)
        new = shadow[i] * 1.7 - 0.02
        y[fb] = new
        shadow[i] = np.array(new, copy=True)
        got = np.asarray(y[fa].array)
        ctx.count("spill_accessor_reads", 2)
        ctx.count("spill_accessor_writes")
        if got.shape != shadow[i].shape or not np.array_equal(got, shadow[i]):
            ctx.violate("spill|accessor|read-does-not-return-the-tensor-stored-last", site=i, index_form=fa, step="prelude")
            del y
            gc.collect()
            return
        nbad = 0
        held = []          # (site, tensor object handed out, its values at that moment): as in memory, a tensor that was
        #                    handed out keeps its values when the site is rewritten afterwards
        for step in range(int(rng.integers(6, 20))):
            i = int(rng.integers(0, n))
            form = i if rng.random() < 0.5 else i - n
            r_ = rng.random()
            if r_ < 0.35:
                new = shadow[i] * float(rng.uniform(0.5, 2.0)) + 0.01
                y[form] = new
                shadow[i] = np.array(new, copy=True)
                ctx.count("spill_accessor_writes")
            elif r_ < 0.45:
                # an in-place operation of the library on the spilled state
                f = float(rng.choice([-2.0, 0.5, 3.0]))
                y.scale(f, inplace=True)
                shadow[y.qnidx] = shadow[y.qnidx] * f
                ctx.count("spill_accessor_writes")
                ctx.cls("spill:in-place-scale")
            else:
                mt = y[form]
                got = np.asarray(mt.array)
                ctx.count("spill_accessor_reads")
                if got.shape != shadow[i].shape or not np.array_equal(got, shadow[i]):
                    nbad += 1
                    ctx.violate("spill|accessor|read-does-not-return-the-tensor-stored-last", site=i, index_form=form, step=step)
                    break
                held.append((i, mt, np.array(got, copy=True)))
            for (j, mt, snap) in held:
                ctx.count("spill_held_references_checked")
                try:
                    now = np.asarray(mt.array)
                    same = now.shape == snap.shape and np.array_equal(now, snap)
                except Exception as e:  # noqa: BLE001 - e.g. a mapping of a file that shrank
                    same = False
                if not same:
                    nbad += 1
                    ctx.violate("spill|accessor|tensor-handed-out-earlier-changed-when-the-site-was-rewritten", site=j, step=step)
                    break
            if nbad:
                break
        ctx.check(all(isinstance(t, str) for t in y._mp), "spill|accessor|tensor-kept-in-memory")
        del y
        gc.collect()
    ctx.cls("spill:accessor-walk")
    ctx.lib(accessor_walk, what="spill-accessor-walk")
    if ctx.violations:
        return
    mem = outcome(lambda: run(False))
    if not mem[0]:
        ctx.refuse(f"in-memory history raised {type(mem[1]).__name__}: {str(mem[1])[:80]}")
        return
    gc.collect()
    disk = outcome(lambda: run(True))
    ctx.count("oracle")
    if not disk[0]:
        e = disk[1]
        import traceback
        ctx.violate(f"spill|history-raises-only-on-disk|{type(e).__name__}", message=str(e)[:200],
                    traceback="".join(traceback.format_exception(type(e), e, e.__traceback__))[-1200:])
        return
    (rm, _), (rd, facts) = mem[1], disk[1]
    for k in rm:
        ctx.close(rd[k], rm[k], 1e-12, f"spill|{k}|differs-from-in-memory", scale=max(float(np.linalg.norm(rm[k])), 1e-300))
        if _same_bits(rd[k], rm[k]):
            ctx.count("spill_results_bitwise_equal")
        else:
            ctx.count("spill_results_equal_within_tolerance")
    for what, types in facts:
        n_str = sum(1 for t in types if t == "str")
        ctx.count("spill_tensors_on_disk", n_str)
        ctx.check(n_str == len(types), "spill|tensor-kept-in-memory", object=what, stored_as=types)
    del mem, disk, rm, rd
    gc.collect()
    left = sorted(os.listdir(spill_dir))
    ctx.check(not left, "spill|dump-directory-not-empty-after-collection", entries=len(left), sample=left[:3])
    ctx.nontrivial(desc)


# ================================================================================================== finalize
def finalize(coverage, events):
    cat = _CAT or {}
    classes = coverage.get("input_classes_seen", {})
    by_gen, by_enum, restarted = {}, {}, set()
    for c in classes:
        if c.startswith("dirstate:g"):
            g, s = c[len("dirstate:g"):].split(":", 1)
            by_gen.setdefault(int(g), set()).add(s)
        elif c.startswith("dirstate-by:"):
            e, s = c[len("dirstate-by:"):].split(":", 1)
            by_enum.setdefault(e, set()).add(s)
        elif c.startswith("restart-from:"):
            restarted.add(c[len("restart-from:"):])
    all_states = sorted(set().union(*by_gen.values())) if by_gen else []
    ngen = cat.get("generations", 0)
    unexplored = sorted(s for g, ss in by_gen.items() if g < ngen for s in ss if s not in restarted and s != "nodir")
    gens_run = sorted(by_gen)
    last = gens_run[-1] if gens_run else 0
    new_in_last = sorted(s for s in by_gen.get(last, ()) if s not in restarted and s != "nodir")
    coverage["restart_closure"] = {
        "generations_run": gens_run, "generation_cap": ngen,
        "closed": bool(gens_run) and not new_in_last,
        "states_first_seen_in_last_generation_not_restarted_from": new_in_last,
        "meaning": "closed = the crashes of the last generation left no directory state that had not already been used as "
                   "a restart state, i.e. deeper restart histories cannot reach new states of the abstract state space",
    }
    coverage["directory_states"] = {
        "distinct": all_states,
        "by_generation": {str(g): sorted(s) for g, s in sorted(by_gen.items())},
        "by_enumerator": {e: sorted(s) for e, s in sorted(by_enum.items())},
        "only_seen_by": {e: sorted(s - set().union(*[t for f, t in by_enum.items() if f != e] or [set()]))
                         for e, s in sorted(by_enum.items())},
        "restart_states_explored": sorted(restarted),
        "observed_but_not_restarted_from": unexplored,
    }
    coverage["monitor_counters"]["distinct_dir_states"] = len(all_states)
    coverage["enumerators_run"] = sorted(c[len("enum:"):] for c in classes if c.startswith("enum:"))
    coverage["strace_available"] = cat.get("strace_available")
    coverage["strace_note"] = cat.get("strace_note")
    coverage["catalogue"] = {"crash_tasks": sum(1 for t in cat.get("tasks", []) if t["kind"] == "crash"),
                             "control_tasks": sum(1 for t in cat.get("tasks", []) if t["kind"] == "control"),
                             "generations": ngen, "phase0_wall_s": cat.get("phase0_wall"), "notes": cat.get("notes", [])[:10],
                             "phase0_children_not_counted_in_children_run": cat.get("phase0_children")}
    if unexplored:
        coverage["inconclusive_reasons"].append(
            f"directory states observed but never used as restart state: {unexplored}")
    if cat.get("notes"):
        coverage["inconclusive_reasons"].append("catalogue problems: " + " || ".join(cat["notes"])[:400])
    if _OWN_RUNDIR and _RUNDIR:
        shutil.rmtree(_RUNDIR, ignore_errors=True)
