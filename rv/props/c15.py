"""C15 - symbolic operator algebra (Op / OpSum) is a faithful homomorphism onto dense matrices; ==/hash are consistent."""
import numpy as np

from rv import dense, env, gen
from rv.case import CaseAbort, CaseTimeout, _innermost_repo_frame

ID = "C15"
LEVEL = "exploration"
RULE = ("One case = one random expression DAG (depth <= 5, shared sub-expressions allowed) over Op atoms drawn from the "
        "site catalogues of a random basis list (spin with/without labels, SHO, electrons, multi-DoF sites, sine-DVR, "
        "HOPS boson, dummy; quantum numbers absent / one / two components; prod(d) <= 256). Atoms are single- and "
        "multi-site symbols, with repeated DoFs and explicit identities; factors and scalars of type int, float, "
        "complex, np.float64, np.complex128, np.int64. Node kinds: + (Op/OpSum/list operands on either side, +0, "
        "builtin sum), -, +=, * (Op*Op, Op*OpSum, Op*list, list*Op, OpSum*Op, OpSum*OpSum, OpSum*list), scalar*expr and "
        "expr*scalar, /, unary -, Op.product, OpSum.product, squeeze_identity, simplify(atol). Every node is evaluated "
        "with the library's operators and denoted by a dense matrix (Kronecker products of BasisSet.op_mat); the matrix "
        "of each node must equal the matrix expression of the matrices of its operands, and the root must equal a "
        "reference computed from the catalogue matrices of the atoms alone. Per-symbol quantum numbers of every term "
        "must be the ones the atoms carried. Each case also runs ==/hash laws on the root's terms and on pairs built "
        "to be equal by different routes (dyadic factors, so float arithmetic is exact), and passes the root through "
        "Model(...).ham_terms. Non-trivial: the expression contains >= 2 binary nodes of >= 2 different kinds (add, sub, "
        "iadd, mul, smul, div, product); distinct by hash of (model, atoms, expression text).")
ASSUMPTIONS = [
    "denotation: local matrices from BasisSet.op_mat on the site-grouped symbol (same as rv.dense.op_dense, which is "
    "cross-checked on a sample of roots); whether op_mat is right is C16's business",
    "op_mat is multiplicative in the written symbol only for BasisHalfSpin ('x x' on a truncated SHO is x^2, not x@x; "
    "electron bases accept a fixed list of symbols): a product node never brings two factors onto the same non-spin "
    "site; repeated DoFs therefore live on spin sites (any length) or inside one catalogue symbol",
    "exact algebra: ||D(node) - f(D(operands))||_F <= 1e-10 * (sum of Frobenius norms of the terms involved); "
    "root vs atom-only reference: 1e-9 * (same bound propagated through the tree)",
    "simplify(atol): allowed deviation n_terms * atol * max ||unit term||_F plus the rounding allowance above",
    "plain Python lists are operands only where the code dispatches on `list` (Op+list, Op*list, list*Op, OpSum+list, "
    "OpSum*list, OpSum+=list); list*OpSum, Op-list, OpSum-list, list+Op and Op/scalar raise TypeError and are counted "
    "as refusals, as are the explicit TypeErrors for adding non-zero scalars",
    "prod(d) <= 256, <= 48 terms and <= 14 elementary symbols per term, |factor| within 1e-3..1e3 per atom/scalar; "
    "empty products (Op.product([]) / OpSum.product([])) are not generated",
    "equality of differently routed pairs is demanded only where every factor is a dyadic rational (no rounding); "
    "squeeze_identity/simplify re-join the symbol from its elementary words and thereby respell the SHO symbol "
    "'b^\\dagger + b' as 'b^\\dagger+b' (same matrix, structurally another Op): for such pairs only the ==/hash laws "
    "are checked, equality is not demanded (counted as respelled_b_dagger_plus_b)",
    "== between an Op and a non-Op raises AttributeError; outside the property (symbolic operators only), counted as "
    "a refusal",
    "basis lists come from a deterministic pool (quick 600, thorough 4000 models per seed, model = f(seed, tier, "
    "case index mod pool size)); everything else of a case is drawn from the per-case generator",
    "known defect with its own signature: squeeze_identity (and therefore simplify) raises ValueError for operators "
    "with >= 2 quantum-number components that contain an identity next to other symbols; after recording it the case "
    "continues with the unsimplified value",
]

MAX_TERMS = 48
MAX_WORDS = 14
BINARY = ("add", "sub", "iadd", "mul", "smul", "div", "product")
SQUEEZE_SIG = "squeeze-identity|raises|multi-component-qn-with-identity"

# (operation, left kind, right kind) combinations with a plain list that the code dispatches on explicitly
SUPPORTED_LIST = {("add", "op", "list"), ("add", "sum", "list"), ("add", "list", "sum"),
                  ("mul", "op", "list"), ("mul", "list", "op"), ("mul", "sum", "list"),
                  ("iadd", "sum", "list"), ("iadd", "op", "list")}


def plan(tier):
    classes = ["qn-none", "qn-one", "qn-two", "repeated-dof", "identity-in-product", "multi-site-symbol",
               "multi-dof-site", "shared-subexpression",
               "scalar:int", "scalar:float", "scalar:complex", "scalar:np.float64", "scalar:np.complex128",
               "scalar:np.int64",
               "add|op+op", "add|op+sum", "add|sum+op", "add|sum+sum", "add|op+list", "add|sum+list",
               "sub|op-op", "sub|op-sum", "sub|sum-op", "sub|sum-sum", "iadd|sum+=op", "iadd|sum+=sum",
               "iadd|sum+=list", "mul|op*op", "mul|op*sum", "mul|sum*op", "mul|sum*sum", "mul|op*list", "mul|list*op",
               "mul|sum*list", "smul|left", "smul|right", "div|sum", "neg|op", "neg|sum", "Op.product", "OpSum.product",
               "squeeze_identity", "simplify|atol=0", "simplify|atol>0", "simplify|merged", "simplify|lossy", "simplify|small-terms-add-up-above-atol", "simplify|group-cancels-below-atol", "repeated-term",
               "check_operator_terms", "eq-routes"]
    if tier == "quick":
        return {"ncases": 3000, "min_nontrivial": 1500, "case_time_limit": 60, "required_classes": classes,
                "required_counters": {"oracle": 9000, "eq_pairs": 50000, "qn_terms_checked": 25000,
                                      "end_to_end": 2500}}
    return {"ncases": 100000, "min_nontrivial": 50000, "case_time_limit": 60, "required_classes": classes,
            "required_counters": {"oracle": 300000, "eq_pairs": 1500000, "qn_terms_checked": 800000,
                                  "end_to_end": 80000}}


# ------------------------------------------------------------------------------------------------ models
class ModelCtx:
    """A generated basis list with everything the oracle needs (shared by the cases that use the same model)."""

    KINDS = {"none": ["spin0", "spin0", "spin0", "sho", "elec0", "sine", "hops", "dummy", "shox0", "shodvr"],
             "one": ["spin", "spin", "spin", "elec", "sho", "multivac", "multi", "hops", "spin0", "sine"],
             "two": ["spin", "spin", "elec", "multi", "dummy"]}

    def __init__(self, rng):
        from renormalizer.model import basis as ba
        mode = str(rng.choice(["none", "one", "two"], p=[0.3, 0.4, 0.3]))
        cap = int(rng.choice([16, 64, 256], p=[0.4, 0.4, 0.2]))
        nsite = (1, 2) if rng.random() < 0.12 else (2, 5)
        self.gm = gen.random_basis_list(rng, nsite=nsite, max_dim=cap, qn_mode=mode, kinds=self.KINDS[mode])
        self.mode = mode
        self.basis = self.gm.basis
        self.n = len(self.basis)
        self.dim = self.gm.dim
        self.qn_size = self.gm.qn_size
        self.dof2site = dense.dof_site_map(self.basis)
        self.spin = {i for i, b in enumerate(self.basis) if isinstance(b, ba.BasisHalfSpin)}
        self.multi_dof = {i for i, b in enumerate(self.basis) if b.multi_dof}
        self.identity = {}
        self.lookup = {}
        self.ambiguous = set()
        for i, cat in enumerate(self.gm.catalog):
            for so in cat:
                if so.words == ["I"] and i not in self.identity:
                    self.identity[i] = so
                for w, d, q in zip(so.words, so.dofs, so.qns):
                    k = (w, d)
                    if k in self.lookup and not np.array_equal(self.lookup[k], q):
                        self.ambiguous.add(k)
                    self.lookup[k] = np.asarray(q).reshape(-1)
        self.zero_qn = np.zeros(self.qn_size, dtype=int)
        self._local = {}
        self._unit = {}
        self._unit_cap = max(16, (1 << 22) // (self.dim * self.dim))

    # ---- denotation ------------------------------------------------------------------------------
    def local(self, site, items):
        key = (site, tuple(w for w, _, _ in items), tuple(d for _, d, _ in items))
        m = self._local.get(key)
        if m is None:
            m = np.asarray(dense.local_matrix(self.basis[site], items))
            self._local[key] = m
        return m

    def unit(self, op):
        """(matrix, Frobenius norm) of the term with factor 1."""
        key = (op.symbol, tuple(op.dofs))
        hit = self._unit.get(key)
        if hit is not None:
            return hit
        groups = dense.site_groups(op, self.dof2site)
        res = np.ones((1, 1))
        for i, b in enumerate(self.basis):
            res = np.kron(res, self.local(i, groups[i]) if i in groups else np.eye(b.nbas))
        hit = (res, float(np.linalg.norm(res)))
        if len(self._unit) >= self._unit_cap:
            self._unit.clear()
        self._unit[key] = hit
        return hit

    def denote(self, terms):
        """(sum_k c_k (x)_sites local matrices, sum_k |c_k| ||unit_k||_F) of a list of Op."""
        tot = np.zeros((self.dim, self.dim), dtype=complex)
        T = 0.0
        for t in terms:
            u, nu = self.unit(t)
            f = complex(t.factor)
            tot += f * u
            T += abs(f) * nu
        return tot, T

    def siteops_matrix(self, siteops):
        """Reference matrix of an ordered product of catalogue site operators (harness's own Kronecker code)."""
        per_site = {}
        for so in siteops:
            per_site[so.site] = per_site[so.site] @ so.mat if so.site in per_site else so.mat
        res = np.ones((1, 1))
        for i, b in enumerate(self.basis):
            res = np.kron(res, per_site.get(i, np.eye(b.nbas)))
        return res


_POOL = {}


def _model(ctx):
    k = 600 if ctx.tier == "quick" else 4000
    mid = ctx.idx % k
    key = (ctx.seed, ctx.tier, mid)
    m = _POOL.get(key)
    if m is None:
        rng = np.random.default_rng(np.random.SeedSequence(env.case_seed("C15-model", ctx.tier, ctx.seed, mid)))
        m = ModelCtx(rng)
        if len(_POOL) >= 200:
            _POOL.clear()
        _POOL[key] = m
    return m


# ---------------------------------------------------------------------------------------------- values
class Val:
    __slots__ = ("v", "kind", "D", "T", "R", "B", "locked", "nterms", "nwords", "expr", "bins", "depth")

    def __init__(self, **kw):
        for k, v in kw.items():
            setattr(self, k, v)


class _Fail:
    pass


FAIL = _Fail()
SCALAR_TYPES = ["int", "float", "complex", "np.float64", "np.complex128", "np.int64"]


def kind_of(v):
    from renormalizer.model import Op, OpSum
    if isinstance(v, Op):
        return "op"
    if isinstance(v, OpSum):
        return "sum"
    if isinstance(v, list):
        return "list"
    return None


def terms_of(v):
    from renormalizer.model import Op
    return [v] if isinstance(v, Op) else list(v)


def fmt_scalar(s, st):
    if st in ("int", "float", "complex"):
        return repr(s)
    return f"{st}({s.item()!r})"


class Builder:
    def __init__(self, ctx, m):
        self.ctx, self.m, self.rng = ctx, m, ctx.rng
        self.atoms = []
        self.pool = []
        self.squeeze_defect_seen = False

    # ---- random ingredients ------------------------------------------------------------------------
    def rand_factor_value(self, allow_complex=True):
        rng = self.rng
        r = rng.random()
        if r < 0.35:
            mag = float(10.0 ** rng.uniform(-3, 3))
        elif r < 0.8:
            mag = float(rng.uniform(0.1, 2.0))
        else:
            mag = float(rng.choice([0.5, 1.0, 2.0, 0.25, 3.0]))
        if allow_complex and rng.random() < 0.3:
            ph = rng.uniform(0, 2 * np.pi)
            return complex(mag * np.cos(ph), mag * np.sin(ph))
        return -mag if rng.random() < 0.5 else mag

    def rand_scalar(self, nonzero=False):
        """(value, type name).  Types: int, float, complex, np.float64, np.complex128, np.int64."""
        rng = self.rng
        st = SCALAR_TYPES[int(rng.integers(0, len(SCALAR_TYPES)))]
        if st in ("int", "np.int64"):
            val = int(rng.choice([-3, -2, -1, 1, 2, 3, 7]))
            if not nonzero and rng.random() < 0.04:
                val = 0
            s = val if st == "int" else np.int64(val)
        elif st in ("float", "np.float64"):
            val = float(self.rand_factor_value(allow_complex=False))
            if not nonzero and rng.random() < 0.03:
                val = 0.0
            s = val if st == "float" else np.float64(val)
        else:
            val = complex(self.rand_factor_value(allow_complex=True))
            if rng.random() < 0.2:
                val = complex(val.real, 0.0)
            if val == 0:
                val = 1 + 0j
            s = val if st == "complex" else np.complex128(val)
        self.ctx.cls("scalar:" + st)
        return s, st

    def pick_siteops(self, forbid):
        """1..4 catalogue site operators that may be multiplied in one term: non-spin sites at most once."""
        m, rng = self.m, self.rng
        free = [s for s in range(m.n) if s not in m.spin and s not in forbid]
        spin = sorted(m.spin)
        if not free and not spin:
            return None
        k = int(rng.choice([1, 2, 3, 4], p=[0.45, 0.3, 0.17, 0.08]))
        chosen, used = [], set()
        for _ in range(k):
            cands = spin + [s for s in free if s not in used]
            if not cands:
                break
            s = cands[int(rng.integers(0, len(cands)))]
            cat = m.gm.catalog[s]
            so = cat[int(rng.integers(0, len(cat)))]
            chosen.append(so)
            used.add(s)
        # explicit identities inside the product
        if rng.random() < 0.3:
            for _ in range(int(rng.integers(1, 3))):
                cands = spin + [s for s in free if s not in used]
                if not cands:
                    break
                s = cands[int(rng.integers(0, len(cands)))]
                used.add(s)
                chosen.insert(int(rng.integers(0, len(chosen) + 1)), m.identity[s])
        return chosen

    def make_atom(self, siteops, factor, ftype=None):
        """Op built with the public constructor; qn given as arrays, lists or (when it is the default) omitted."""
        from renormalizer.model import Op
        m, rng = self.m, self.rng
        words, dofs, qns = [], [], []
        for so in siteops:
            words += [w.replace(r"b^\dagger+b", r"b^\dagger + b") for w in so.words]
            dofs += list(so.dofs)
            qns += [np.asarray(q).reshape(-1) for q in so.qns]
        default = [np.array([1]) if w == r"a^\dagger" else np.array([-1]) if w == "a" else np.array([0])
                   for w in words]
        r = rng.random()
        if m.qn_size == 1 and all(np.array_equal(a, b) for a, b in zip(qns, default)) and r < 0.3:
            qn = None
        elif r < 0.6:
            qn = [q.copy() for q in qns]
        elif m.qn_size == 1 and r < 0.8:
            qn = [int(q[0]) for q in qns]
        else:
            qn = [q.tolist() for q in qns]
        dof_arg = dofs
        if len(set(dofs)) == 1 and not isinstance(dofs[0], list) and rng.random() < 0.3:
            dof_arg = dofs[0]
        return self.lib("Op()", lambda: Op(" ".join(words), dof_arg, factor, qn=qn))

    # ---- calling the library -----------------------------------------------------------------------
    def lib(self, what, fn, unsupported=False):
        """Run one library operation.  Returns FAIL after a documented refusal or the known squeeze defect."""
        ctx = self.ctx
        try:
            return fn()
        except (CaseAbort, CaseTimeout):
            raise
        except Exception as e:  # noqa: BLE001  (AssertionError included on purpose)
            where = _innermost_repo_frame(e)
            msg = f"{type(e).__name__}: {str(e)[:140]}"
            if (isinstance(e, ValueError) and "ambiguous" in str(e) and where.endswith(":squeeze_identity")
                    and self.m.qn_size >= 2):
                if not self.squeeze_defect_seen:
                    ctx.violate(SQUEEZE_SIG, via=what, message=msg, qn_size=self.m.qn_size)
                    self.squeeze_defect_seen = True
                ctx.count("squeeze_defect_hits")
                return FAIL
            if unsupported and isinstance(e, TypeError):
                ctx.refuse(f"{what}: TypeError")
                return FAIL
            ctx.violate(f"{what}|raises|{type(e).__name__}@{where}", message=msg)
            raise CaseAbort() from e

    # ---- bookkeeping for a freshly computed value ----------------------------------------------------
    def check_value(self, what, v):
        """Result must be an Op or a list of Op; per-symbol quantum numbers must be those of the atoms."""
        from renormalizer.model import Op
        ctx, m = self.ctx, self.m
        k = kind_of(v)
        if k is None or (k != "op" and not all(isinstance(t, Op) for t in v)):
            ctx.violate(f"{what}|result-not-operator", got=type(v).__name__)
            raise CaseAbort()
        for t in terms_of(v):
            ctx.count("qn_terms_checked")
            if not (len(t.qn_list) == len(t.split_symbol) == len(t.dofs)):
                ctx.violate(f"{what}|qn-list-length", term=str(t))
                raise CaseAbort()
            for w, d, q in zip(t.split_symbol, t.dofs, t.qn_list):
                if w == "I":
                    want = m.zero_qn
                else:
                    key = (w, d)
                    if key in m.ambiguous:
                        continue
                    want = m.lookup.get(key)
                    if want is None:
                        ctx.violate(f"{what}|symbol-or-dof-not-from-operands", term=str(t), word=w, dof=repr(d))
                        raise CaseAbort()
                if not np.array_equal(np.asarray(q).reshape(-1), want):
                    ctx.violate(f"{what}|per-symbol-qn-changed", term=str(t), word=w, got=np.asarray(q).tolist(),
                                want=want.tolist())
                    raise CaseAbort()
        return k

    def denote(self, v):
        try:
            return self.m.denote(terms_of(v))
        except (CaseAbort, CaseTimeout):
            raise
        except Exception as e:  # noqa: BLE001
            # the harness generated a symbol the basis does not accept: the case says nothing about the algebra
            self.ctx.note_inconclusive(f"harness: cannot denote a term ({type(e).__name__}: {str(e)[:80]})")
            raise CaseAbort() from e

    def finish(self, what, v, want, T_in, R, B, children, expr, bins, extra_tol=0.0, sig=None):
        """Compare the dense matrix of the library's result with the matrix expression of its operands."""
        ctx = self.ctx
        kind = self.check_value(what, v)
        D, T = self.denote(v)
        ctx.count("oracle")
        ctx.cls(what)
        scale = max(T + T_in, 1e-300)
        err = float(np.linalg.norm(D - want))
        if not np.all(np.isfinite(D)):
            ctx.violate((sig or what) + "|nonfinite", expr=expr)
            raise CaseAbort()
        allowed = 1e-10 * scale + extra_tol
        ctx.metric_max("exact_err_over_allowed" if extra_tol == 0 else "simplify_err_over_allowed", err / allowed)
        if err > allowed:
            ctx.violate((sig or what) + "|dense-mismatch", err=err, allowed=allowed, scale=scale, expr=expr,
                        result=[str(t) for t in terms_of(v)[:8]])
            raise CaseAbort()
        terms = terms_of(v)
        val = Val(v=v, kind=kind, D=D, T=T, R=R, B=B,
                  locked=frozenset().union(*[c.locked for c in children]) if children else frozenset(),
                  nterms=len(terms), nwords=max([len(t.split_symbol) for t in terms], default=0), expr=expr, bins=bins,
                  depth=1 + max([c.depth for c in children], default=0))
        self.pool.append(val)
        return val

    # ---- leaves ------------------------------------------------------------------------------------
    def leaf(self, forbid, budget_terms, budget_words):
        rng, m, ctx = self.rng, self.m, self.ctx
        if self.pool and rng.random() < 0.22:
            cands = [p for p in self.pool if not (p.locked & forbid) and p.nterms <= budget_terms
                     and p.nwords <= budget_words and p.kind != "list"]
            if cands:
                ctx.cls("shared-subexpression")
                return cands[int(rng.integers(0, len(cands)))]
        siteops = self.pick_siteops(forbid)
        if siteops is None:
            return None
        while sum(len(so.words) for so in siteops) > budget_words and len(siteops) > 1:
            siteops.pop()
        if sum(len(so.words) for so in siteops) > budget_words:
            return None
        if rng.random() < 0.12 and budget_terms >= 2:
            return self.cancelling_pair(siteops, forbid)
        if rng.random() < 0.08 and budget_terms >= 2:
            return self.repeated_term(siteops, forbid, budget_terms)
        return self.atom(siteops)

    def repeated_term(self, siteops, forbid, budget_terms):
        """The same term k times with one (often small) coefficient: merged by simplify into k*c."""
        rng = self.rng
        c = self.rand_factor_value(allow_complex=bool(rng.random() < 0.3))
        if rng.random() < 0.5:
            c = c * float(10.0 ** rng.uniform(-6, -2))
        k = int(rng.integers(2, max(3, min(6, budget_terms) + 1)))
        acc = self.atom(siteops, c)
        for _ in range(k - 1):
            twin = list(siteops)
            if rng.random() < 0.3:
                used = {so.site for so in siteops}
                cands = [s for s in range(self.m.n) if s in self.m.spin or (s not in used and s not in forbid)]
                if cands:
                    s_ = cands[int(rng.integers(0, len(cands)))]
                    twin.insert(int(rng.integers(0, len(twin) + 1)), self.m.identity[s_])
            acc = self.binary("add", acc, self.atom(twin, c))
        self.ctx.cls("repeated-term")
        return acc

    def atom(self, siteops, factor=None):
        rng, m, ctx = self.rng, self.m, self.ctx
        if factor is None:
            factor = self.rand_factor_value()
            r = rng.random()
            if r < 0.1 and not isinstance(factor, complex):
                factor = int(np.sign(factor) * max(1, round(abs(factor))))
            elif r < 0.25:
                factor = np.complex128(factor) if isinstance(factor, complex) else np.float64(factor)
        op = self.make_atom(siteops, factor)
        name = f"a{len(self.atoms)}"
        self.atoms.append([name, op.symbol, [repr(d) for d in op.dofs], factor])
        sites = [so.site for so in siteops]
        if len(set(sites)) < len(sites) or any(len(set(so.dofs)) < len(so.dofs) for so in siteops):
            ctx.cls("repeated-dof")
        if len(set(sites)) >= 2:
            ctx.cls("multi-site-symbol")
        if any(so.words == ["I"] for so in siteops) and len(siteops) >= 2:
            ctx.cls("identity-in-product")
        if any(s in m.multi_dof for s in sites):
            ctx.cls("multi-dof-site")
        R = complex(factor) * m.siteops_matrix(siteops)
        B = float(np.linalg.norm(R))
        self.check_value("Op()", op)
        D, T = self.denote(op)
        if float(np.linalg.norm(D - R)) > 1e-12 * max(T, B, 1e-300):
            ctx.note_inconclusive("harness: atom denotation differs from the catalogue matrices")
            raise CaseAbort()
        val = Val(v=op, kind="op", D=D, T=T, R=R, B=B, locked=frozenset(s for s in sites if s not in m.spin),
                  nterms=1, nwords=len(op.split_symbol), expr=name, bins=(), depth=0)
        self.pool.append(val)
        return val

    def cancelling_pair(self, siteops, forbid):
        """c*A + (-c + delta)*A: merged by simplify into a small or zero term."""
        rng = self.rng
        c = self.rand_factor_value(allow_complex=False)
        delta = float(rng.choice([0.0, 1e-9, 1e-4, 1e-2])) * abs(c)
        a = self.atom(siteops, c)
        twin = list(siteops)
        if rng.random() < 0.4:
            # the same operator written with an explicit identity: equal to `a` only after squeeze_identity
            used = {so.site for so in siteops}
            cands = [s for s in range(self.m.n) if s in self.m.spin or (s not in used and s not in forbid)]
            if cands:
                s = cands[int(rng.integers(0, len(cands)))]
                twin.insert(int(rng.integers(0, len(twin) + 1)), self.m.identity[s])
                self.ctx.cls("identity-twin")
        b = self.atom(twin, -c + delta)
        self.ctx.cls("cancelling-pair")
        return self.binary("add", a, b)

    # ---- operand preparation -------------------------------------------------------------------------
    def operands(self, opname, L, R):
        """Choose the Python objects handed to the operator: OpSum as it is or as a plain list."""
        from renormalizer.model import OpSum
        rng = self.rng
        lv, rv, le, re_ = L.v, R.v, L.expr, R.expr
        lk, rk = L.kind, R.kind
        if lk == "sum" and rng.random() < 0.15:
            lv, lk, le = list(lv), "list", f"list({le})"
        if rk == "sum" and rng.random() < 0.25:
            rv, rk, re_ = list(rv), "list", f"list({re_})"
        if lk == "list" and rk == "list":
            lv, lk, le = OpSum(lv), "sum", f"OpSum({le})"
        if "list" in (lk, rk) and (opname, lk, rk) not in SUPPORTED_LIST and rng.random() > 0.12:
            if lk == "list":
                lv, lk, le = OpSum(lv), "sum", f"OpSum({le})"
            if rk == "list":
                rv, rk, re_ = OpSum(rv), "sum", f"OpSum({re_})"
        return lv, lk, le, rv, rk, re_

    # ---- nodes -------------------------------------------------------------------------------------
    def binary(self, opname, L, R):
        from renormalizer.model import OpSum
        sym = {"add": "+", "sub": "-", "iadd": "+=", "mul": "*"}[opname]
        lv, lk, le, rv, rk, re_ = self.operands(opname, L, R)
        for attempt in range(2):
            what = f"{opname}|{lk}{sym}{rk}"
            unsupported = "list" in (lk, rk) and (opname, lk, rk) not in SUPPORTED_LIST
            if opname == "add":
                res = self.lib(what, lambda: lv + rv, unsupported)
            elif opname == "sub":
                res = self.lib(what, lambda: lv - rv, unsupported)
            elif opname == "mul":
                res = self.lib(what, lambda: lv * rv, unsupported)
            else:
                def run():
                    x = OpSum(list(lv)) if lk == "sum" else (list(lv) if lk == "list" else lv)
                    x += rv
                    return x
                res = self.lib(what, run, unsupported)
            if res is not FAIL:
                break
            if not unsupported:
                raise CaseAbort()
            # documented refusal: continue with the supported spelling of the same expression
            if lk == "list":
                lv, lk, le = OpSum(lv), "sum", f"OpSum({le})"
            if rk == "list":
                rv, rk, re_ = OpSum(rv), "sum", f"OpSum({re_})"
        if opname in ("add", "iadd"):
            want, T_in, Rm, B = L.D + R.D, L.T + R.T, L.R + R.R, L.B + R.B
        elif opname == "sub":
            want, T_in, Rm, B = L.D - R.D, L.T + R.T, L.R - R.R, L.B + R.B
        else:
            want, T_in, Rm, B = L.D @ R.D, L.T * R.T, L.R @ R.R, L.B * R.B
        expr = f"({le} {sym} {re_})"
        return self.finish(what, res, want, T_in, Rm, B, [L, R], expr, L.bins + R.bins + (opname,))

    def as_sum(self, X):
        """OpSum view of a value (plain lists are wrapped with the public constructor)."""
        from renormalizer.model import OpSum
        if X.kind == "list":
            return OpSum(X.v), "sum", f"OpSum({X.expr})"
        return X.v, X.kind, X.expr

    def smul(self, X):
        xv, xk, xe = self.as_sum(X)
        s, st = self.rand_scalar()
        c = complex(s)
        if self.rng.random() < 0.5:
            what, side = f"smul|{st}*{xk}", "smul|left"
            res = self.lib(what, lambda: s * xv)
            expr = f"({fmt_scalar(s, st)} * {xe})"
        else:
            what, side = f"smul|{xk}*{st}", "smul|right"
            res = self.lib(what, lambda: xv * s)
            expr = f"({xe} * {fmt_scalar(s, st)})"
        self.ctx.cls(side)
        return self.finish(what, res, c * X.D, abs(c) * X.T, c * X.R, abs(c) * X.B, [X], expr, X.bins + ("smul",))

    def div(self, X):
        xv, xk, xe = self.as_sum(X)
        s, st = self.rand_scalar(nonzero=True)
        c = complex(s)
        what = f"div|{xk}/{st}"
        expr = f"({xe} / {fmt_scalar(s, st)})"
        res = self.lib(what, lambda: xv / s, unsupported=(xk == "op"))
        if res is FAIL:
            if xk != "op":
                raise CaseAbort()
            what = f"smul|op*(1/{st})"
            res = self.lib(what, lambda: xv * (1 / s))
            expr = f"({xe} * (1 / {fmt_scalar(s, st)}))"
        else:
            self.ctx.cls("div|" + xk)
        return self.finish(what, res, X.D / c, X.T / abs(c), X.R / c, X.B / abs(c), [X], expr, X.bins + ("div",))

    def neg(self, X):
        xv, xk, xe = self.as_sum(X)
        what = f"neg|{xk}"
        res = self.lib(what, lambda: -xv)
        return self.finish(what, res, -X.D, X.T, -X.R, X.B, [X], f"(-{xe})", X.bins)

    def add_zero(self, X):
        if X.kind != "op":
            return X
        r = int(self.rng.integers(0, 6))
        z, zs = [(0, "0"), (0.0, "0.0"), (np.array(0), "np.array(0)"), (np.float64(0), "np.float64(0.0)"),
                 (0, "0"), (0.0, "0.0")][r]
        if r % 2 == 0:
            res, expr, what = self.lib("add|op+0", lambda: X.v + z), f"({X.expr} + {zs})", "add|op+0"
        else:
            res, expr, what = self.lib("add|0+op", lambda: z + X.v), f"({zs} + {X.expr})", "add|0+op"
        return self.finish(what, res, X.D, X.T, X.R, X.B, [X], expr, X.bins)

    def builtin_sum(self, items):
        """sum([Op, Op, ...]) with the builtin (0 + Op, then OpSum + Op)."""
        what = "add|builtin-sum"
        res = self.lib(what, lambda: sum([x.v for x in items]))
        want = sum(x.D for x in items)
        expr = "sum([" + ", ".join(x.expr for x in items) + "])"
        bins = sum((x.bins for x in items), ()) + ("add",) * (len(items) - 1)
        return self.finish(what, res, want, sum(x.T for x in items), sum(x.R for x in items),
                           sum(x.B for x in items), items, expr, bins)

    def product(self, items):
        from renormalizer.model import Op, OpSum
        vals = [self.as_sum(x) for x in items]
        if all(k == "op" for _, k, _ in vals) and self.rng.random() < 0.6:
            what, cname = "Op.product", "Op.product"
            res = self.lib(what, lambda: Op.product([v for v, _, _ in vals]))
        else:
            what, cname = "OpSum.product", "OpSum.product"
            res = self.lib(what, lambda: OpSum.product([v for v, _, _ in vals]))
        want, Rm, T_in, B = items[0].D, items[0].R, items[0].T, items[0].B
        for x in items[1:]:
            want, Rm, T_in, B = want @ x.D, Rm @ x.R, T_in * x.T, B * x.B
        expr = f"{cname}([" + ", ".join(e for _, _, e in vals) + "])"
        bins = sum((x.bins for x in items), ()) + (("product",) if len(items) > 1 else ())
        return self.finish(what, res, want, T_in, Rm, B, items, expr, bins)

    def squeeze(self, X):
        from renormalizer.model import OpSum
        xv, xk, xe = self.as_sum(X)
        what = "squeeze_identity"
        if xk == "op":
            res = self.lib(what, lambda: xv.squeeze_identity())
            expr = f"{xe}.squeeze_identity()"
        else:
            res = self.lib(what, lambda: OpSum([t.squeeze_identity() for t in xv]))
            expr = f"OpSum([t.squeeze_identity() for t in {xe}])"
        if res is FAIL:
            return X
        return self.finish(what, res, X.D, X.T, X.R, X.B, [X], expr, X.bins)

    def simplify(self, X):
        from renormalizer.model import OpSum
        m, ctx, rng = self.m, self.ctx, self.rng
        if X.kind == "op":
            xv, xe = OpSum([X.v]), f"OpSum([{X.expr}])"
        elif X.kind == "list":
            xv, xe = OpSum(X.v), f"OpSum({X.expr})"
        else:
            xv, xe = X.v, X.expr
        r = rng.random()
        if r < 0.35:
            atol, what, expr = 0.0, "simplify|atol=0", f"{xe}.simplify()"
            res = self.lib(what, lambda: xv.simplify())
        else:
            atol = float(rng.choice([0.0, 1e-12, 1e-6, 1e-3, 0.1, 1.0])) if r < 0.7 else float(10.0 ** rng.uniform(-14, 1))
            if len(xv) and rng.random() < 0.45:
                # a tolerance a little above the coefficient of one of the terms: that term alone is "zero", two of them are not
                f0 = abs(complex(xv[int(rng.integers(0, len(xv)))].factor))
                if f0 > 0:
                    atol = float(f0 * rng.uniform(1.05, 1.9))
                    ctx.cls("simplify|atol-just-above-a-coefficient")
            what = "simplify|atol=0" if atol == 0 else "simplify|atol>0"
            expr = f"{xe}.simplify(atol={atol!r})"
            res = self.lib(what, lambda: xv.simplify(atol=atol))
        if res is FAIL:
            return X
        max_unit = max([m.unit(t)[1] for t in xv], default=0.0)
        extra = len(xv) * atol * max_unit
        n_before = len(xv)
        val = self.finish(what, res, X.D, X.T, X.R, X.B, [X], expr, X.bins, extra_tol=extra)
        # the documented result, term by term: "group same terms by adding them together, and finally remove terms close to
        # zero" - groups are the terms that agree in their non-identity (symbol, DoF) words in order
        # (a pure identity is kept as 'I' on its first DoF - the documented result of squeeze_identity - so constants written on
        # different DoFs are different terms)
        def key_of(t):
            words = [(w, repr(d)) for w, d in zip(t.split_symbol, t.dofs) if w != "I"]
            return tuple(words) if words else (("I", repr(t.dofs[0])),)
        groups = {}
        members = {}
        for t in xv:
            key = key_of(t)
            g = groups.setdefault(key, [0j, t])
            g[0] += complex(t.factor)
            members.setdefault(key, []).append(abs(complex(t.factor)))
        doc = np.zeros_like(X.D)
        amb = 0.0
        for key, (c, t0) in groups.items():
            u, nu = m.unit(t0)
            if abs(abs(c) - atol) <= 1e-9 * max(atol, abs(c)):
                amb += abs(c) * nu       # on the edge of the tolerance: either decision is fine
                doc = doc + 0.5 * c * u
                amb -= 0.5 * abs(c) * nu
            elif abs(c) > atol:
                doc = doc + c * u
        if any(0 < abs(c) <= atol < sum(members[key]) for key, (c, _t) in groups.items()):
            ctx.cls("simplify|group-cancels-below-atol")
        if atol > 0 and any(abs(c) > atol and max(members[key]) <= atol for key, (c, _t) in groups.items()):
            ctx.cls("simplify|small-terms-add-up-above-atol")
        ctx.count("oracle")
        ctx.count("simplify_exact_checks")
        dd = float(np.linalg.norm(val.D - doc))
        if dd > 1e-10 * max(X.T, 1e-300) + amb:
            ctx.violate(what + "|differs-from-documented-grouping-then-thresholding", err=dd, atol=atol, expr=expr,
                        groups=[[list(k), complex(c)] for k, (c, _t) in list(groups.items())[:8]],
                        result=[str(t) for t in terms_of(res)[:8]])
            raise CaseAbort()
        if len(res) < n_before:
            ctx.cls("simplify|merged")
        dev = float(np.linalg.norm(val.D - X.D))
        if dev > 1e-12 * max(X.T, 1e-300):
            ctx.cls("simplify|lossy")
            ctx.metric_max("simplify_dev_over_allowed", dev / max(extra, 1e-300))
            # a lossy step restarts the atom-only reference from the (checked) denotation of the result
            val.R, val.B = val.D.copy(), max(val.T, extra)
        return val

    # ---- recursive generation --------------------------------------------------------------------------
    def build(self, depth, forbid, bt, bw):
        """Generate and evaluate a sub-expression with at most `bt` terms and `bw` symbols per term that touches no
        non-spin site in `forbid`.  Returns None when no atom can be placed."""
        rng = self.rng
        if depth <= 0 or bt < 2 or rng.random() < 0.12:
            return self.leaf(forbid, bt, bw)
        kinds = ["add", "sub", "iadd", "mul", "smul", "div", "neg", "product", "squeeze", "simplify", "addzero", "bsum"]
        p = np.array([0.19, 0.12, 0.08, 0.22, 0.10, 0.05, 0.04, 0.07, 0.03, 0.06, 0.02, 0.02])
        kind = kinds[int(rng.choice(len(kinds), p=p / p.sum()))]
        if kind in ("add", "sub", "iadd"):
            L = self.build(depth - 1, forbid, max(1, bt // 2), bw)
            if L is None:
                return None
            R = self.build(depth - 1, forbid, max(1, bt - L.nterms), bw)
            if R is None:
                return L
            if kind == "iadd" and L.kind == "list":
                kind = "add"
            return self.binary(kind, L, R)
        if kind == "mul":
            L = self.build(depth - 1, forbid, max(1, int(np.sqrt(bt))), max(1, bw // 2))
            if L is None:
                return None
            R = self.build(depth - 1, forbid | L.locked, max(1, bt // max(1, L.nterms)), max(1, bw - L.nwords))
            if R is None:
                return self.smul(L)
            return self.binary("mul", L, R)
        if kind == "product":
            n = int(rng.integers(1, 4))
            items, fb, t_left, w_left = [], set(forbid), bt, bw
            for i in range(n):
                share_t = max(1, int(round(t_left ** (1.0 / (n - i)))))
                X = self.build(depth - 1, frozenset(fb), share_t, max(1, w_left // (n - i)))
                if X is None:
                    break
                items.append(X)
                fb |= X.locked
                t_left = max(1, t_left // max(1, X.nterms))
                w_left = max(1, w_left - X.nwords)
            if not items:
                return None
            return self.product(items)
        if kind == "bsum":
            items = []
            for _ in range(int(rng.integers(2, 5))):
                if len(items) >= bt:
                    break
                siteops = self.pick_siteops(forbid)
                if siteops is None:
                    break
                while sum(len(so.words) for so in siteops) > bw and len(siteops) > 1:
                    siteops.pop()
                if sum(len(so.words) for so in siteops) > bw:
                    break
                items.append(self.atom(siteops))
            if not items:
                return None
            return self.builtin_sum(items)
        X = self.build(depth - 1, forbid, bt, bw)
        if X is None:
            return None
        if kind == "smul":
            return self.smul(X)
        if kind == "div":
            return self.div(X)
        if kind == "neg":
            return self.neg(X)
        if kind == "squeeze":
            return self.squeeze(X)
        if kind == "simplify":
            return self.simplify(X)
        return self.add_zero(X)


# ------------------------------------------------------------------------------------------- eq / hash laws
def check_pair(ctx, route, x, y, expect_equal=True):
    """== must be symmetric, reflexive, consistent with != and with hash; routed pairs must be equal."""
    from renormalizer.model import Op
    ctx.count("eq_pairs")
    try:
        e1, e2 = (x == y), (y == x)
        ne = (x != y)
        rx, ry = (x == x), (y == y)
    except Exception as e:  # noqa: BLE001
        ctx.violate(f"eq|raises|{type(e).__name__}@{_innermost_repo_frame(e)}", route=route, message=str(e)[:120])
        return False
    ok = ctx.check(isinstance(e1, bool) and isinstance(e2, bool), "eq|not-a-bool", route=route)
    ok &= ctx.check(e1 == e2, "eq|asymmetric", route=route, x=str(x), y=str(y))
    ok &= ctx.check(bool(ne) == (not e1), "eq|ne-inconsistent", route=route, x=str(x), y=str(y))
    ok &= ctx.check(rx and ry, "eq|not-reflexive", route=route, x=str(x), y=str(y))
    if expect_equal:
        ok &= ctx.check(bool(e1), f"eq|routes-differ|{route}", x=str(x), y=str(y))
    if e1:
        xs, ys = (([x], [y]) if isinstance(x, Op) else (list(x), list(y)))
        for a, b in zip(xs, ys):
            ha, hb = hash(a), hash(b)
            ok &= ctx.check(ha == hb, "hash|equal-ops-hash-differently", route=route, x=str(a), y=str(b))
            ok &= ctx.check(hash(a) == ha, "hash|unstable", route=route)
            ok &= ctx.check(len({a, b}) == 1 and (a in {b: 1}), "hash|set-keeps-equal-ops-apart", route=route,
                            x=str(a), y=str(b))
    return ok


def eq_routes(ctx, bld):
    """Pairs built to be equal by different routes; all factors dyadic so that float arithmetic is exact."""
    from renormalizer.model import Op, OpSum
    m, rng = bld.m, bld.rng
    DY = [0.5, 2.0, -1.0, 3.0, 0.25, -1.5, 4.0]
    KS = [2, 3, -1, 4, -2]

    def words_of(siteops):
        words, dofs, qns = [], [], []
        for so in siteops:
            words += [w.replace(r"b^\dagger+b", r"b^\dagger + b") for w in so.words]
            dofs += list(so.dofs)
            qns += [np.asarray(q).reshape(-1) for q in so.qns]
        return " ".join(words), dofs, qns

    def mk(siteops, f):
        s, d, q = words_of(siteops)
        return Op(s, d, f, qn=[x.copy() for x in q])

    # three mutually multipliable single-site operators (non-identity where possible)
    picks, fb = [], set()
    for _ in range(3):
        so = None
        for _try in range(6):
            cand = bld.pick_siteops(frozenset(fb))
            if cand is None:
                break
            cand = [c for c in cand if "I" not in c.words][:1]
            if cand:
                so = cand[0]
                break
        if so is None:
            break
        picks.append(so)
        if so.site not in m.spin:
            fb.add(so.site)
    if not picks:
        return
    ctx.cls("eq-routes")
    A = picks[0]
    f, g, h = (float(rng.choice(DY)) for _ in range(3))
    k = int(rng.choice(KS))
    routes = ["ctor-factor-type", "scalar-mul-vs-ctor", "qn-container", "dof-scalar-vs-list", "neg", "sub", "div",
              "iadd", "product-routes", "distributive", "squeeze", "simplify-merge", "unequal", "identity-ctor"]
    chosen = [routes[i] for i in rng.choice(len(routes), size=4, replace=False)]

    def guarded(route, fn):
        """Build the pairs of one route; library exceptions are classified like everywhere else."""
        res = bld.lib(f"eq-route|{route}", fn)
        return [] if res is FAIL else res

    for route in chosen:
        ctx.count("eq_routes")
        if route == "ctor-factor-type":
            ref = mk([A], float(k))
            pairs = [(mk([A], t), ref) for t in (k, np.int64(k), np.float64(k), complex(k, 0), np.complex128(k))]
        elif route == "scalar-mul-vs-ctor":
            def fn():
                one, ref = mk([A], 1.0), mk([A], float(k))
                out = [(one * k, ref), (k * one, ref), (one * np.int64(k), ref), (np.int64(k) * one, ref),
                       (one * np.float64(k), ref), (np.float64(k) * one, ref), (one * complex(k), ref),
                       (np.complex128(k) * one, ref), (mk([A], f) * g, mk([A], f * g)), (g * mk([A], f), mk([A], f * g))]
                return out
            pairs = guarded(route, fn)
        elif route == "qn-container":
            s, d, q = words_of([A])
            ref = Op(s, d, f, qn=[x.copy() for x in q])
            pairs = [(Op(s, d, f, qn=[x.tolist() for x in q]), ref), (Op(s, d, f, qn=[tuple(x.tolist()) for x in q]), ref)]
            if m.qn_size == 1:
                pairs.append((Op(s, d, f, qn=[int(x[0]) for x in q]), ref))
                pairs.append((Op(s, d, f, qn=[np.int64(x[0]) for x in q]), ref))
                if len(q) == 1:
                    pairs.append((Op(s, d, f, qn=int(q[0][0])), ref))
            if len(q) == 1:
                pairs.append((Op(s, d, f, qn=q[0].copy()), ref))
        elif route == "identity-ctor":
            def fn():
                z = np.zeros(m.qn_size, dtype=int)
                d0 = m.identity[int(rng.integers(0, m.n))].dofs[0]
                d1 = m.identity[int(rng.integers(0, m.n))].dofs[0]
                out = [(Op.identity(d0, qn_size=m.qn_size, factor=f), Op("I", d0, f, qn=[z])),
                       (Op.identity([d0, d1], qn_size=m.qn_size, factor=f), Op("I I", [d0, d1], f, qn=[z, z])),
                       (Op.identity([d0, d1], qn_size=m.qn_size, factor=f).squeeze_identity(), Op("I", d0, f, qn=[z]))]
                if m.qn_size == 1:
                    out.append((Op.identity(d0, factor=f), Op("I", d0, f)))
                return out
            pairs = guarded(route, fn)
        elif route == "dof-scalar-vs-list":
            s, d, q = words_of([A])
            if len(set(d)) != 1:
                continue
            pairs = [(Op(s, d[0], f, qn=[x.copy() for x in q]), Op(s, list(d), f, qn=[x.copy() for x in q]))]
        elif route == "neg":
            def fn():
                a = mk([A], f)
                out = [(-(-a), a), (a * -1, -a), (-1 * a, -a), (-a, mk([A], -f))]
                if len(picks) > 1:
                    b = mk([picks[1]], g)
                    out += [(-(a + b), (-a) + (-b)), (-(a + b), (a + b) * -1)]
                return out
            pairs = guarded(route, fn)
        elif route == "sub":
            if len(picks) < 2:
                continue

            def fn():
                a, b = mk([A], f), mk([picks[1]], g)
                c = mk([picks[-1]], h)
                return [(a - b, a + (-b)), ((a + b) - c, a + b + (-c)), ((a + b) - (c + a), (a + b) + (-(c + a))),
                        (a - (b + c), a + (-b) + (-c)), (a - b, OpSum([a, mk([picks[1]], -g)]))]
            pairs = guarded(route, fn)
        elif route == "div":
            if len(picks) < 2:
                continue

            def fn():
                a, b = mk([A], f), mk([picks[1]], g)
                return [((a + b) / 2, (a + b) * 0.5), ((a + b) / np.int64(4), (a + b) * 0.25),
                        ((a + b) / 0.5, 2 * (a + b)), ((a + b) / np.float64(2.0), OpSum([mk([A], f / 2), mk([picks[1]], g / 2)])),
                        ((a + b) / complex(2, 0), (a + b) * 0.5)]
            pairs = guarded(route, fn)
        elif route == "iadd":
            if len(picks) < 2:
                continue

            def fn():
                a, b = mk([A], f), mk([picks[1]], g)
                c = mk([picks[-1]], h)
                s1 = a + b
                s1 += c
                s2 = a + b
                s2 += [c, a]
                s3 = a + b
                s3 += (c + a)
                s4 = a
                s4 += b
                s5 = s1.copy()
                s5 += a
                return [(s1, a + b + c), (s2, a + b + c + a), (s3, s2), (s4, a + b), (s1, OpSum([a, b, c])),
                        (s5, s2), (s1.copy(), s1)]
            pairs = guarded(route, fn)
        elif route == "product-routes":
            if len(picks) < 2:
                continue

            def fn():
                a, b = mk([A], f), mk([picks[1]], g)
                c = mk([picks[-1]], h) if len(picks) > 2 else mk([picks[1]], h) if picks[1].site in m.spin else None
                out = [(a * b, mk([A, picks[1]], f * g)), (Op.product([a, b]), a * b), (OpSum.product([a, b]), a * b)]
                if c is not None:
                    last = picks[-1] if len(picks) > 2 else picks[1]
                    out += [((a * b) * c, a * (b * c)), (Op.product([a, b, c]), (a * b) * c),
                            (OpSum.product([a, b, c]), a * (b * c)), ((a * b) * c, mk([A, picks[1], last], f * g * h))]
                return out
            pairs = guarded(route, fn)
        elif route == "distributive":
            if len(picks) < 3:
                continue

            def fn():
                a, b, c = mk([picks[0]], f), mk([picks[1]], g), mk([picks[2]], h)
                return [((a + b) * c, a * c + b * c), (c * (a + b), c * a + c * b), ([a, b] * c, (a + b) * c),
                        (c * [a, b], c * (a + b)), ((a + b) * [c], (a + b) * c), ((a + b) * (c + c), OpSum([a * c, a * c, b * c, b * c])),
                        (k * (a + b), (a + b) * k), (np.float64(f) * (a + b), (a + b) * f)]
            pairs = guarded(route, fn)
        elif route == "squeeze":
            ids = [s for s in m.identity if s in m.spin or s != A.site]
            if not ids:
                continue

            def fn():
                iso = m.identity[ids[int(rng.integers(0, len(ids)))]]
                seq = [A]
                seq.insert(int(rng.integers(0, 2)), iso)
                return [(mk(seq, f).squeeze_identity(), mk([A], f)), (mk([A], f).squeeze_identity(), mk([A], f)),
                        (OpSum([mk(seq, f)]).simplify(), OpSum([mk([A], f)]))]
            pairs = guarded(route, fn)
        elif route == "simplify-merge":
            def fn():
                a = mk([A], f)
                out = [((a + a).simplify(), OpSum([mk([A], 2 * f)])), ((a - a).simplify(), OpSum()),
                       ((a + a * 0).simplify(), OpSum([a]))]
                if len(picks) > 1 and (picks[1].symbol, picks[1].dofs) != (A.symbol, A.dofs):
                    b = mk([picks[1]], g)
                    out.append((set((a + b + a).simplify()), {mk([A], 2 * f), b}))
                    out.append((set((a + b - b).simplify(atol=0.0)), {a}))
                return out
            pairs = guarded(route, fn)
        else:
            a = mk([A], f)
            others = [mk([A], f * 2), mk([A], -f)]
            if len(picks) > 1:
                others.append(mk([picks[1]], f))
            # same symbol, DoFs and factor, different quantum numbers: == and hash must still agree
            sA, dA, qA = words_of([A])
            others.append(Op(sA, dA, f, qn=[x + 1 for x in qA]))
            others.append(Op(sA, dA, f, qn=[qA[0] - 2] + [x.copy() for x in qA[1:]]))
            for o in others:
                check_pair(ctx, "unequal", a, o, expect_equal=False)
            continue
        # squeeze_identity / simplify re-join the symbol from its elementary words, which spells the SHO symbol
        # 'b^\dagger + b' as 'b^\dagger+b': same operator, structurally a different Op.  Equality of such pairs is
        # not demanded (the property asks for == and hash to agree with each other, which is still checked).
        respelled = route in ("squeeze", "simplify-merge") and any(r"b^\dagger+b" in so.words for so in picks)
        if respelled:
            ctx.count("respelled_b_dagger_plus_b")
        for x, y in pairs:
            if isinstance(x, set):
                ctx.count("eq_pairs")
                if not respelled:
                    ctx.check(x == y, f"eq|routes-differ|{route}", x=sorted(map(str, x)), y=sorted(map(str, y)))
            else:
                check_pair(ctx, route, x, y, expect_equal=not respelled)


def root_term_laws(ctx, v):
    """==/hash laws over the terms the expression produced (duplicates occur naturally)."""
    terms = terms_of(v)[:24]
    n = 0
    for i, a in enumerate(terms):
        for b in terms[i:]:
            n += 1
            if n > 120:
                return
            check_pair(ctx, "root-terms", a, b, expect_equal=False)


# ------------------------------------------------------------------------------------------- model front end
def check_operator_terms(ctx, bld, root):
    """Model(...).ham_terms ravels OpSum, drops zero factors and must denote the same operator."""
    from renormalizer.model import Model, Op, OpSum
    m, rng = bld.m, bld.rng
    ctx.cls("check_operator_terms")
    rv = OpSum(root.v) if root.kind == "list" else root.v
    parts, want, T = [rv], root.D.copy(), root.T
    style = int(rng.integers(0, 3))
    if style == 0 and root.kind != "op":
        terms = rv                      # the OpSum itself is the term list
    else:
        extra = [p for p in bld.pool if p.kind in ("op", "sum")]
        for p in (extra[: int(rng.integers(0, 3))] if style == 2 else []):
            parts.append(p.v)
            want, T = want + p.D, T + p.T
        if rng.random() < 0.3:
            z = Op("I", m.identity[0].dofs[0], 0.0, qn=[np.zeros(m.qn_size, dtype=int)])
            parts.append(z)
            ctx.cls("zero-factor-term")
        terms = parts
    model = bld.lib("Model(ham_terms)", lambda: Model(list(m.basis), terms))
    ham = model.ham_terms
    if not ctx.check(all(isinstance(t, Op) for t in ham), "check_operator_terms|not-ravelled"):
        return
    ctx.check(all(t.factor != 0 for t in ham), "check_operator_terms|zero-factor-kept")
    D, T2 = bld.denote(OpSum(ham))
    ctx.count("oracle")
    err = float(np.linalg.norm(D - want))
    if err > 1e-10 * max(T + T2, 1e-300):
        ctx.violate("check_operator_terms|dense-mismatch", err=err, scale=T + T2, expr=root.expr)
    # validation: a DoF outside the basis and a non-Op entry must be rejected with the documented ValueError
    if rng.random() < 0.25:
        ctx.count("validation_probes")
        bad = [Op("I", ("__not_a_dof__", 0), 1.0, qn=[np.zeros(m.qn_size, dtype=int)]), [root.v] if root.kind == "op" else list(rv)]
        for what, b in zip(("unknown-dof", "nested-plain-list"), bad):
            try:
                Model(list(m.basis), [rv, b] if root.kind == "op" else [b])
            except ValueError:
                continue
            except Exception as e:  # noqa: BLE001
                ctx.violate(f"check_operator_terms|{what}|raises|{type(e).__name__}", message=str(e)[:120])
                continue
            ctx.violate(f"check_operator_terms|{what}-accepted")


# -------------------------------------------------------------------------------------------------- case
def run_case(ctx):
    from renormalizer.model import OpSum
    rng = ctx.rng
    m = _model(ctx)
    ctx.cls("qn-" + m.mode)
    bld = Builder(ctx, m)
    root = None
    try:
        depth = int(rng.choice([1, 2, 3, 4, 5], p=[0.06, 0.2, 0.3, 0.26, 0.18]))
        for _ in range(4):
            root = bld.build(depth, frozenset(), MAX_TERMS, MAX_WORDS)
            if root is not None:
                break
        if root is None:
            ctx.note_inconclusive("harness: no expression could be generated")
            return
        if rng.random() < 0.4 and ".simplify(" not in root.expr[-30:]:
            root = bld.simplify(root)
        # root against the reference computed from the catalogue matrices of the atoms alone
        ctx.count("end_to_end")
        err = float(np.linalg.norm(root.D - root.R))
        allowed = 1e-9 * max(root.B + root.T, 1e-300)
        ctx.metric_max("end_to_end_err_over_allowed", err / allowed)
        if err > allowed:
            ctx.violate("end-to-end|dense-mismatch", err=err, allowed=allowed, expr=root.expr)
        # the cached denotation is the one of rv.dense.op_dense
        if rng.random() < 0.2:
            ref = dense.op_dense(m.basis, terms_of(root.v))
            if float(np.linalg.norm(ref - root.D)) > 1e-12 * max(root.T, 1e-300):
                ctx.note_inconclusive("harness: cached denotation differs from rv.dense.op_dense")
        root_term_laws(ctx, root.v)
        if rng.random() < 0.45:
            check_operator_terms(ctx, bld, root)
        eq_routes(ctx, bld)
        # non-Op comparison: outside the property (== is only defined between symbolic operators); recorded
        if rng.random() < 0.02 and terms_of(root.v):
            try:
                _ = terms_of(root.v)[0] == 3
            except AttributeError:
                ctx.refuse("Op == <non-Op>: AttributeError (no to_tuple)")
            except Exception:  # noqa: BLE001
                pass
        nbin = len(root.bins)
        ctx.metrics["binary_nodes"] = nbin
        if nbin >= 2 and len(set(root.bins)) >= 2:
            ctx.nontrivial({"model": m.gm.describe(), "atoms": bld.atoms, "expr": root.expr})
    finally:
        ctx.describe({"model": m.gm.describe(), "atoms": bld.atoms[:24],
                      "expr": (root.expr if root is not None else (bld.pool[-1].expr if bld.pool else None)),
                      "result_terms": (len(terms_of(root.v)) if root is not None else None)})
