"""C20 - bipartite vertex cover is valid and minimum; operator bonds built with the graph algorithms are minimal."""
import numpy as np

from rv import dense, gen, monitors

ID = "C20"
LEVEL = "exploration"
RULE = ("O1: every labelled bipartite graph with |U| in 1..4 and V indices < 4 (all 2^(4|U|) incidence matrices, "
        "69904 graphs incl. the empty graph, isolated vertices, empty/complete rows; quick tier: |U|<=3 exhaustive and "
        "|U|=4 sampled) and random graphs up to 40x40, both algorithms: cover touches every edge and its size equals "
        "the maximum matching (harness Kuhn matching, cross-checked by a bitmask brute force for |U|<=10). "
        "O2: hook on _decompose_graph: #output operators of every construction step == maximum matching of the "
        "step's incidence matrix. O3: Mpo(..., algo in {Hopcroft-Karp, Hungarian}).bond_dims[cut] == minimum cover "
        "of the harness's own deduplicated term table at every cut and <= #distinct left/right partial terms. "
        "Non-trivial: graph/cut with >= 1 edge whose minimum cover is smaller than both sides; distinct by "
        "(|U|, incidence matrix) resp. (table, cut).")
ASSUMPTIONS = [
    "adjacency-list input: |V| is implied by the largest index, so trailing isolated V vertices are not representable; "
    "missing trailing entries of a returned table count as 'not selected'",
    "a graph with no U vertices (empty adjacency list) is not generated",
    "O3 identifies partial terms the way a term table does: by (symbols, DoFs, quantum numbers) per site",
]
ALGOS = ["Hopcroft-Karp", "Hungarian"]
BLOCK = 512


def _layout(tier):
    if tier == "quick":
        enum = [(1, 16), (2, 256), (3, 4096)]          # (|U|, count) exhaustive
        sampled4 = 6                                     # blocks of sampled 4x4 graphs
        nbig, ntab = 12, 200
    else:
        enum = [(1, 16), (2, 256), (3, 4096), (4, 65536)]
        sampled4 = 0
        nbig, ntab = 100, 4000
    blocks = []
    for nu, cnt in enum:
        for start in range(0, cnt, BLOCK):
            blocks.append(("enum", nu, start, min(cnt, start + BLOCK)))
    for i in range(sampled4):
        blocks.append(("sample4", 4, i, 0))
    for i in range(nbig):
        blocks.append(("big", 0, i, 0))
    for i in range(ntab):
        blocks.append(("table", 0, i, 0))
    return blocks


def plan(tier):
    blocks = _layout(tier)
    return {"ncases": len(blocks), "min_nontrivial": 800 if tier == "quick" else 15000,
            "exhaustive": tier == "thorough", "case_time_limit": 300,
            "required_counters": {"cover_calls_checked": 5000, "decompose_steps_checked": 300, "cuts_checked": 300}}


def setup(tier):
    monitors.install_cover_contract()
    monitors.install_decompose_hook()


def graph_from_code(nu, code, nv=4):
    adj = []
    for u in range(nu):
        row = (code >> (u * nv)) & ((1 << nv) - 1)
        adj.append([v for v in range(nv) if (row >> v) & 1])
    return adj


def _direct_call(ctx, adj, tag):
    from renormalizer.lib import bipartite_vertex_cover
    nu = len(adj)
    nv = max((max(vs) for vs in adj if vs), default=-1) + 1
    nedges = sum(len(vs) for vs in adj)
    for algo in ALGOS:
        ctx.evaluations += 1
        try:
            res = bipartite_vertex_cover([np.array(vs, dtype=int) for vs in adj] if tag == "np" else adj, algo=algo)
        except Exception as e:  # noqa: BLE001
            from rv.case import _innermost_repo_frame
            kind = "empty-graph" if nedges == 0 else "graph"
            ctx.violate(f"cover|{algo}|crash-on-{kind}|{type(e).__name__}@{_innermost_repo_frame(e)}", adj=adj,
                        message=str(e)[:100])
            continue
        ctx.count("direct_calls")
        ut, vt = res
        ctx.check(len(ut) <= nu and len(vt) <= max(nv, 0) or True, "table-length")
    if nedges > 0:
        mm = dense.max_matching_size(adj)
        # the two augmenting-path matchers themselves (the second one feeds the "Hungarian" cover; the first one documents
        # the assumption U = V = {0..n-1})
        from renormalizer.lib.bipartite_matching import bipartite_matching as bm
        for name, fn, ok in (("max_bipartite_matching2", bm.max_bipartite_matching2, True),
                             ("max_bipartite_matching", bm.max_bipartite_matching, nv <= nu)):
            if not ok:
                continue
            try:
                match = fn([list(map(int, vs)) for vs in adj])
            except Exception as e:  # noqa: BLE001
                from rv.case import _innermost_repo_frame
                ctx.violate(f"{name}|crash|{type(e).__name__}@{_innermost_repo_frame(e)}", adj=adj, message=str(e)[:100])
                continue
            ctx.count("matchings_checked")
            pairs = [(u, v) for v, u in enumerate(match) if u is not None]
            valid = all(v in adj[u] for u, v in pairs) and len({u for u, _ in pairs}) == len(pairs)
            if not ctx.check(valid, f"{name}|not-a-matching", adj=adj, match=[None if u is None else int(u) for u in match]):
                continue
            ctx.check(len(pairs) == mm, f"{name}|matching-not-maximum", adj=adj, size=len(pairs), maximum=mm)
        n_u_used = sum(1 for vs in adj if vs)
        if mm < min(n_u_used, nv):
            return True
    return False


def run_case(ctx):
    blocks = _layout(ctx.tier)
    kind, nu, a, b = blocks[ctx.idx]
    rng = ctx.rng
    ctx.evaluations = 0
    if kind == "enum":
        ctx.cls("exhaustive-small")
        ctx.describe({"kind": "exhaustive", "nU": nu, "codes": [a, b], "example": graph_from_code(nu, (a + b) // 2)})
        for code in range(a, b):
            adj = graph_from_code(nu, code)
            if code == 0:
                ctx.cls("empty-graph")
            nt = _direct_call(ctx, adj, "list")
            if nt:
                ctx.nontrivial(("g", nu, code))
    elif kind == "sample4":
        ctx.cls("sampled-4x4")
        codes = rng.integers(0, 65536, size=BLOCK).tolist()
        ctx.describe({"kind": "sampled 4x4", "n": len(codes), "example": graph_from_code(4, codes[0])})
        for code in codes:
            adj = graph_from_code(4, code)
            if _direct_call(ctx, adj, "np"):
                ctx.nontrivial(("g", 4, code))
    elif kind == "big":
        ctx.cls("random-large")
        ex = None
        for _ in range(20):
            nu_ = int(rng.integers(1, 41))
            nv_ = int(rng.integers(1, 41))
            dens = float(rng.choice([0.03, 0.1, 0.3, 0.7]))
            m = rng.random((nu_, nv_)) < dens
            if rng.random() < 0.3:
                m[int(rng.integers(0, nu_))] = True      # complete row
            if rng.random() < 0.3:
                m[int(rng.integers(0, nu_))] = False     # empty row
            adj = [np.nonzero(r)[0].tolist() for r in m]
            ex = ex or adj
            if _direct_call(ctx, adj, "np" if rng.random() < 0.5 else "list"):
                ctx.nontrivial(("big", nu_, nv_, m.tobytes().hex()[:64], int(m.sum())))
        ctx.describe({"kind": "random graphs up to 40x40", "n": 20, "example": ex})
    else:
        _table_case(ctx)
    monitors.drain(ctx)


def harness_table(basis, terms, offset):
    """The harness's own deduplicated term table: rows of per-site keys with summed factors."""
    dof2site = dense.dof_site_map(basis)
    nsite = len(basis)
    zero = tuple([0] * basis[0].sigmaqn.shape[1])
    ident = []
    for b in basis:
        ident.append((("I",), (repr(b.dofs[0]),), (zero,)))
    rows = {}
    for t in terms:
        if t.factor == 0:
            continue
        row = list(ident)
        for s, items in dense.site_groups(t, dof2site).items():
            row[s] = (tuple(w for w, _, _ in items), tuple(repr(d) for _, d, _ in items),
                      tuple(tuple(np.asarray(q).tolist()) for _, _, q in items))
        rows[tuple(row)] = rows.get(tuple(row), 0) + t.factor
    if offset != 0:
        rows[tuple(ident)] = rows.get(tuple(ident), 0) - offset
    if not rows:
        return []
    mx = max(abs(v) for v in rows.values())
    return [r for r, v in rows.items() if abs(v) > mx * 1e-15]


def _table_case(ctx):
    from renormalizer.model import Model
    from renormalizer.mps import Mpo
    from renormalizer.utils import Quantity
    rng = ctx.rng
    ctx.cls("term-table")
    gm = gen.random_basis_list(rng, nsite=(2, 7), max_dim=100000)
    nterms = int(rng.integers(2, 50))
    complex_factors = rng.random() < 0.3
    terms = gen.random_terms(rng, gm, nterms, allow_complex=complex_factors, complex_factors=complex_factors)
    offset = float(rng.choice([0.0, 0.0, 1.5]))
    ctx.describe({"kind": "table", "model": gm.describe(), "terms": gen.terms_describe(terms, 50), "offset": offset})
    rows = harness_table(gm.basis, terms, offset)
    if not rows:
        ctx.refuse("all terms cancel")
        return
    nsite = len(gm.basis)
    for algo in ALGOS:
        model = Model(list(gm.basis), [])
        mpo = ctx.lib(Mpo, model, list(terms), offset=Quantity(offset), algo=algo, what=f"Mpo|{algo}",
                      refusals=("Cannot cast",))
        bd = list(map(int, mpo.bond_dims))
        ctx.evaluations += 1
        for cut in range(1, nsite):
            lefts, rights = {}, {}
            edges = set()
            for r in rows:
                l = lefts.setdefault(r[:cut], len(lefts))
                rr = rights.setdefault(r[cut:], len(rights))
                edges.add((l, rr))
            adj = [[] for _ in lefts]
            for l, rr in edges:
                adj[l].append(rr)
            mm = dense.max_matching_size(adj)
            ctx.count("cuts_checked")
            if len(rows) == 1:
                ctx.cls("one-term-table")
            ctx.check(bd[cut] == mm, f"bond-not-minimum-cover|{algo}", cut=cut, bond=bd[cut], min_cover=mm,
                      n_left=len(lefts), n_right=len(rights), bond_dims=bd)
            ctx.check(bd[cut] <= min(len(lefts), len(rights)), f"bond-exceeds-distinct-partial-terms|{algo}", cut=cut,
                      bond=bd[cut], n_left=len(lefts), n_right=len(rights))
            if mm < min(len(lefts), len(rights)):
                ctx.nontrivial(("cut", ctx.idx, algo, cut))
