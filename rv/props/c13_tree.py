"""Tree cases of C13: the alias monitor over histories of tree tensor network states and operators."""
import os
import shutil
import tempfile

import numpy as np

from rv import dense, env, gen, tree_evolve, tree_states, trees
from rv.props import c13


class TreeMonitor(c13.Monitor):
    def __init__(self, ctx, tm):
        super().__init__(ctx)
        self.tm = tm

    def fingerprint(self, obj):
        from renormalizer.tn import TTNO
        if isinstance(obj, TTNO):
            return np.array(obj.todense(self.tm.order), dtype=complex).reshape(-1)
        return np.array(tree_states.dense_of_ttns(obj, self.tm.phys), dtype=complex)

    def snapshot(self):
        for lv in self.pool:
            lv.fp = self.fingerprint(lv.mp)

    def verify(self, call, exempt=(), mutated=None):
        ctx = self.ctx
        for lv in self.pool:
            if lv in exempt or lv.fp is None:
                continue
            now = self.fingerprint(lv.mp)
            ctx.count("fingerprints_compared")
            ctx.count("tree_fingerprints_compared")
            scale = max(float(np.linalg.norm(lv.fp)), 1e-300)
            if now.shape != lv.fp.shape or not np.all(np.isfinite(now)) or np.linalg.norm(now - lv.fp) > 1e-10 * scale:
                d = float(np.linalg.norm(now - lv.fp)) if now.shape == lv.fp.shape else -1.0
                sig = f"tree|{call}|changes-{lv.kind}-it-was-not-asked-to-modify"
                if mutated is not None:
                    ops = self.derivation_path(mutated, lv)
                    if ops:
                        sig = f"tree|result-of-{'+'.join(sorted(set(ops)))}-aliases-its-input|{call}"
                ctx.violate(sig, object=lv.name, distance=d, scale=scale, trace=self.trace[-6:])


def mutate(ctx, mon, target):
    """In-place modification of a tree state through its public API; every other live object must keep its value."""
    from renormalizer.utils import CompressConfig, CompressCriteria
    rng = ctx.rng
    s = target.mp
    k = int(rng.integers(0, 7))
    mon.snapshot()
    name = None
    try:
        if k == 0:
            name = "scale-inplace"
            s.scale(-2.0, inplace=True)
        elif k == 1:
            name = "normalize"
            s.normalize("ttns_and_coeff")
        elif k == 2:
            name = "canonicalise"
            s.canonicalise()
        elif k == 3:
            name = "compress-lossy"
            s.canonicalise()
            old = s.compress_config
            s.compress_config = CompressConfig(CompressCriteria.fixed, max_bonddim=max(1, max(s.bond_dims) // 2))
            s.compress()
            s.compress_config = old
        elif k == 4:
            name = "setitem"
            node = s.node_list[int(rng.integers(0, len(s.node_list)))]
            node.tensor = np.array(node.tensor) * 1.5
        elif k == 5:
            name = "array-slice"
            node = s.node_list[int(rng.integers(0, len(s.node_list)))]
            arr = node.tensor
            arr[...] = arr * 0.5
        else:
            name = "coeff-assign"
            s.coeff = s.coeff * 3.0
    except Exception as e:  # noqa: BLE001 - a refused mutation is not what is observed here
        ctx.refuse(f"tree mutation {name} refused: {type(e).__name__}")
        return
    ctx.cls("mutate:" + name, "tree-mutate:" + name)
    ctx.count("mutations")
    mon.trace.append(f"{target.name}.{name}")
    mon.verify(f"in-place-{name}", exempt=(target,), mutated=target)


def run_tree_case(ctx):
    from renormalizer.tn import TTNO, TTNS
    rng = ctx.rng
    ctx.cls("tree")
    em = tree_evolve.hermitian_tree_model(ctx, max_dim=120, nsite=(2, 5))
    kind = trees.ALL_KINDS[int(rng.integers(0, len(trees.ALL_KINDS)))]
    tree, desc, kind = tree_evolve.build_tree(ctx, em, kind)
    tm = tree_evolve.place(ctx, em, tree, desc, kind)
    tree_evolve.classify_tree(ctx, tm)
    gm = em.gm
    from rv import states
    qntot = None
    for _ in range(10):
        q = states.pick_sector(rng, gm)
        if states.sector_dim(gm, q) >= 2:
            qntot = q
            break
    if qntot is None:
        ctx.refuse("no sector with two states")
        return
    qntot = np.asarray(qntot)
    ctx.describe({"kind": "tree", "tree": tm.desc, "model": gm.describe(), "terms": gen.terms_describe(em.terms, 6),
                  "sector": qntot.tolist()})
    mon = TreeMonitor(ctx, tm)
    hlive = mon.add(tm.ttno, "H", "operator")
    nstate = 0
    for _ in range(int(rng.integers(1, 3))):
        s = ctx.lib(tree_states.random_ttns, ctx, tree, qntot, int(rng.integers(1, 6)), gm, what="tree-state-constructor",
                    promised=False)
        s.compress_config = tree_states.lossless_cfg()
        c = float(rng.choice([1.0, -0.7, 2.5]))
        if c != 1.0:
            s.coeff = s.coeff * c
        mon.add(s, f"s{nstate}", "state")
        nstate += 1
    produced = 0
    if rng.random() < 0.6:
        # prelude: the conversions that may legitimately do nothing to the numbers (copy of any state, to_complex of a state
        # that is complex already, scale by one) must still hand out tensors of their own: derive, mutate one, observe the other
        a = [lv for lv in mon.pool if lv.kind == "state"][0]
        if not any(np.iscomplexobj(nd.tensor) for nd in a.mp.node_list):
            mon.snapshot()
            tree_states.complexify_ttns(rng, a.mp)
            mon.trace.append(f"{a.name}.complexify")
            mon.verify("harness-complexify", exempt=(a,), mutated=a)
        how = ["to_complex", "copy", "scale-by-one"][int(rng.integers(0, 3))]
        ctx.cls("prelude:" + how + "-of-a-complex-state")
        res = (mon.call("TTNS.to_complex", a.mp.to_complex) if how == "to_complex" else
               mon.call("TTNS.copy", a.mp.copy) if how == "copy" else mon.call("TTNS.scale", a.mp.scale, 1.0))
        if res is not None:
            if res is a.mp:
                ctx.violate(f"tree|{how}|returns-one-of-its-inputs-instead-of-a-new-object", trace=mon.trace[-4:])
            else:
                res.compress_config = tree_states.lossless_cfg()
                lv = mon.add(res, f"s{nstate}", "state")
                nstate += 1
                lv.derived_by, lv.parents = how.split("-")[0], (a,)
                produced += 1
                for target in ((lv, a) if rng.random() < 0.5 else (a, lv)):
                    mutate(ctx, mon, target)
                    if ctx.violations:
                        break
    for step in range(int(rng.integers(4, 10))):
        if ctx.violations:
            break
        st = [lv for lv in mon.pool if lv.kind == "state"]
        a = st[int(rng.integers(0, len(st)))]
        op = int(rng.integers(0, 10))
        res, how, parents = None, None, (a,)
        if op == 0:
            how = str(rng.choice(["copy", "to_complex", "scale"]))
            ctx.cls("call:tree-" + how)
            if how == "copy":
                res = mon.call("TTNS.copy", a.mp.copy)
            elif how == "to_complex":
                res = mon.call("TTNS.to_complex", a.mp.to_complex)
            else:
                res = mon.call("TTNS.scale", a.mp.scale, 0.5)
        elif op == 1:
            same = [lv for lv in st if np.array_equal(lv.mp.qntot, a.mp.qntot)]
            b = same[int(rng.integers(0, len(same)))]
            ctx.cls("call:add", "call:tree-add")
            how = "add"
            res = mon.call("TTNS.add", a.mp.add, b.mp)
            parents = (a, b) if b is not a else (a,)
            if res is not None and np.linalg.norm(mon.fingerprint(res)) < 1e-9:
                res = None
        elif op == 2:
            v = mon.fingerprint(a.mp)
            if np.linalg.norm(tm.H @ v) <= 1e-9 * np.linalg.norm(v):
                continue
            how = str(rng.choice(["apply", "contract", "matmul"]))
            ctx.cls("call:apply", "call:tree-" + how)
            if how == "apply":
                res = mon.call("TTNO.apply", tm.ttno.apply, a.mp, canonicalise=bool(rng.random() < 0.5))
            elif how == "contract":
                res = mon.call("TTNO.contract", tm.ttno.contract, a.mp)
            else:
                res = mon.call("TTNO.__matmul__", tm.ttno.__matmul__, a.mp)
            parents = (a, hlive)
        elif op == 3:
            ctx.cls("call:measure", "call:tree-measure")
            which = int(rng.integers(0, 8))
            s = a.mp
            nn = len(s.node_list)
            if which == 0:
                mon.call("TTNS.expectation", s.expectation, tm.ttno)
            elif which == 1:
                mon.call("TTNS.calc_1site_rdm", s.calc_1site_rdm, refusals=("not supported",))
            elif which == 2 and nn >= 2:
                i, j = sorted(rng.choice(nn, size=2, replace=False).tolist())
                mon.call("TTNS.calc_2site_rdm", s.calc_2site_rdm, [(int(i), int(j))], refusals=("not supported",))
            elif which == 3:
                mon.call("TTNS.calc_bond_singular_values", s.calc_bond_singular_values)
            elif which == 4:
                mon.call("TTNS.calc_bond_entropy", s.calc_bond_entropy)
            elif which == 5:
                mon.call("TTNS.calc_1site_entropy", s.calc_1site_entropy, refusals=("not supported",))
            elif which == 6:
                mon.call("TTNS.norm", lambda: (s.norm, s.ttns_norm, s.bond_dims_exact))
            else:
                mon.call("TTNS.todense", s.todense, tm.order)
        elif op == 4:
            ctx.cls("call:dump", "call:tree-dump")
            d = tempfile.mkdtemp(prefix="rv_c13t_", dir=os.environ.get("VERIF_SCRATCH", None))
            try:
                fn = os.path.join(d, "s.npz")
                mon.call("TTNS.dump", a.mp.dump, fn)
                res = mon.call("TTNS.load", TTNS.load, tree, fn)
                how = "dump+load"
            finally:
                shutil.rmtree(d, ignore_errors=True)
        elif op == 5:
            # a lossy compression of a copy
            from renormalizer.utils import CompressConfig, CompressCriteria
            ctx.cls("call:tree-compress-copy")
            cp = mon.call("TTNS.copy", a.mp.copy)
            lv = mon.add(cp, f"s{nstate}", "state")
            nstate += 1
            lv.derived_by, lv.parents = "copy", (a,)
            mon.snapshot()
            cp.canonicalise()
            cp.compress_config = CompressConfig(CompressCriteria.fixed, max_bonddim=max(1, max(cp.bond_dims) // 2))
            mon.trace.append(f"{lv.name}.compress")
            ctx.lib(cp.compress, what="tree-compress")
            cp.compress_config = tree_states.lossless_cfg()
            mon.verify("compress-of-a-copy", exempt=(lv,), mutated=lv)
            produced += 1
            continue
        else:
            scheme = tree_evolve.SCHEMES[int(rng.integers(0, len(tree_evolve.SCHEMES)))]
            imag = bool(rng.random() < 0.4)
            v = mon.fingerprint(a.mp)
            if scheme == "prop_and_compress_tdrk4":
                if min(np.linalg.norm(tm.H @ v), np.linalg.norm(tm.H @ (tm.H @ v))) <= 1e-12 * max(np.linalg.norm(v), 1e-300):
                    continue
            elif not a.mp.is_canonical():
                # the tree TDVP drivers assert a canonical input; canonicalising is a pure gauge change of `a`
                mon.snapshot()
                a.mp.canonicalise()
                mon.trace.append(f"{a.name}.canonicalise")
                mon.verify("canonicalise", exempt=())
            if scheme == "tdvp_vmf" and max(a.mp.bond_dims) > 12:
                continue
            ctx.cls("call:evolve-imag" if imag else "call:evolve", "call:tree-evolve-imag" if imag else "call:tree-evolve",
                    "tree-scheme:" + scheme)
            a.mp.evolve_config = tree_evolve.make_cfg(scheme)
            tau = 0.2 * (-1j if imag else 1.0)
            env.reseed_global(rng)
            how = "evolve"
            res = mon.call(f"TTNS.evolve|{scheme}|{'imag' if imag else 'real'}", a.mp.evolve, tm.ttno, tau,
                           normalize=bool(rng.random() < 0.5))
            parents = (a, hlive)
            if res is a.mp:
                ctx.violate(f"tree|evolve|{'imag' if imag else 'real'}|returns-its-input-object", scheme=scheme,
                            trace=mon.trace[-6:])
                res = None
        if res is not None and how is not None:
            if any(res is lv.mp for lv in mon.pool):
                ctx.violate(f"tree|{how}|returns-one-of-its-inputs-instead-of-a-new-object", trace=mon.trace[-4:])
                continue
            if max(res.bond_dims) > 40:
                continue
            res.compress_config = tree_states.lossless_cfg()
            lv = mon.add(res, f"s{nstate}", "state")
            nstate += 1
            lv.derived_by, lv.parents = how, parents
            produced += 1
            # derive b from a, mutate one of them, observe the other
            if rng.random() < 0.7:
                mutate(ctx, mon, lv if rng.random() < 0.5 else a)
        if ctx.violations:
            break
        while len([lv for lv in mon.pool if lv.kind == "state"]) > 5:
            victims = [lv for lv in mon.pool if lv.kind == "state"]
            mon.pool.remove(victims[int(rng.integers(0, len(victims)))])
    if produced and ctx.counters.get("mutations", 0):
        ctx.nontrivial({"tree": trees.tree_shape_key(tree), "trace": mon.trace})
