"""C04 - canonicalisation and lossless compression preserve the represented object."""
import numpy as np

from rv import dense, gen, states

ID = "C04"
LEVEL = "exploration"
RULE = ("One case = one object (Mps from Mps.random / product states / sums a+b with over-complete bonds / a+a with "
        "rank-deficient bonds / operator-applied states; Mpo from generated term tables and their sums/products; "
        "MpDm from from_mps and operator application; chains of 1..7 sites; real/complex; none/one/two quantum "
        "numbers; arbitrary gauge history) driven through: ensure_right/left_canonical, full canonicalise in both "
        "directions, canonicalise(stop_idx) for every stop site including the current centre, lossless compress "
        "(fixed limit >= ranks, threshold 1e-14, temp_m_trunc), repetition (idempotence), and variational "
        "compression of operator x state with sufficient limit. After each call: dense*coeff and qntot unchanged, "
        "isometry of swept tensors recomputed from raw arrays (A^dag A = 1; = c*1 for Mpo), agreement with "
        "check_left/right_canonical, no bond growth, bonds <= exact caps after two opposite sweeps. Non-trivial: "
        "object with a redundant or rank-deficient bond (bond above the dense Schmidt rank); distinct by object "
        "descriptor hash.")
ASSUMPTIONS = [
    "dense equality 1e-10 relative; isometry recomputed from raw arrays with atol 1e-8 (the library's own canonical_atol)",
    "canonical Mpo tensors keep the norm on the swept tensors (u *= ||vt||), so A^dag A = c*1 with c > 0 is demanded there, not c = 1; after compress() an Mpo is not required to be isometric",
    "canonicalise()/compress() are called with the centre at the start of the sweep (their own asserted precondition); ensure_*_canonical from any state",
    "variational compression: library defaults (two-site sweeps; guess = operator x state truncated to bond 5, operator untruncated), distance <= 1e-4 * ||mpo@mps|| (the library's own test tolerance)",
    "prod(d) <= 600 (states), <= 64 (operators / density operators, whose dense form is d^2)",
]


def plan(tier):
    base = {"case_time_limit": 240,
            "required_classes": ["one-site-chain", "stop-at-centre", "overcomplete-bond", "rank-deficient-bond", "bond-one",
                                 "mpo", "mpdm", "mps", "variational", "sweep:to_right", "sweep:to_left", "idempotence",
                                 "long-chain", "sector:zero-with-signed-labels", "variational:own-limit-below-schedule", "variational:per-bond-limits-in-schedule",
                                 "ensure-canonical:explicit-tolerance-on-drifted-state", "stop-at-centre:non-canonical-state"],
            "required_counters": {"oracle": 2000, "isometry_checks": 1000}}
    if tier == "quick":
        base.update({"ncases": 320, "min_nontrivial": 60})
    else:
        base.update({"ncases": 40000, "min_nontrivial": 9000, "required_counters": {"oracle": 300000, "isometry_checks": 150000}})
    return base


def fixed_cfg(m=10 ** 6):
    from renormalizer.utils import CompressConfig, CompressCriteria
    return CompressConfig(CompressCriteria.fixed, max_bonddim=m)


def build_object(ctx):
    """Returns (mp, gm, model, descriptor)."""
    from renormalizer.mps import Mpo, MpDm
    rng = ctx.rng
    r = rng.random()
    kind = "mps" if r < 0.6 else ("mpo" if r < 0.8 else "mpdm")
    one_site = rng.random() < 0.07
    if kind == "mps":
        nsite = (1, 1) if one_site else (2, 7)
        gm = gen.random_basis_list(rng, nsite=nsite, max_dim=600, min_dim=2)
        if rng.random() < 0.06:
            gm = gen.long_chain(rng, 10, 12)
            ctx.cls("long-chain")
    else:
        nsite = (1, 1) if one_site else (2, 4)
        gm = gen.random_basis_list(rng, nsite=nsite, max_dim=24, min_dim=2)
    if len(gm.basis) == 1:
        ctx.cls("one-site-chain")
    if kind == "mps" and not one_site and rng.random() < 0.08:
        gm = gen.signed_spin_chain(rng, nsite=(3, 8))
    model = states.model_of(gm)
    qntot = states.pick_sector(rng, gm)
    if gm.desc.get("signed") and gen.zero_sector(gm) is not None:
        qntot = gen.zero_sector(gm)
        ctx.cls("sector:zero-with-signed-labels")
    desc = {"kind": kind, "model": gm.describe(), "sector": qntot.tolist(), "construction": []}
    ctx.cls(kind, "qn-" + gm.desc["qn_mode"])

    def a_state():
        s = ctx.lib(states.random_state, ctx, gm, model, qntot, what="state-constructor", promised=False)
        s.compress_config = fixed_cfg()
        return s

    def an_operator(charge0=True):
        zero = np.zeros(gm.qn_size, dtype=int)
        for _ in range(20):
            cf = rng.random() < 0.3
            terms = gen.random_terms(rng, gm, int(rng.integers(1, 6)), target_charge=zero, allow_complex=cf,
                                     complex_factors=cf, decades=1)
            if terms and np.linalg.norm(dense.op_dense(gm.basis, terms)) > 1e-8:
                o = ctx.lib(Mpo, model, terms, what="Mpo", refusals=("Cannot cast",))
                o.compress_config = fixed_cfg()
                desc["construction"].append({"Mpo": gen.terms_describe(terms, 5)})
                return o
        ctx.refuse("no non-zero neutral operator found")
        from rv.case import CaseAbort
        raise CaseAbort()

    if kind in ("mps", "mpdm"):
        mp = a_state()
        desc["construction"].append("state")
        r = rng.random()
        if r < 0.25:
            b = a_state()
            b.move_qnidx(mp.qnidx)
            b.to_right = mp.to_right
            s = ctx.lib(mp.add, b, what="add")
            if np.linalg.norm(states.dense_of(s)) > 1e-6 * max(np.linalg.norm(states.dense_of(mp)), 1e-300):
                mp = s       # (a complete cancellation leaves no state to canonicalise)
                ctx.cls("overcomplete-bond")
                desc["construction"].append("a+b")
        elif r < 0.4:
            mp = ctx.lib(mp.add, mp.copy(), what="add")
            ctx.cls("rank-deficient-bond")
            desc["construction"].append("a+a")
        elif r < 0.55 and len(gm.basis) > 1:
            o = an_operator()
            res = ctx.lib(o.apply, mp, what="apply")
            if np.linalg.norm(res.todense()) > 1e-8:
                mp = res
                desc["construction"].append("O@a")
        if kind == "mpdm":
            mp = ctx.lib(MpDm.from_mps, mp, what="MpDm.from_mps")
            if rng.random() < 0.5:
                o = an_operator()
                res = ctx.lib(o.apply, mp, what="apply(MpDm)")
                if np.linalg.norm(res.todense()) > 1e-8:
                    mp = res
                    desc["construction"].append("O@rho")
    else:
        mp = an_operator()
        r = rng.random()
        if r < 0.3:
            o2 = an_operator()
            s = ctx.lib(mp.add, o2, what="Mpo.add")
            if np.linalg.norm(s.todense()) > 1e-8:
                mp = s
                ctx.cls("overcomplete-bond")
                desc["construction"].append("O1+O2")
        elif r < 0.45:
            mp = ctx.lib(mp.add, mp.copy(), what="Mpo.add")
            ctx.cls("rank-deficient-bond")
            desc["construction"].append("O+O")
        elif r < 0.6:
            o2 = an_operator()
            s = ctx.lib(mp.apply, o2, what="Mpo@Mpo")
            if np.linalg.norm(s.todense()) > 1e-8 and max(s.bond_dims) <= 64:
                mp = s
                desc["construction"].append("O1@O2")
    mp.compress_config = fixed_cfg()
    tr = []
    ctx.lib(states.gauge_history, rng, mp, 3, tr, allow_coeff=(kind != "mpo"), what="gauge-history")
    desc["gauge"] = tr
    if max(mp.bond_dims) == 1:
        ctx.cls("bond-one")
    if mp.is_complex:
        ctx.cls("complex")
    return mp, gm, model, desc


class Watch:
    """Reference fingerprint of one object and the checks run after every call."""

    def __init__(self, ctx, mp, gm):
        self.ctx, self.gm = ctx, gm
        self.ref = states.dense_of(mp)
        self.scale = max(float(np.linalg.norm(self.ref)), 1e-300)
        self.qntot = np.array(mp.qntot).copy()
        self.is_op = not mp.is_mps
        self.caps = states.exact_bond_caps(gm.dims, squared=self.is_op)

    def same_object(self, mp, what):
        ctx = self.ctx
        ctx.count("oracle")
        ok = ctx.close(states.dense_of(mp), self.ref, 1e-10, f"{what}|object-changed", scale=self.scale)
        ctx.check(np.array_equal(np.asarray(mp.qntot), self.qntot), f"{what}|qntot-changed", got=np.asarray(mp.qntot),
                  want=self.qntot)
        return ok

    def no_growth(self, before, mp, what):
        after = mp.bond_dims
        self.ctx.check(all(a <= b for a, b in zip(after, before)), f"{what}|bond-grew", before=before, after=after)

    def isometric(self, mp, sites, left, what):
        ctx = self.ctx
        # ensure_*_canonical() without arguments leaves a state alone that is canonical within the library's documented
        # default tolerance (np.allclose: rtol 1e-5, atol 1e-8); after a sweep (canonicalise / compress) rounding level
        tol = 1.1e-5 if what.startswith("ensure_") and "(rtol" not in what else 1e-8
        for i in sites:
            d, c = states.isometry_defect(mp, i, left)
            ctx.count("isometry_checks")
            if mp.is_mpo:
                ok = c > 0 and d <= tol * max(1.0, c)
            else:
                ok = d <= tol and abs(c - 1) <= tol
            ctx.check(ok, f"{what}|not-isometric|{'mpo' if mp.is_mpo else 'state'}", site=i, left=left, defect=d, c=c,
                      bond_dims=mp.bond_dims)
            if not ok:
                break

    def lib_agrees(self, mp, left, what):
        """check_left/right_canonical must report what the raw arrays say (Mps / MpDm only: Mpo tensors are scaled)."""
        if mp.is_mpo:
            return
        n = mp.site_num
        sites = range(0, n - 1) if left else range(1, n)
        def canonical_by_default_tolerance(i):
            # the library's definition: np.allclose(A^dag A, 1) with numpy's defaults
            a = np.asarray(mp[i].array)
            m = a.reshape(-1, a.shape[-1]) if left else a.reshape(a.shape[0], -1).T
            g = m.conj().T @ m
            return bool(np.allclose(g, np.eye(g.shape[0])))
        mine = all(canonical_by_default_tolerance(i) for i in sites)
        theirs = mp.check_left_canonical() if left else mp.check_right_canonical()
        self.ctx.check(bool(mine) == bool(theirs), f"{what}|check_canonical-disagrees-with-raw-arrays", mine=mine,
                       theirs=bool(theirs), left=left)

    def caps_ok(self, mp, what):
        bd = np.array(mp.bond_dims, dtype=float)
        self.ctx.check(bool(np.all(bd <= self.caps + 1e-9)), f"{what}|bond-above-exact-cap", bond_dims=mp.bond_dims,
                       caps=self.caps.tolist())


def run_case(ctx):
    rng = ctx.rng
    mp, gm, model, desc = build_object(ctx)
    ctx.describe(desc)
    n = mp.site_num
    w = Watch(ctx, mp, gm)
    # non-triviality: some bond above the dense Schmidt rank (redundant / rank-deficient)
    if mp.is_mps and n > 1:
        psi = w.ref
        ranks = [1] + [dense.schmidt_rank(psi, gm.dims, c) for c in range(1, n)] + [1]
        if any(b > r for b, r in zip(mp.bond_dims, ranks)):
            ctx.nontrivial(desc)
    elif n > 1:
        dims2 = [d * d for d in gm.dims]
        t = w.ref.reshape(list(gm.dims) + list(gm.dims))
        perm = [x for i in range(n) for x in (i, n + i)]
        vec = t.transpose(perm).reshape(-1)
        ranks = [1] + [dense.schmidt_rank(vec, dims2, c) for c in range(1, n)] + [1]
        if any(b > r for b, r in zip(mp.bond_dims, ranks)):
            ctx.nontrivial(desc)

    # ---- 1. first sweep from any state -------------------------------------------------------------
    first_left = bool(rng.random() < 0.5)
    before = mp.bond_dims
    if first_left:
        ctx.lib(mp.ensure_left_canonical, what="ensure_left_canonical")
        what = "ensure_left_canonical"
    else:
        ctx.lib(mp.ensure_right_canonical, what="ensure_right_canonical")
        what = "ensure_right_canonical"
    if not w.same_object(mp, what):
        return
    w.no_growth(before, mp, what)
    w.isometric(mp, range(0, n - 1) if first_left else range(1, n), first_left, what)
    w.lib_agrees(mp, first_left, what)
    ctx.check(mp.qnidx == (n - 1 if first_left else 0), f"{what}|centre-not-at-end", qnidx=mp.qnidx)

    # ---- 2. opposite full sweep with canonicalise() -------------------------------------------------
    before = mp.bond_dims
    ctx.cls("sweep:to_right" if mp.to_right else "sweep:to_left")
    swept_left = bool(mp.to_right)      # sweeping to the right leaves left-isometries
    ctx.lib(mp.canonicalise, what="canonicalise")
    if not w.same_object(mp, "canonicalise"):
        return
    w.no_growth(before, mp, "canonicalise")
    w.isometric(mp, range(0, n - 1) if swept_left else range(1, n), swept_left, "canonicalise")
    w.lib_agrees(mp, swept_left, "canonicalise")
    w.caps_ok(mp, "two-opposite-sweeps")
    ctx.check(mp.qnidx == (n - 1 if swept_left else 0), "canonicalise|centre-not-at-end", qnidx=mp.qnidx, to_right=mp.to_right)

    # ---- 3. idempotence: a third sweep changes neither object nor bonds ------------------------------
    ctx.cls("idempotence")
    before = mp.bond_dims
    swept_left = bool(mp.to_right)
    ctx.cls("sweep:to_right" if mp.to_right else "sweep:to_left")
    ctx.lib(mp.canonicalise, what="canonicalise(repeat)")
    w.same_object(mp, "canonicalise(repeat)")
    ctx.check(mp.bond_dims == before, "canonicalise(repeat)|bond-dims-changed", before=before, after=mp.bond_dims)
    w.isometric(mp, range(0, n - 1) if swept_left else range(1, n), swept_left, "canonicalise(repeat)")

    # ---- 4. partial canonicalisation to every stop site, including the current centre ----------------
    stops = list(range(n))
    rng.shuffle(stops)
    for k in stops[: (n if ctx.tier == "thorough" else min(n, 3))]:
        cp = mp.copy()
        start = cp.qnidx
        if k == start:
            ctx.cls("stop-at-centre")
        to_right = cp.to_right
        if to_right and k < start or (not to_right) and k > start:
            continue
        ctx.lib(cp.canonicalise, stop_idx=k, what="canonicalise(stop_idx)")
        if not w.same_object(cp, "canonicalise(stop_idx)"):
            break
        ctx.check(cp.qnidx == k, "canonicalise(stop_idx)|centre-not-at-stop", stop=k, qnidx=cp.qnidx, start=start)
        if to_right:
            w.isometric(cp, range(start, k), True, "canonicalise(stop_idx)")
        else:
            w.isometric(cp, range(k + 1, start + 1), False, "canonicalise(stop_idx)")

    # ---- 4b. stop at the current centre of a state that is NOT canonical (the centre index is bookkeeping only) --------
    if n >= 3 and not mp.is_mpo and rng.random() < 0.5:
        cp = mp.copy()
        cp.compress_config = fixed_cfg()
        for _ in range(int(rng.integers(1, 3))):
            states.bond_gauge(rng, cp, cplx=bool(cp.is_complex))
        k = int(rng.integers(1, n - 1))
        ctx.lib(cp.move_qnidx, k, what="move_qnidx")
        if rng.random() < 0.5:
            cp.to_right = not cp.to_right
        to_right = bool(cp.to_right)
        if w.same_object(cp, "harness|non-canonical-copy"):
            ctx.cls("stop-at-centre:non-canonical-state")
            ctx.lib(cp.canonicalise, stop_idx=k, what="canonicalise(stop_idx=centre)")
            if w.same_object(cp, "canonicalise(stop_idx=centre)"):
                ctx.check(cp.qnidx == k, "canonicalise(stop_idx=centre)|centre-not-at-stop", stop=k, qnidx=cp.qnidx)
                # the sweep runs from the chain end towards the stop site: everything it passed is an isometry
                if to_right:
                    w.isometric(cp, range(0, k), True, "canonicalise(stop_idx=centre)")
                else:
                    w.isometric(cp, range(k + 1, n), False, "canonicalise(stop_idx=centre)")

    # ---- 5. lossless compression ------------------------------------------------------------------
    mode = int(rng.integers(0, 3))
    before = mp.bond_dims
    from renormalizer.utils import CompressConfig, CompressCriteria
    if mode == 0:
        mp.compress_config = fixed_cfg(max(before) + int(rng.integers(0, 3)))
        ctx.lib(mp.compress, what="compress(fixed>=rank)")
        what = "compress(fixed)"
    elif mode == 1:
        mp.compress_config = CompressConfig(CompressCriteria.threshold, threshold=1e-14)
        ctx.lib(mp.compress, what="compress(threshold=1e-14)")
        what = "compress(threshold)"
    else:
        ctx.lib(mp.compress, temp_m_trunc=max(before) + 1, what="compress(temp_m_trunc)")
        what = "compress(temp_m_trunc)"
    ctx.cls(what)
    swept_left = not mp.to_right     # direction was switched at the end of compress
    if w.same_object(mp, what):
        w.no_growth(before, mp, what)
        w.caps_ok(mp, what)
        if not mp.is_mpo:
            w.isometric(mp, range(0, n - 1) if swept_left else range(1, n), swept_left, what)
            w.lib_agrees(mp, swept_left, what)
        b2 = mp.bond_dims
        mp.compress_config = fixed_cfg()
        ctx.lib(mp.compress, what="compress(repeat)")
        w.same_object(mp, "compress(repeat)")
        ctx.check(all(x <= y for x, y in zip(mp.bond_dims, b2)), "compress(repeat)|bond-grew", before=b2, after=mp.bond_dims)

    # ---- 5b. ensure_*_canonical with an explicit tolerance on a state that drifted off canonical form ----------------
    if n >= 2 and not mp.is_mpo and rng.random() < 0.3:
        for right in (True, False):
            cp = mp.copy()
            cp.compress_config = fixed_cfg()
            ctx.lib(cp.ensure_right_canonical if right else cp.ensure_left_canonical, what="ensure_canonical")
            k = int(rng.integers(1, n)) if right else int(rng.integers(0, n - 1))
            centre = 0 if right else n - 1
            eps = 2e-6
            cp[k] = np.asarray(cp[k].array) * (1 + eps)
            cp[centre] = np.asarray(cp[centre].array) / (1 + eps)
            ctx.cls("ensure-canonical:explicit-tolerance-on-drifted-state")
            name = "ensure_right_canonical" if right else "ensure_left_canonical"
            ctx.lib(getattr(cp, name), rtol=1e-11, atol=1e-11, what=name + "(rtol,atol)")
            ctx.count("oracle")
            w.same_object(cp, name + "(rtol,atol)")
            sites = range(1, n) if right else range(0, n - 1)
            worst = max(abs(states.isometry_defect(cp, i, not right)[0]) + abs(states.isometry_defect(cp, i, not right)[1] - 1) for i in sites)
            ctx.count("isometry_checks", len(list(sites)))
            ctx.check(worst <= 1e-9, name + "(rtol,atol)|not-canonical-to-the-requested-tolerance", worst=worst, drifted_site=k)

    # ---- 6. variational compression of operator x state --------------------------------------------
    if mp.is_mps and 2 <= n <= 5 and rng.random() < (0.35 if ctx.tier == "quick" else 0.3):
        from renormalizer.mps import Mpo
        zero = np.zeros(gm.qn_size, dtype=int)
        terms = gen.hermitian_terms(rng, gm, int(rng.integers(1, 4)), allow_complex=False)
        terms = [t for t in terms if not isinstance(t.factor, complex)]
        if terms:
            H = dense.op_dense(gm.basis, terms)
            target = H @ w.ref
            # (the generated terms may cancel to a numerical zero, e.g. a product with its own negative adjoint: nothing to compress)
            if np.linalg.norm(H) > 1e-8 and np.linalg.norm(target) > 1e-6 * np.linalg.norm(H) * w.scale and not np.iscomplexobj(H):
                ctx.cls("variational")
                o = ctx.lib(Mpo, model, terms, what="Mpo", refusals=("Cannot cast",))
                src = mp.copy()
                m = int(max(states.exact_bond_caps(gm.dims)))
                # library defaults (two-site sweeps, guess bond 5) except that the operator part of the guess is never
                # truncated: a truncated operator can annihilate the state, and the library documents that one-site
                # sweeps may get stuck; neither is part of the property
                vproc = None
                style = int(rng.choice(3, p=[0.3, 0.25, 0.45]))
                m0 = m
                # (a schedule that ramps the limit up from below the ranks is NOT used: once a sweep has truncated, the
                # later sweeps need not recover the lost symmetry blocks - convergence is then no theorem, see 8.2)
                if style == 1 and m >= 2:
                    # the state's own fixed limit is smaller than what the schedule asks for
                    m0 = 1
                    vproc = [[m, 0.5], [m, 0.3], [m, 0.1]] + [[m, 0]] * 10
                    ctx.cls("variational:own-limit-below-schedule")
                if style == 2:
                    # the documented other form of a schedule entry: a CompressConfig, here with per-bond limits that differ
                    # from bond to bond and suffice everywhere (Schmidt rank of the dense target plus 0..2, within the exact cap)
                    caps = states.exact_bond_caps(gm.dims)
                    tr = [1] + [int(np.sum(dense.schmidt(target, gm.dims, c) > 1e-10 * np.linalg.norm(target))) for c in range(1, n)] + [1]
                    lim = [int(min(max(cap, 1), r + int(rng.integers(0, 3)))) for cap, r in zip(caps, tr)]
                    if len(set(lim[1:-1])) > 1:
                        ctx.cls("variational:per-bond-limits-in-schedule")
                    nz = 10 if rng.random() < 0.7 else 9        # 13 or 12 sweeps: the last one runs leftwards or rightwards

                    def cfg_of():
                        c = CompressConfig(CompressCriteria.fixed, max_bonddim=int(max(lim)))
                        c.max_dims = np.array(lim, dtype=int)
                        return c
                    vproc = [[cfg_of(), 0.5], [cfg_of(), 0.3], [cfg_of(), 0.1]] + [[cfg_of(), 0] for _ in range(nz)]
                src.compress_config = CompressConfig(CompressCriteria.fixed, max_bonddim=m0, vprocedure=vproc,
                                                     vguess_m=(max(5, int(max(o.bond_dims))), 5))
                if max(src.bond_dims) > 5:
                    ctx.cls("variational:truncated-guess")
                from rv import env
                env.reseed_global(rng)
                res = ctx.lib(src.variational_compress, o, what="variational_compress")
                ctx.count("oracle")
                ctx.close(states.dense_of(res), target, 1e-4, "variational_compress|does-not-reach-mpo@mps",
                          scale=max(float(np.linalg.norm(target)), 1e-300))
                w.same_object(src, "variational_compress|input")
