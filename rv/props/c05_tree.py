"""C05, tree part - truncation of a canonical TTNS respects the bond limit and the discarded-weight error bound.

Dispatched from rv.props.c05.run_case for every 5th case.  Same oracle as for chains: with ``tail_k`` the discarded
squared singular values of the ORIGINAL state for the bipartition (sub-tree below edge k | rest), computed by
independent dense SVDs, and the bond dimensions of the RETURNED state,

    max_k sqrt(tail_k)  <=  || psi - psi~ ||  <=  sqrt(sum_k tail_k),

bonds <= limit, no bond growth, norm not increased.  Both inequalities are theorems for the root-to-leaves sequence of
SVD truncations that ``compress_recursion`` performs on a state whose orthogonality centre is at the root (hierarchical
Tucker truncation; Eckart-Young for the lower bound).

Limits in ``TTNS.compress``: ``compress_config.max_dims[i]`` / ``temp_m_trunc[i]`` limit the bond between node i
(pre-order index) and its parent; ``set_bonddim(len(nodes) + 1)`` fills a global ``max_bonddim``; the criteria
``threshold`` / ``both`` use the normalised singular values of the bond.
"""
import numpy as np

from rv import dense, gen, states


def _model(ctx):
    from rv import trees
    rng = ctx.rng
    qn_mode = str(rng.choice(["none", "one", "two"], p=[0.3, 0.5, 0.2]))
    for _ in range(300):
        gm = gen.random_basis_list(rng, nsite=(3, 7), max_dim=4096, min_dim=8, qn_mode=qn_mode)
        phys = [b for b in gm.basis if not trees.is_dummy(b)]
        if 2 <= len(phys) <= 7 and all(b.nbas >= 2 for b in phys):
            return gm
    raise RuntimeError("no model")


def _tree(ctx, gm):
    from rv import trees
    rng = ctx.rng
    kinds = list(trees.ALL_KINDS)
    for _ in range(12):
        kind = "random" if rng.random() < 0.35 else kinds[int(rng.integers(0, len(kinds)))]
        try:
            tree, desc = trees.build_tree(kind, gm.basis, rng, shuffle=bool(rng.random() < 0.5))
        except ValueError as e:
            if "Inconsistent quantum number size" in str(e) and gm.desc["qn_mode"] == "two":
                ctx.count("constructor-refused-two-qn")
                continue
            raise
        if len(tree.node_list) >= 2:
            return kind, tree, desc
    tree, desc = trees.build_tree("binary", gm.basis, rng)
    return "binary", tree, desc


def _degenerate_state(ctx, tree, gm):
    """Equal-weight sums of 2..4 orthogonal product states (GHZ-like: degenerate singular values at every cut that
    separates differing sites); models without quantum numbers."""
    from renormalizer.tn import TTNS
    rng = ctx.rng
    k = int(rng.integers(2, 5))
    seen, t = set(), None
    for _ in range(k * 4):
        cond, key = {}, []
        for b in gm.basis:
            loc = int(rng.integers(0, b.nbas))
            cond[b.dofs[0]] = loc
            key.append(loc)
        if tuple(key) in seen:
            continue
        seen.add(tuple(key))
        p = TTNS(tree, cond)
        if rng.random() < 0.25 and t is not None:
            p = p.scale(0.5)
        t = p if t is None else t.add(p)
        if len(seen) == k:
            break
    return t, {"degenerate": len(seen)}


def run_tree_case(ctx):
    from renormalizer.utils import CompressConfig, CompressCriteria
    from renormalizer.tn import TTNO
    from rv import tree_states as ts
    rng = ctx.rng
    ctx.cls("tree")
    gm = _model(ctx)
    kind, tree, tdesc = _tree(ctx, gm)
    ctx.cls("tree:" + kind)
    n = len(tree.node_list)
    desc = {"model": gm.describe(), "tree": tdesc}
    qn_mode = gm.desc["qn_mode"]
    lossless = CompressConfig(CompressCriteria.fixed, max_bonddim=10 ** 6)

    degenerate = qn_mode == "none" and rng.random() < 0.25
    if degenerate:
        ctx.cls("degenerate-spectrum")
        t, d = ctx.lib(_degenerate_state, ctx, tree, gm, what="tree-state-constructor", promised=False)
        desc["state"] = d
    else:
        qntot = states.pick_sector(rng, gm)
        mmax = int(rng.choice([1, 2, 3, 4, 6, 8, 12, 16]))
        t = ctx.lib(ts.random_ttns, ctx, tree, qntot, mmax, gm, what="tree-state-constructor", promised=False)
        if t is None:
            ctx.refuse("tree-state-constructor: no state in the sector")
            return
        desc["state"] = {"sector": qntot.tolist(), "mmax": mmax}
        r2 = rng.random()
        if r2 < 0.2:
            other = ctx.lib(ts.random_ttns, ctx, tree, qntot, mmax, gm, what="tree-state-constructor", promised=False)
            if other is not None:
                s = t.add(other)          # both prefactors are 1
                if np.linalg.norm(ts.dense_of_ttns(s, gm)) > 1e-6:
                    t = s
                    desc["state"]["sum"] = True
        elif r2 < 0.35:
            zero = np.zeros(gm.qn_size, dtype=int)
            terms = gen.random_terms(rng, gm, int(rng.integers(1, 5)), target_charge=zero, allow_complex=False,
                                     complex_factors=False, decades=1)
            if terms and not np.iscomplexobj(dense.op_dense(gm.basis, terms)):
                try:
                    s = TTNO(tree, terms).apply(t)
                    if np.linalg.norm(ts.dense_of_ttns(s, gm)) > 1e-6 and max(s.bond_dims) <= 64:
                        t = s
                        desc["state"]["applied"] = gen.terms_describe(terms, 4)
                except Exception:  # noqa: BLE001 - construction of the input only
                    pass
    t.compress_config = lossless
    ctx.lib(t.canonicalise, what="tree-canonicalise")
    if rng.random() < 0.5:
        nrm = float(np.linalg.norm(ts.dense_tensor_of_ttns(t, gm)))
        t.scale(1.0 / nrm, inplace=True)
    if rng.random() < 0.2:
        t.coeff = t.coeff * float(rng.choice([2.0, 0.3]))

    tmap = ts.TreeMap(tree, gm)
    psi = ts.dense_of_ttns(t, gm)
    coeff = t.coeff
    norm0 = float(np.linalg.norm(psi))
    if not np.isfinite(norm0) or norm0 < 1e-12:
        ctx.refuse("tree-state-constructor: state of vanishing norm")
        return
    spectra = {i: ts.bond_spectrum_reference(psi, tmap, i) for i in range(1, n)}
    before = [int(x) for x in t.bond_dims]
    ranks = [1] + [int(np.sum(spectra[i] > 1e-12 * max(spectra[i][0], 1e-300))) for i in range(1, n)]

    # ---- singular values reported by the library against the dense spectra --------------------------------
    if rng.random() < 0.4:
        ctx.cls("ret_s")
        if rng.random() < 0.5:
            s_arr = ctx.lib(t.calc_bond_singular_values, what="tree-calc_bond_singular_values")
        else:
            cp = t.copy()
            _, s_arr = ctx.lib(cp.compress, what="tree-compress|ret_s", temp_m_trunc=np.inf, ret_s=True)
        s_arr = np.asarray(s_arr)
        ctx.count("oracle")
        tensor_scale = norm0 / max(abs(coeff), 1e-300)
        ok = ctx.check(s_arr.ndim == 2 and s_arr.shape[0] == n, "tree|singular-values|wrong-number-of-bonds",
                       got=list(s_arr.shape), want=n)
        if ok:
            for i in range(1, n):
                got = np.sort(s_arr[i])[::-1]
                want = spectra[i] / max(abs(coeff), 1e-300)
                k = max(len(got), len(want))
                if not ctx.close(np.pad(got, (0, k - len(got))), np.pad(want, (0, k - len(want))), 1e-9,
                                 "tree|singular-values|differ-from-dense-svd", scale=max(tensor_scale, 1e-300), node=i):
                    break
        ctx.count("oracle")
        ctx.close(ts.dense_of_ttns(t, gm), psi, 1e-10, "tree|calc_bond_singular_values|input-changed", scale=max(norm0, 1e-300))

    # ---- the truncation target --------------------------------------------------------------------------
    limits = None            # per node: limit of the bond to its parent (index 0, the root, is unused)
    tkind = int(rng.integers(0, 7))
    kwargs = {}
    maxb = max(max(ranks), 1)

    def draw_limit():
        # around the true ranks; half of the time strictly below the largest one so that weight is really discarded
        if maxb >= 2 and rng.random() < 0.5:
            return int(rng.integers(1, maxb))
        return int(rng.integers(1, max(2, maxb + 2)))
    if tkind == 0:
        M = draw_limit()
        t.compress_config = CompressConfig(CompressCriteria.fixed, max_bonddim=M)
        limits = [M] * n
        ctx.cls("criteria:fixed")
        tgt = {"fixed": M}
    elif tkind == 1:
        arr = rng.integers(1, max(2, maxb + 2), size=n + 1)
        cfg = CompressConfig(CompressCriteria.fixed, max_bonddim=int(arr.max()))
        cfg.max_dims = np.array(arr, dtype=int) if rng.random() < 0.5 else [int(x) for x in arr[:n]]
        t.compress_config = cfg
        limits = [int(x) for x in arr[:n]]
        ctx.cls("criteria:fixed", "per-bond-limits")
        tgt = {"fixed-per-bond": limits}
    elif tkind == 2:
        M = draw_limit()
        kwargs = {"temp_m_trunc": M}
        limits = [M] * n
        ctx.cls("temp_m_trunc:scalar")
        tgt = {"temp_m_trunc": M}
    elif tkind == 3:
        arr = rng.integers(1, max(2, maxb + 2), size=n)
        kwargs = {"temp_m_trunc": arr.tolist() if rng.random() < 0.5 else np.array(arr)}
        limits = [int(x) for x in arr]
        ctx.cls("temp_m_trunc:list")
        tgt = {"temp_m_trunc": limits}
    elif tkind in (4, 5):
        thr = float(rng.choice([0.5, 0.9, 0.3, 0.1])) if rng.random() < 0.4 else float(10 ** rng.uniform(-6, -0.05))
        if thr >= 0.5:
            ctx.cls("threshold>=0.5")
        if tkind == 4:
            t.compress_config = CompressConfig(CompressCriteria.threshold, threshold=thr)
            ctx.cls("criteria:threshold")
            tgt = {"threshold": thr}
        else:
            M = draw_limit()
            t.compress_config = CompressConfig(CompressCriteria.both, threshold=thr, max_bonddim=M)
            limits = [M] * n
            ctx.cls("criteria:both")
            tgt = {"both": [thr, M]}
    else:
        M = int(max(ranks)) + int(rng.integers(0, 3))
        t.compress_config = CompressConfig(CompressCriteria.fixed, max_bonddim=M)
        limits = [M] * n
        ctx.cls("criteria:fixed", "rank-below-limit")
        tgt = {"fixed-above-rank": M}
    name = list(tgt)[0]
    desc["target"] = tgt
    desc["bond_dims_before"] = before
    ctx.describe(desc)
    if limits is not None and all(l >= r for l, r in zip(limits[1:], ranks[1:])):
        ctx.cls("rank-below-limit")

    res = ctx.lib(t.compress, what="tree-compress|" + name, **kwargs)
    ctx.check(res is t, "tree|compress|does-not-return-self")
    after = [int(x) for x in t.bond_dims]
    phi = ts.dense_of_ttns(t, gm)
    ctx.count("oracle")
    ctx.check(bool(np.all(np.isfinite(phi))), "tree|compress|non-finite-result")
    # 1. limits
    if limits is not None:
        ctx.check(all(a <= l for a, l in zip(after[1:], limits[1:])), "tree|bond-exceeds-limit|" + name, after=after, limits=limits)
    ctx.check(all(a <= b for a, b in zip(after, before)), "tree|bond-grew|" + name, before=before, after=after)
    ctx.check(all(a >= 1 for a in after), "tree|bond-dimension-zero", after=after)
    # 2. norm
    norm1 = float(np.linalg.norm(phi))
    ctx.check(norm1 <= norm0 * (1 + 1e-8) + 1e-8 * norm0, "tree|norm-increased", before=norm0, after=norm1)
    # 3. discarded-weight bounds from the ORIGINAL dense spectra and the returned bond dimensions
    tails = [float(np.sum(spectra[i][after[i]:] ** 2)) for i in range(1, n)]
    upper = float(np.sqrt(sum(tails)))
    lower = float(np.sqrt(max(tails))) if tails else 0.0
    dist = float(np.linalg.norm(psi - phi))
    slack = 1e-8 * norm0 + 1e-8 * upper
    ctx.count("bounds_checked")
    ctx.count("tree_bounds_checked")
    ctx.metric_max("tree_dist_over_upper", dist / upper if upper > 1e-9 * norm0 else 0.0)
    ctx.check(dist <= upper + slack, "tree|distance-above-discarded-weight-bound|" + name, dist=dist, upper=upper, lower=lower,
              before=before, after=after, tails=tails)
    ctx.check(dist >= lower - slack, "tree|distance-below-eckart-young-bound|" + name, dist=dist, lower=lower, after=after)
    # 4. the result is canonical with the centre at the root and keeps consistent labels and its sector
    ctx.count("oracle")
    d = ts.max_isometry_defect(t)
    ctx.check(d <= 1e-8, "tree|compress|result-not-canonical", defect=d)
    p = ts.tree_label_problems(t)
    ctx.check(not p, "tree|compress|labels-inconsistent", problems=p[:3])
    if upper > 1e-12 * max(norm0, 1e-300):
        ctx.count("tree_nontrivial")
        ctx.nontrivial(desc)
