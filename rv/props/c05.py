"""C05 - truncation respects the bond limit and the discarded-weight error bound (chains; trees in c05 tree cases)."""
import numpy as np

from rv import dense, gen, states

ID = "C05"
LEVEL = "exploration"
RULE = ("One case = one canonical state (chains of 2..8 sites, d 2..5; Mps.random in a sector with bonds up to 16, "
        "sums, operator-applied states, dense-constructed states with degenerate spectra: products of Bell/GHZ "
        "blocks and equal-weight direct sums; product states and states of rank below the limit) compressed with one "
        "target: global M >= 1, per-bond max_dims, temp_m_trunc scalar/list, threshold in (0,1) incl. 0.5 and 0.9, "
        "criteria fixed/threshold/both, from either sweep direction; tree states (TTNS on generated topologies) with "
        "the same targets. Oracle: bonds <= limit, norm not increased, max_k sqrt(tail_k) <= ||psi - psi~|| <= "
        "sqrt(sum_k tail_k) with tail_k from independent dense SVDs of the ORIGINAL state at every cut and the bond "
        "dimensions of the returned state; compress(ret_s=True)/calc_bond_singular_values vs dense spectra. "
        "Non-trivial: the truncation discards weight (upper bound > 1e-12) at >= 1 bond; distinct by (state "
        "descriptor, target).")
ASSUMPTIONS = [
    "both inequalities are theorems for sequential SVD truncation of a canonical state (Eckart-Young lower bound; nested projections upper bound, also for the root-to-leaves order of trees); using the final bond dimensions only weakens them",
    "slack 1e-8 absolute + 1e-8 relative on the bounds and on the norm",
    "chains: prod(d) <= 20000 (dense SVD at every cut); trees: prod(d) <= 4096",
    "the input is brought to canonical form first (compress asserts it)",
]


def plan(tier):
    base = {"case_time_limit": 240,
            "required_classes": ["criteria:fixed", "criteria:threshold", "criteria:both", "per-bond-limits",
                                 "temp_m_trunc:scalar", "temp_m_trunc:list", "degenerate-spectrum", "rank-below-limit",
                                 "threshold>=0.5", "threshold:next-to-a-singular-value", "both:limit-binds", "both:threshold-binds",
                                 "both:count-depends-on-the-normalisation", "config-object", "sweep:to_right", "sweep:to_left", "ret_s", "sector:zero-with-signed-labels", "amplitude:tiny", "amplitude:huge"],
            "required_counters": {"oracle": 300, "bounds_checked": 200, "kept_counts_checked": 100}}
    if tier == "quick":
        base.update({"ncases": 640, "min_nontrivial": 60})
    else:
        base.update({"ncases": 60000, "min_nontrivial": 20000, "required_counters": {"oracle": 80000, "bounds_checked": 40000, "kept_counts_checked": 20000}})
    return base


def degenerate_state(ctx, gm, model):
    """Dense-constructed state with degenerate Schmidt spectra (models without quantum numbers only)."""
    from renormalizer.mps import Mps
    rng = ctx.rng
    dims = gm.dims
    n = len(dims)
    vec = np.ones(1)
    i = 0
    blocks = []
    while i < n:
        size = int(rng.integers(1, 4))
        size = min(size, n - i)
        bd = dims[i:i + size]
        if size == 1:
            v = rng.normal(size=bd[0])
        else:
            # GHZ-like block: equal weights on 'diagonal' configurations
            m = min(bd)
            v = np.zeros(bd)
            w = rng.choice([1.0, 1.0, 0.5]) if rng.random() < 0.3 else 1.0
            for k in range(m):
                v[tuple([k] * size)] = 1.0 if k < m - 1 else w
            v = v.reshape(-1)
        v = v / np.linalg.norm(v)
        vec = np.kron(vec, v)
        blocks.append(size)
        i += size
    if rng.random() < 0.4:
        # equal-weight direct sum with a second product of blocks
        perm = rng.permutation(len(vec))
        vec = (vec + vec[perm]) / np.sqrt(2)
    if rng.random() < 0.3:
        vec = vec * np.exp(1j * rng.uniform(0, 2 * np.pi, size=vec.shape))
    vec = vec / np.linalg.norm(vec)
    mps = ctx.lib(Mps.from_dense, model, vec, what="Mps.from_dense")
    return mps, {"blocks": blocks}


def config_case(ctx):
    """The configuration object by itself: kept counts of the three criteria on synthetic spectra against the documented
    rules, and the two documented ways to combine / loosen limits (update: the stricter of the two; relax: threshold x 3
    capped at 0.9, limits x 0.8 but at least 2)."""
    from renormalizer.utils import CompressConfig, CompressCriteria
    rng = ctx.rng
    ctx.cls("config-object")
    n = int(rng.integers(2, 9))
    for _ in range(12):
        k = int(rng.integers(1, 30))
        sigma = np.sort(np.abs(rng.normal(size=k)) * 10.0 ** rng.uniform(-3, 3, size=k))[::-1]
        if rng.random() < 0.3:
            sigma[k // 2:] = sigma[k // 2]           # a degenerate tail
        t = float(rng.choice([0.5, 0.9, 1e-3])) if rng.random() < 0.3 else float(10 ** rng.uniform(-6, -0.05))
        dims = rng.integers(1, 40, size=n + 1)
        idx, left = int(rng.integers(0, n)), bool(rng.random() < 0.5)
        ns = sigma / np.linalg.norm(sigma)
        if np.any(np.abs(ns - t) <= 1e-12):
            continue
        want_t = max(int(np.sum(ns > t)), 1)
        want_f = min(int(dims[idx + 1 if left else idx]), k)
        for crit, want in ((CompressCriteria.threshold, want_t), (CompressCriteria.fixed, want_f),
                           (CompressCriteria.both, min(want_t, want_f))):
            cfg = CompressConfig(crit, threshold=t, max_bonddim=int(dims.max()))
            cfg.max_dims = np.array(dims, dtype=int)
            got = ctx.lib(cfg.compute_m_trunc, sigma.copy(), idx, left, what="CompressConfig.compute_m_trunc")
            ctx.count("oracle")
            ctx.count("config_counts_checked")
            ctx.check(int(got) == want, "compute_m_trunc|differs-from-documented-criterion|" + crit.name, got=int(got), want=want,
                      threshold=t, limit=int(dims[idx + 1 if left else idx]), normalised=ns[:8].tolist())
    # update / relax
    t1, t2 = float(10 ** rng.uniform(-6, -1)), float(10 ** rng.uniform(-6, -1))
    d1, d2 = rng.integers(1, 40, size=n + 1), rng.integers(1, 40, size=n + 1)
    a = CompressConfig(CompressCriteria.both, threshold=t1, max_bonddim=int(d1.max()))
    b = CompressConfig(CompressCriteria.both, threshold=t2, max_bonddim=int(d2.max()))
    a.max_dims, b.max_dims = np.array(d1, dtype=int), np.array(d2, dtype=int)
    ctx.lib(a.update, b, what="CompressConfig.update")
    ctx.count("oracle", 2)
    ctx.check(a.threshold == min(t1, t2) and np.array_equal(a.max_dims, np.maximum(d1, d2)), "CompressConfig.update|not-the-stricter-of-the-two",
              threshold=a.threshold, dims=a.max_dims)
    ctx.check(b.threshold == t2 and np.array_equal(b.max_dims, d2), "CompressConfig.update|argument-changed")
    other = CompressConfig(CompressCriteria.fixed, max_bonddim=5)
    try:
        a.update(other)
        refused = False
    except ValueError:
        refused = True
    ctx.check(refused, "CompressConfig.update|different-criteria-accepted")
    c = CompressConfig(CompressCriteria.both, threshold=t1, max_bonddim=int(d1.max()))
    c.max_dims = np.array(d1, dtype=int)
    cp = ctx.lib(c.copy, what="CompressConfig.copy")
    ctx.lib(c.relax, what="CompressConfig.relax")
    ctx.count("oracle", 2)
    ctx.check(abs(c.threshold - min(3 * t1, 0.9)) <= 1e-15 and np.array_equal(c.max_dims, np.maximum((d1 * 0.8).astype(np.int64), 2)),
              "CompressConfig.relax|not-the-documented-loosening", threshold=c.threshold, dims=c.max_dims, before=d1)
    ctx.check(cp.threshold == t1 and np.array_equal(cp.max_dims, d1), "CompressConfig.copy|shares-its-limits-with-the-original")
    ctx.nontrivial(("config", n, round(t1, 9), d1.tolist()))


def run_case(ctx):
    if ctx.idx % 40 == 7:
        return config_case(ctx)
    if ctx.idx % 5 == 4:
        try:
            from rv.props import c05_tree
        except ImportError:
            c05_tree = None
        if c05_tree is not None:
            return c05_tree.run_tree_case(ctx)
    from renormalizer.utils import CompressConfig, CompressCriteria
    from renormalizer.mps import Mpo
    rng = ctx.rng
    r = rng.random()
    degenerate = r < 0.2
    if degenerate:
        gm = gen.random_basis_list(rng, nsite=(2, 8), max_dim=4096, min_dim=8, qn_mode="none",
                                   kinds=["spin0", "sho", "elec0", "hops"])
    else:
        gm = gen.random_basis_list(rng, nsite=(2, 8), max_dim=20000, min_dim=8,
                                   qn_mode=rng.choice(["none", "one", "two"], p=[0.3, 0.5, 0.2]))
    signed_zero = None
    if not degenerate and rng.random() < 0.1:
        gm = gen.signed_spin_chain(rng, nsite=(4, 9))
        signed_zero = gen.zero_sector(gm)
    model = states.model_of(gm)
    n = len(gm.basis)
    desc = {"model": gm.describe()}
    if degenerate:
        ctx.cls("degenerate-spectrum")
        mps, d = degenerate_state(ctx, gm, model)
        desc["state"] = {"degenerate": d}
    else:
        qntot = states.pick_sector(rng, gm)
        if signed_zero is not None:
            qntot = signed_zero
            ctx.cls("sector:zero-with-signed-labels")
        mmax = int(rng.choice([1, 2, 3, 4, 6, 8, 12, 16]))
        mps = ctx.lib(states.random_state, ctx, gm, model, qntot, mmax, what="state-constructor", promised=False)
        desc["state"] = {"sector": qntot.tolist(), "mmax": mmax}
        r2 = rng.random()
        if r2 < 0.2:
            other = ctx.lib(states.random_state, ctx, gm, model, qntot, mmax, what="state-constructor", promised=False)
            other.move_qnidx(mps.qnidx)
            other.to_right = mps.to_right
            s = mps.add(other)
            if np.linalg.norm(states.dense_of(s)) > 1e-6:
                mps = s
                desc["state"]["sum"] = True
        elif r2 < 0.35:
            zero = np.zeros(gm.qn_size, dtype=int)
            terms = gen.random_terms(rng, gm, int(rng.integers(1, 5)), target_charge=zero, allow_complex=False,
                                     complex_factors=False, decades=1)
            if terms:
                try:
                    o = Mpo(model, terms)
                    s = o.apply(mps)
                    if np.linalg.norm(states.dense_of(s)) > 1e-6 and max(s.bond_dims) <= 64:
                        mps = s
                        desc["state"]["applied"] = gen.terms_describe(terms, 4)
                except Exception:  # noqa: BLE001 - construction of the input only
                    pass
    mps.compress_config = CompressConfig(CompressCriteria.fixed, max_bonddim=10 ** 6)
    if rng.random() < 0.5:
        ctx.lib(mps.ensure_right_canonical, what="ensure_right_canonical")
    else:
        ctx.lib(mps.ensure_left_canonical, what="ensure_left_canonical")
    if rng.random() < 0.5:
        nrm = mps.mp_norm
        mps.scale(1.0 / nrm, inplace=True)
    if rng.random() < 0.2:
        mps.coeff = mps.coeff * float(rng.choice([2.0, 0.3]))
    if ctx.idx % 10 == 3:
        # other units: the tensors themselves (not the prefactor) tiny or huge, every singular value far below / above unity;
        # truncation is defined relative to the spectrum, so nothing may depend on the absolute scale
        g = [1e-9, 1e-12, 1e7][(ctx.idx // 10) % 3]
        mps.scale(g, inplace=True)
        ctx.cls("amplitude:tiny" if g < 1 else "amplitude:huge")
    sweep_to_right = bool(mps.to_right)
    ctx.cls("sweep:to_right" if sweep_to_right else "sweep:to_left")
    psi = states.dense_of(mps)
    coeff = mps.coeff
    norm0 = float(np.linalg.norm(psi))
    dims = gm.dims
    spectra = {c: dense.schmidt(psi, dims, c) for c in range(1, n)}
    before = list(mps.bond_dims)
    ranks = [1] + [int(np.sum(spectra[c] > 1e-12 * max(spectra[c][0], 1e-300))) for c in range(1, n)] + [1]

    # ---- ret_s / calc_bond_singular_values against the dense spectra ---------------------------------
    if rng.random() < 0.4:
        ctx.cls("ret_s")
        s_arr = ctx.lib(mps.calc_bond_singular_values, what="calc_bond_singular_values")
        ctx.count("oracle")
        tensor_scale = norm0 / max(abs(coeff), 1e-300)
        ok = ctx.check(len(s_arr) == n - 1, "singular-values|wrong-number-of-bonds", got=len(s_arr), want=n - 1)
        if ok:
            for c in range(1, n):
                got = np.sort(np.asarray(s_arr[c - 1]))[::-1]
                want = spectra[c] / max(abs(coeff), 1e-300)
                k = max(len(got), len(want))
                g = np.pad(got, (0, k - len(got)))
                wv = np.pad(want, (0, k - len(want)))
                if not ctx.close(g, wv, 1e-9, "singular-values|differ-from-dense-svd", scale=max(tensor_scale, 1e-300), cut=c):
                    break
        ctx.count("oracle")
        ctx.close(states.dense_of(mps), psi, 1e-10, "calc_bond_singular_values|input-changed", scale=max(norm0, 1e-300))

    # ---- the truncation target ----------------------------------------------------------------------
    limits = None          # per-bond upper limits (len n+1) or None
    kind = int(rng.choice(7, p=[0.13, 0.13, 0.13, 0.13, 0.13, 0.22, 0.13]))
    tgt = {}
    kwargs = {}
    maxb = max(max(ranks), 1)     # limits are drawn around the true ranks so that most targets really truncate
    if kind == 0:
        M = int(rng.integers(1, max(2, maxb + 2)))
        mps.compress_config = CompressConfig(CompressCriteria.fixed, max_bonddim=M)
        limits = [M] * (n + 1)
        ctx.cls("criteria:fixed")
        tgt = {"fixed": M}
    elif kind == 1:
        arr = rng.integers(1, max(2, maxb + 2), size=n + 1)
        cfg = CompressConfig(CompressCriteria.fixed, max_bonddim=int(arr.max()))
        cfg.max_dims = np.array(arr, dtype=int)
        mps.compress_config = cfg
        limits = arr.tolist()
        ctx.cls("criteria:fixed", "per-bond-limits")
        tgt = {"fixed-per-bond": arr.tolist()}
    elif kind == 2:
        M = int(rng.integers(1, max(2, maxb + 2)))
        kwargs = {"temp_m_trunc": M}
        limits = [M] * (n + 1)
        ctx.cls("temp_m_trunc:scalar")
        tgt = {"temp_m_trunc": M}
    elif kind == 3:
        arr = rng.integers(1, max(2, maxb + 2), size=n + 1)
        kwargs = {"temp_m_trunc": arr.tolist() if rng.random() < 0.5 else np.array(arr)}
        limits = arr.tolist()
        ctx.cls("temp_m_trunc:list")
        tgt = {"temp_m_trunc": arr.tolist()}
    elif kind in (4, 5):
        t = float(rng.choice([0.5, 0.9, 0.3, 0.1])) if rng.random() < 0.4 else float(10 ** rng.uniform(-6, -0.05))
        M = int(rng.integers(1, max(2, maxb + 2)))
        if n > 1 and rng.random() < 0.4:
            # boundary class: the threshold sits a little above or below one of the normalised singular values of a cut
            c0 = int(rng.integers(1, n))
            ns0 = spectra[c0] / max(float(np.linalg.norm(spectra[c0])), 1e-300)
            i0 = int(rng.integers(0, max(1, min(int(ranks[c0]), M + 1))))
            f = float(10 ** rng.uniform(-2, -0.4))
            tb = float(ns0[i0] * (1 + f if rng.random() < 0.6 else 1 - f))
            if 1e-6 < tb < 0.95:
                t = tb
                ctx.cls("threshold:next-to-a-singular-value")
        if kind == 5 and n > 1 and rng.random() < 0.5:
            # both criteria active on the first bond of the sweep: the limit cuts off sizeable weight and the threshold falls
            # between a singular value normalised by the whole spectrum and the same value normalised by the kept part
            cand = [c for c in range(1, n) if ranks[c] >= 3]
            c0 = int(rng.choice(cand)) if cand else 1
            sp = spectra[c0]
            r0 = int(ranks[c0])
            if r0 >= 3:
                M = int(rng.integers(2, r0))
                i0 = int(rng.integers(0, M))
                lo = float(sp[i0] / np.linalg.norm(sp))
                hi = float(sp[i0] / np.linalg.norm(sp[:M]))
                if hi > lo * (1 + 1e-4) and 1e-6 < lo and np.sqrt(lo * hi) < 0.95:
                    t = float(np.sqrt(lo * hi))
        if t >= 0.5:
            ctx.cls("threshold>=0.5")
        if kind == 4:
            mps.compress_config = CompressConfig(CompressCriteria.threshold, threshold=t)
            ctx.cls("criteria:threshold")
            tgt = {"threshold": t}
        else:
            mps.compress_config = CompressConfig(CompressCriteria.both, threshold=t, max_bonddim=M)
            limits = [M] * (n + 1)
            ctx.cls("criteria:both")
            tgt = {"both": [t, M]}
    else:
        M = int(max(ranks)) + int(rng.integers(0, 3))
        mps.compress_config = CompressConfig(CompressCriteria.fixed, max_bonddim=M)
        limits = [M] * (n + 1)
        ctx.cls("criteria:fixed", "rank-below-limit")
        tgt = {"fixed-above-rank": M}
    desc["target"] = tgt
    desc["bond_dims_before"] = before
    ctx.describe(desc)
    if limits is not None and all(l >= r for l, r in zip(limits, ranks)):
        ctx.cls("rank-below-limit")

    qntot_before = np.array(mps.qntot, copy=True)
    res = ctx.lib(mps.compress, what="compress|" + list(tgt)[0], **kwargs)
    ctx.check(res is mps, "compress|does-not-return-self")
    after = list(mps.bond_dims)
    phi = states.dense_of(mps)
    ctx.count("oracle")
    ctx.check(bool(np.all(np.isfinite(phi))), "compress|non-finite-result")
    # 1. limits
    if limits is not None:
        ctx.check(all(a <= l for a, l in zip(after[1:-1], limits[1:-1])), "bond-exceeds-limit|" + list(tgt)[0], after=after,
                  limits=limits)
    ctx.check(all(a <= b for a, b in zip(after, before)), "bond-grew|" + list(tgt)[0], before=before, after=after)
    ctx.check(all(a >= 1 for a in after), "bond-dimension-zero", after=after)
    # 2. norm
    norm1 = float(np.linalg.norm(phi))
    ctx.check(norm1 <= norm0 * (1 + 1e-8) + 1e-8 * norm0, "norm-increased", before=norm0, after=norm1)
    # 3. discarded-weight bounds from the ORIGINAL dense spectra and the returned bond dimensions
    tails = []
    for c in range(1, n):
        s = spectra[c]
        tails.append(float(np.sum(s[after[c]:] ** 2)))
    upper = float(np.sqrt(sum(tails)))
    lower = float(np.sqrt(max(tails))) if tails else 0.0
    dist = float(np.linalg.norm(psi - phi))
    slack = 1e-8 * norm0 + 1e-8 * upper
    ctx.count("bounds_checked")
    ctx.metric_max("dist_over_upper", dist / upper if upper > 1e-9 * norm0 else 0.0)
    ctx.check(dist <= upper + slack, "distance-above-discarded-weight-bound|" + list(tgt)[0], dist=dist, upper=upper,
              lower=lower, before=before, after=after, tails=tails)
    ctx.check(dist >= lower - slack, "distance-below-eckart-young-bound|" + list(tgt)[0], dist=dist, lower=lower,
              after=after)
    if limits is not None and list(tgt)[0] != "both":       # (with `both` the threshold may keep fewer than the limit)
        # the same bound from the REQUESTED limits (not from what came back): keeping fewer than asked for is no excuse
        req = float(np.sqrt(sum(float(np.sum(spectra[c][min(int(limits[c]), len(spectra[c])):] ** 2)) for c in range(1, n))))
        ctx.count("bounds_checked")
        ctx.check(dist <= req + slack, "distance-above-bound-of-the-requested-limits|" + list(tgt)[0], dist=dist, bound=req,
                  limits=limits, after=after, ranks=ranks)
        if all(l >= r for l, r in zip(limits[1:-1], ranks[1:-1])):
            ctx.check(all(a >= r for a, r in zip(after[1:-1], ranks[1:-1])), "bond-below-schmidt-rank-although-limit-allows-it|" + list(tgt)[0],
                      after=after, ranks=ranks, limits=limits)
    if list(tgt)[0] in ("threshold", "both"):
        # the documented kept count, cut by cut: sequential Schmidt truncation of the dense vector in the sweep order, keeping
        # the normalised singular values above the threshold (at least one), for `both` at most the fixed limit as well
        t = tgt["threshold"] if "threshold" in tgt else tgt["both"][0]
        cuts = list(range(1, n)) if sweep_to_right else list(range(n - 1, 0, -1))
        vec = np.array(psi, copy=True)
        for c in cuts:
            mat = vec.reshape(int(np.prod(dims[:c])), int(np.prod(dims[c:])))
            u, sv, vh = np.linalg.svd(mat, full_matrices=False)
            nrm = float(np.linalg.norm(sv))
            if nrm <= 1e-300:
                break
            ns = sv / nrm
            if np.any(np.abs(ns - t) <= 1e-7):
                ctx.cls("kept-count:ambiguous-at-threshold")
                break
            k = max(int(np.sum(ns > t)), 1)
            if "both" in tgt:
                k2 = min(k, int(limits[c]))
                mk = int(limits[c])
                if mk < len(sv):
                    alt = int(np.sum(sv[:mk] / max(float(np.linalg.norm(sv[:mk])), 1e-300) > t))
                    if max(alt, 1) != k2:
                        # normalising by the kept part instead of the whole spectrum would give another count
                        ctx.cls("both:count-depends-on-the-normalisation")
                if k2 < k:
                    ctx.cls("both:limit-binds")
                else:
                    ctx.cls("both:threshold-binds")
                k = k2
            ctx.count("kept_counts_checked")
            if not ctx.check(after[c] == k, "kept-count-differs-from-documented-criterion|" + list(tgt)[0], cut=c, kept=after[c],
                             documented=k, threshold=t, normalised_singular_values=ns[:8].tolist(), after=after,
                             limits=limits):
                break
            if k < len(sv) and abs(sv[k - 1] - sv[k]) <= 1e-7 * sv[0]:
                # the cut runs through a degenerate multiplet: which of the equal directions survive is arbitrary, so
                # the spectra of the later cuts are no longer determined
                ctx.cls("kept-count:cut-inside-degenerate-multiplet")
                break
            vec = ((u[:, :k] * sv[:k]) @ vh[:k]).reshape(vec.shape)
    ctx.check(np.array_equal(np.asarray(mps.qntot), qntot_before), "compress|qntot-changed", before=qntot_before, after=mps.qntot)
    if upper > 1e-12 * max(norm0, 1e-300):
        ctx.nontrivial(desc)
