"""Tree cases of C10: purification on a tree (auxiliary space), imaginary-time evolution to beta/2, reduced density
operator of the physical space against the dense Gibbs state of the one-exciton sector."""
import numpy as np

from rv import dense, env, tree_evolve, tree_states, trees
from rv.props import c10

KINDS = ["linear", "binary", "binary", "mctdh2", "mctdh3", "random", "random"]


def physical_density(vec, dim):
    m = np.asarray(vec).reshape(dim, dim)
    rho = m @ m.conj().T
    tr = float(np.real(np.trace(rho)))
    return rho / tr if tr > 0 else rho, tr


def run_tree_case(ctx):
    from renormalizer.tn import TTNO
    from renormalizer.tn.utils_eph import max_entangled_ex
    rng = ctx.rng
    ctx.cls("tree", "T:tree-purification")
    model = None
    for _ in range(30):
        m, desc = c10.holstein(ctx, max_dim=48, allow_complex_j=False)     # (TTNO documents: complex operators not supported yet)
        if m.scheme < 4 and len(m.basis) >= 2:
            model = m
            break
    if model is None:
        ctx.refuse("no Holstein model with single-electron basis sets within the cap")
        return
    basis = list(model.basis)
    kind = KINDS[int(rng.integers(0, len(KINDS)))]
    shuffle = bool(rng.random() < 0.5)
    if (ctx.idx // 8) % 3 == 1 and len(basis) >= 3:
        # by case index, not by coin (a required class): the binary tree in model order has the first electronic set at a
        # node with two children
        kind, shuffle = "binary", False
    kw = {"max_sets": 1, "auto_virtual": False} if kind == "random" else {}
    tree, tdesc = ctx.lib(trees.build_tree, kind, basis, rng, shuffle, what="tree-constructor", promised=False, **kw)
    if any(len([b for b in node.basis_sets if not trees.is_dummy(b)]) > 1 for node in tree.node_list):
        # max_entangled_ex supports one physical set per node only (it asserts otherwise)
        kind = "linear"
        tree, tdesc = ctx.lib(trees.build_tree, kind, basis, rng, bool(rng.random() < 0.5), what="tree-constructor", promised=False)
    ctx.cls("tree-kind:" + kind)
    if any(len(node.children) >= 2 and any(getattr(b, "is_electron", False) for b in node.basis_sets) for node in tree.node_list):
        ctx.cls("tree:electronic-node-with-two-or-more-children")
    aux = ctx.lib(tree.add_auxiliary_space, "Q", what="BasisTree.add_auxiliary_space")
    # P and Q sets, node by node
    pq = {}
    for node in aux.node_list:
        sets = list(node.basis_sets)
        k = 0
        while k < len(sets):
            if trees.is_dummy(sets[k]):
                k += 1
                continue
            pq[id(sets[k])] = sets[k + 1]
            k += 2
    ok = ctx.check(all(id(b) in pq for b in basis), "tree|add_auxiliary_space|physical-set-lost-or-unpaired")
    if not ok:
        return
    qsets = [pq[id(b)] for b in basis]
    ctx.check(all(q.nbas == b.nbas and not np.any(np.asarray(q.sigmaqn)) for q, b in zip(qsets, basis)),
              "tree|add_auxiliary_space|auxiliary-set-differs-from-its-physical-set")
    order = basis + qsets
    dim = int(np.prod([b.nbas for b in basis]))
    H = dense.op_dense(basis, model.ham_terms)
    mask = dense.sector_mask(basis, [1])
    ds = int(mask.sum())
    hn = float(np.linalg.norm(H[np.ix_(mask, mask)], 2))
    beta = float(10 ** rng.uniform(-1, 0.7))
    beta = min(beta, 6.0 / hn)
    ref = dense.gibbs(H, beta, mask)
    scheme = str(rng.choice(["prop_and_compress_tdrk4", "tdvp_ps2"], p=[0.6, 0.4]))
    if scheme == "tdvp_ps2" and any(all(trees.is_dummy(b) for b in node.basis_sets) for node in tree.node_list):
        # a two-site update cannot grow the bonds around a node without physical index (its other bonds are one in the
        # product start state): from the bond-dimension-one purified state the scheme cannot entangle the sub-trees such a node
        # connects, whatever the step - a limitation of the method, not of its implementation
        ctx.cls("tree-ps2-skipped:virtual-node")
        scheme = "prop_and_compress_tdrk4"
    ctx.cls("tree-scheme:" + scheme)
    ctx.describe({"kind": "tree-thermal", "model": desc, "tree": tdesc, "beta": beta, "beta*||H||": beta * hn, "scheme": scheme})
    init = ctx.lib(max_entangled_ex, aux, what="tn.max_entangled_ex")
    v0 = tree_states.dense_of_ttns(init, order)
    rho0, tr0 = physical_density(v0, dim)
    proj = np.diag(mask.astype(float)) / ds
    ctx.count("oracle")
    ctx.close(rho0, proj, 1e-10, "tree|max_entangled_ex|physical-density-is-not-the-sector-identity", scale=1.0)
    ctx.check(abs(tr0 - 1.0) <= 1e-10, "tree|max_entangled_ex|not-normalised", norm2=tr0)
    ttno = ctx.lib(TTNO, aux, model.ham_terms, what="TTNO(aux)")
    n1 = max(4, int(np.ceil(beta / 2 * hn / 0.5)))
    errs = {}
    for N in (n1, 2 * n1):
        tau = beta / 2 / N
        s = init.copy()
        s.compress_config = tree_evolve.big_cfg()
        normalize = bool(rng.random() < 0.5)
        if scheme == "tdvp_ps2":
            s.canonicalise()        # asserted by the projector-splitting drivers
        for _ in range(N):
            s.evolve_config = tree_evolve.make_cfg(scheme)
            env.reseed_global(rng)
            s = ctx.lib(s.evolve, ttno, -1j * tau, normalize=normalize, what=f"tree-evolve|{scheme}|imag")
            s.compress_config = tree_evolve.big_cfg()
        v = tree_states.dense_of_ttns(s, order)
        rho, tr = physical_density(v, dim)
        ctx.count("oracle", 2)
        ctx.count("tree_thermal_runs")
        if normalize:
            ctx.check(abs(tr - 1.0) <= 1e-8, "tree|evolve(normalize=True)|imag|state-not-normalised", norm2=tr, scheme=scheme)
        err = float(np.linalg.norm(rho - ref))
        errs[N] = err
        x = tau * hn
        if scheme == "prop_and_compress_tdrk4":
            bound = 0.03 * N * x ** 5 + 1e-9
        else:
            # two-site splitting started from a product state: the projection error is first order globally
            bound = 0.1 * N * x ** 2 + 1e-9
        ctx.metric_max("tree_thermal_err_over_bound:" + scheme, err / bound)
        ctx.check(err <= bound, f"tree|thermal|{scheme}|physical-density-differs-from-gibbs", err=err, bound=bound, N=N, x=x,
                  beta=beta)
        # the library's own expectation value agrees with the density it represents
        e_lib = ctx.lib(s.expectation, ttno, what="TTNS.expectation")
        e_den = float(np.real(np.trace(rho @ H))) * tr
        ctx.close(float(np.real(e_lib)), e_den, 1e-8, "tree|thermal|expectation-differs-from-represented-density",
                  scale=max(1.0, hn) * max(tr, 1e-300))
        if N >= 4 and x >= 0.02:
            ctx.nontrivial(("tree-T", desc, trees.tree_shape_key(tree), round(beta, 4), N, scheme))
    ns = sorted(errs)
    # (the ratio is only a statement about the leading error term: for the two-site scheme, whose padded bond bases make the
    # error rough at the 1e-5 level - see C12 - it is measured where that term dominates)
    floor = 1e-4 if scheme == "tdvp_ps2" else 1e-6
    if errs[ns[0]] > floor and errs[ns[1]] > 1e-8:
        ctx.count("ratios_measured")
        ratio = 0.6 if scheme == "prop_and_compress_tdrk4" else 0.85
        ctx.check(errs[ns[1]] <= ratio * errs[ns[0]], f"tree|thermal|{scheme}|error-does-not-decrease-with-N", errs=errs)
