"""C01 - automatic MPO construction is exact for every sum-of-products operator; adjacent swaps keep the operator."""
import numpy as np

from rv import dense, gen

ID = "C01"
LEVEL = "exploration"
RULE = ("Random ordered basis lists (spin with/without labels, SHO incl. shifted origin and DVR, simple/multi "
        "electron, multi-DoF sites, sine-DVR, HOPS boson, dummy; 1..7 sites, prod(d) <= cap) x random term tables "
        "(1..60 terms, duplicates, partially cancelling pairs, shared prefixes, explicit identities, interleaved "
        "same-site symbols, real/complex factors over six decades, optional offset); each case is built with all "
        "three algorithms and compared with the harness's dense sum of Kronecker products, then walked through "
        "1..8 random adjacent swaps; every twelfth case has a multi-DoF site and the SAME term objects are also built in "
        "the model that gives each of its DoFs a site of its own, then again in the first model. Non-trivial: >= 3 distinct terms, some bond >= 2 and a site with >= 2 distinct "
        "non-identity local operators; distinct by hash of (basis, sorted terms, offset).")
ASSUMPTIONS = [
    "local matrices come from BasisSet.op_mat (their correctness is C16's business)",
    "absolute tolerance, T = sum_k ||term_k||_F: graph algorithms 1e-12*T (exact up to rounding); QR 1e-9*max(1,(L-1)/2)*sqrt(n+1)*sum_k (c_max/|c_k|)*||term_k||_F (L sites) "
    "because the QR variant by design drops coefficients below 1e-10*|r_00| irrespective of the operator norm they multiply; swap walks: (k+2) x the larger of the two",
    "prod(d) <= 1024 (quick: 512); the uint16/uint32 table limits (> 65535 primary operators) are out of reach",
    "complete cancellation of all terms is outside the property (no operator requested) and counted as refusal",
    "real factors with complex local matrices must raise or give the correct operator; a silently real operator is a violation",
]
ALGOS = ["qr", "Hopcroft-Karp", "Hungarian"]


def plan(tier):
    if tier == "quick":
        return {"ncases": 320, "min_nontrivial": 80, "case_time_limit": 120,
                "required_classes": ["one-term", "one-site", "offset", "complex-factor", "multi-dof-site", "swap-walk",
                                     "swap-walk:product-pair-then-overlapping-swap",
                                     "duplicate-terms", "interleaved-same-site", "identical-duplicate-term", "units:tiny", "units:huge", "long-chain",
                                     "regrouped-model"],
                "required_counters": {"oracle": 600, "swaps": 100, "regrouped": 60}}
    return {"ncases": 15000, "min_nontrivial": 4500, "case_time_limit": 300,
            "required_classes": ["one-term", "one-site", "offset", "complex-factor", "multi-dof-site", "swap-walk",
                                     "swap-walk:product-pair-then-overlapping-swap",
                                 "duplicate-terms", "interleaved-same-site", "real-factor-complex-matrix", "identical-duplicate-term",
                                 "units:tiny", "units:huge", "long-chain", "regrouped-model"],
            "required_counters": {"oracle": 30000, "swaps": 9000, "regrouped": 3000}}


def riffle(rng, siteops):
    """Write the product with words of different sites interleaved (intra-site order preserved)."""
    from renormalizer.model import Op
    queues = [[(w, d, q) for w, d, q in zip(so.words, so.dofs, so.qns)] for so in siteops]
    words, dofs, qns = [], [], []
    while any(queues):
        live = [i for i, q in enumerate(queues) if q]
        i = live[int(rng.integers(0, len(live)))]
        w, d, q = queues[i].pop(0)
        words.append(w.replace(r"b^\dagger+b", r"b^\dagger + b"))
        dofs.append(d)
        qns.append(q)
    return words, dofs, qns


def build_case(ctx):
    rng = ctx.rng
    cap = 512 if ctx.tier == "quick" else 1024
    r = rng.random()
    if r < 0.06:
        nsite = (1, 1)
    elif r < 0.5:
        nsite = (2, 4)
    else:
        nsite = (3, 7)
    if r > 0.96:
        gm = gen.long_chain(rng, 10, 10 if ctx.tier == "quick" else 11)
        ctx.cls("long-chain")
    elif ctx.idx % 12 == 7:
        # a site carrying several DoFs that can also be given one site each (see the regrouping stage of run_case)
        for _ in range(40):
            gm = gen.random_basis_list(rng, nsite=(2, 4), max_dim=cap, qn_mode="one",
                                       kinds=["multivac", "multivac", "sho", "spin", "elec"])
            if any(type(b).__name__ == "BasisMultiElectronVac" and len(b.dofs) >= 2 for b in gm.basis):
                ctx.regroup = True
                break
    else:
        gm = gen.random_basis_list(rng, nsite=nsite, max_dim=cap)
    if len(gm.basis) == 1:
        ctx.cls("one-site")
    from renormalizer.model import basis as ba, Op
    if any(b.multi_dof for b in gm.basis):
        ctx.cls("multi-dof-site")
    if any(isinstance(b, ba.BasisSHO) and b.x0 != 0 for b in gm.basis):
        ctx.cls("sho-shifted-origin")
    if any(isinstance(b, ba.BasisSHO) and b.dvr for b in gm.basis):
        ctx.cls("sho-dvr")
    ctx.cls("qn-" + gm.desc["qn_mode"])
    r = rng.random()
    if r < 0.08:
        nterms = 1
    elif r < 0.6:
        nterms = int(rng.integers(2, 12))
    else:
        nterms = int(rng.integers(12, 61))
    complex_factors = rng.random() < 0.4
    allow_complex = complex_factors or rng.random() < 0.25
    terms = gen.random_terms(rng, gm, nterms, allow_complex=allow_complex, complex_factors=complex_factors)
    ctx.pair = None
    if not hasattr(ctx, "regroup"):
        ctx.regroup = False
    if len(gm.basis) >= 3 and rng.random() < 0.12:
        # every term is the SAME product A_i B_{i+1} on two adjacent sites times something on the other sites: the operator
        # bonds left of, between and right of the pair have dimension one, the other bonds do not
        i0 = int(rng.integers(0, len(gm.basis) - 1))
        cat_a = [so for so in gm.catalog[i0] if (allow_complex or not so.is_complex) and set(so.words) != {"I"}]
        cat_b = [so for so in gm.catalog[i0 + 1] if (allow_complex or not so.is_complex) and set(so.words) != {"I"}]
        rest = []
        for _ in range(200):
            if len(rest) >= max(2, min(nterms, 8)):
                break
            so = gen.random_siteops(rng, gm, allow_complex=allow_complex)
            if so is None:
                continue
            so = [x for x in so if x.site not in (i0, i0 + 1)]
            if so:
                rest.append(so)
        if cat_a and cat_b and len(rest) >= 2:
            A, B = cat_a[int(rng.integers(0, len(cat_a)))], cat_b[int(rng.integers(0, len(cat_b)))]
            terms = [gen.make_op([A, B] + so, gen.random_factor(rng, complex_factors, 1)) for so in rest]
            ctx.pair = i0
            ctx.cls("terms:common-product-on-an-adjacent-pair")
    # interleaved same-site symbols: rewrite some multi-site terms with a riffled word order
    new_terms = []
    for t in terms:
        if len(set(t.dofs)) > 1 and len(t.dofs) > 2 and rng.random() < 0.3:
            dof2site = dense.dof_site_map(gm.basis)
            groups = dense.site_groups(t, dof2site)
            queues = [list(v) for v in groups.values()]
            words, dofs, qns = [], [], []
            while any(queues):
                live = [i for i, q in enumerate(queues) if q]
                i = live[int(rng.integers(0, len(live)))]
                w, d, q = queues[i].pop(0)
                words.append(w.replace(r"b^\dagger+b", r"b^\dagger + b"))
                dofs.append(d)
                qns.append(q)
            sites_seq = [dof2site[d] for d in dofs]
            # interleaved when some site's words are not contiguous
            seen, last, inter = set(), None, False
            for s in sites_seq:
                if s != last and s in seen:
                    inter = True
                seen.add(s)
                last = s
            if inter:
                ctx.cls("interleaved-same-site")
            new_terms.append(Op(" ".join(words), dofs, t.factor, qn=qns))
        else:
            new_terms.append(t)
    terms = new_terms
    if rng.random() < 0.1 and terms:
        # a zero-factor term (must be ignored)
        t = terms[int(rng.integers(0, len(terms)))]
        terms.insert(int(rng.integers(0, len(terms) + 1)), Op(t.symbol, t.dofs, 0.0, qn=t.qn_list))
        ctx.cls("zero-factor-term")
    if rng.random() < 0.15 and terms:
        # the same term (symbols, DoFs AND factor) listed twice, e.g. a double loop over neighbours
        t = terms[int(rng.integers(0, len(terms)))]
        terms.insert(int(rng.integers(0, len(terms) + 1)), Op(t.symbol, t.dofs, t.factor, qn=t.qn_list))
        ctx.cls("identical-duplicate-term")
    offset = 0.0
    if rng.random() < 0.3:
        offset = float(rng.choice([1.0, -2.5, 0.013, 37.0]))
        ctx.cls("offset")
    if rng.random() < 0.15:
        # other units: every coefficient (and the offset) tiny or huge in absolute value
        g = float(rng.choice([1e-10, 1e-7, 1e9]))
        terms = [Op(t.symbol, t.dofs, t.factor * g, qn=t.qn_list) for t in terms]
        offset *= g
        ctx.cls("units:tiny" if g < 1 else "units:huge")
    return gm, terms, offset


def run_case(ctx):
    from renormalizer.model import Model
    from renormalizer.mps import Mpo
    from renormalizer.utils import Quantity
    rng = ctx.rng
    gm, terms, offset = build_case(ctx)
    basis = gm.basis
    nz_terms = [t for t in terms if t.factor != 0]
    if len(nz_terms) == 1:
        ctx.cls("one-term")
    keys = [(t.symbol, tuple(map(repr, t.dofs))) for t in nz_terms]
    if len(set(keys)) < len(keys):
        ctx.cls("duplicate-terms")
    any_complex_factor = any(isinstance(t.factor, complex) and t.factor.imag != 0 for t in nz_terms)
    if any_complex_factor:
        ctx.cls("complex-factor")
    ctx.describe({"model": gm.describe(), "terms": gen.terms_describe(terms, 60), "offset": offset})
    ref, norms = dense.op_dense(basis, nz_terms, offset, return_norms=True)
    scale = max(1.0, float(np.linalg.norm(ref)))
    # tolerances (absolute): graph algorithms are exact up to rounding of the sum; the QR variant discards
    # coefficients below 1e-10 * (largest coefficient), whatever the norm of the operator they multiply
    facs = [abs(t.factor) for t in nz_terms] + ([abs(offset)] if offset != 0 else [])
    cmax = max(facs) if facs else 1.0
    T = sum(norms) + 1e-300
    S = sum(n * cmax / f for n, f in zip(norms, facs)) + 1e-300
    # every one of the L-1 decompositions of the QR variant makes a drop of that relative size of its own
    nbond_fac = max(1.0, (len(basis) - 1) / 2)
    tol_abs = {"Hopcroft-Karp": 1e-12 * T, "Hungarian": 1e-12 * T, "qr": 1e-9 * nbond_fac * np.sqrt(len(facs) + 1) * S}
    ctx.metrics["sum_term_norms"] = T
    dof2site = dense.dof_site_map(basis)
    any_complex_local = any(np.iscomplexobj(dense.local_matrix(basis[s], items))
                            for t in nz_terms for s, items in dense.site_groups(t, dof2site).items())
    complex_matrix_real_factor = (not any_complex_factor) and any_complex_local
    if complex_matrix_real_factor:
        ctx.cls("real-factor-complex-matrix")

    results = {}
    for algo in ALGOS:
        model = Model(list(basis), [])
        try:
            mpo = Mpo(model, list(terms), offset=Quantity(offset), algo=algo)
        except Exception as e:  # noqa: BLE001
            msg = f"{type(e).__name__}: {str(e)[:100]}"
            if len(nz_terms) == 0:
                ctx.refuse("all terms have zero factor")
                return
            if float(np.linalg.norm(ref)) <= 1e-12 * max(1.0, max(abs(t.factor) for t in nz_terms)):
                ctx.refuse("terms cancel completely: " + type(e).__name__)
                ctx.cls("complete-cancellation")
                return
            if complex_matrix_real_factor and "Cannot cast" in str(e):
                ctx.refuse("real factors with complex local matrices: same-kind cast refused")
                ctx.count("complex-cast-refused")
                return
            from rv.case import _innermost_repo_frame
            ctx.violate(f"construct|{algo}|crash|{type(e).__name__}@{_innermost_repo_frame(e)}", message=msg)
            return
        got = mpo.todense()
        ctx.count("oracle")
        results[algo] = mpo
        ok = ctx.close(got, ref, tol_abs[algo], f"dense-mismatch|{algo}", scale=1.0,
                       bond_dims=list(map(int, mpo.bond_dims)), ref_norm=scale)
        ctx.metric_max(f"err_over_tol:{algo}", float(np.linalg.norm(got - ref)) / tol_abs[algo] if got.shape == ref.shape else 0)
        if not ok:
            continue
        if complex_matrix_real_factor:
            ctx.count("complex-matrix-correct")
    if len(results) == len(ALGOS):
        # differential: the three algorithms agree with each other (already implied by the absolute check)
        ctx.count("differential")
    mpo0 = results.get("Hopcroft-Karp") or next(iter(results.values()), None)
    if mpo0 is None:
        return
    # ---- the same term objects in a model that partitions the same DoFs into sites differently ---------
    if getattr(ctx, "regroup", False):
        from renormalizer.model import basis as ba
        split_basis = []
        for b in basis:
            if isinstance(b, ba.BasisMultiElectronVac) and len(b.dofs) >= 2:
                split_basis.extend(ba.BasisMultiElectronVac([d]) for d in b.dofs)
            else:
                split_basis.append(b)
        dim2 = int(np.prod([b.nbas for b in split_basis]))
        if dim2 <= 2048:
            ctx.cls("regrouped-model")
            ref2, norms2 = dense.op_dense(split_basis, nz_terms, offset, return_norms=True)
            T2 = sum(norms2) + 1e-300
            S2 = sum(n * cmax / f for n, f in zip(norms2, facs)) + 1e-300
            tol2 = {"Hopcroft-Karp": 1e-12 * T2, "Hungarian": 1e-12 * T2, "qr": 1e-9 * max(1.0, (len(split_basis) - 1) / 2) * np.sqrt(len(facs) + 1) * S2}
            for algo in ALGOS:
                # one site per DoF, then again the original partition: nothing remembered from the other model may leak
                for tag, bl, rf, tl in (("split", split_basis, ref2, tol2), ("merged-again", basis, ref, tol_abs)):
                    m2 = ctx.lib(Mpo, Model(list(bl), []), list(terms), offset=Quantity(offset), algo=algo,
                                 what=f"Mpo|regrouped|{tag}|{algo}")
                    ctx.count("oracle")
                    ctx.count("regrouped")
                    ctx.close(m2.todense(), rf, tl[algo], f"dense-mismatch|regrouped-model|{tag}|{algo}", scale=1.0,
                              sites=len(bl))
    # non-triviality
    distinct_terms = len(set((t.symbol, tuple(map(repr, t.dofs))) for t in nz_terms))
    site_ops = {}
    for t in nz_terms:
        for s, items in dense.site_groups(t, dof2site).items():
            words = tuple(w for w, _, _ in items)
            if set(words) != {"I"}:
                site_ops.setdefault(s, set()).add((words, tuple(map(repr, (d for _, d, _ in items)))))
    if distinct_terms >= 3 and max(mpo0.bond_dims) >= 2 and any(len(v) >= 2 for v in site_ops.values()):
        ctx.nontrivial({"basis": gm.describe(), "terms": sorted(map(str, nz_terms)), "offset": offset})

    # ---- swap walks --------------------------------------------------------------------------------
    nsite = len(basis)
    if nsite >= 2 and (rng.random() < (0.6 if ctx.tier == "quick" else 0.45) or getattr(ctx, "pair", None) is not None):
        ctx.cls("swap-walk")
        algo = ALGOS[int(rng.integers(0, 3))]
        mpo = results.get(algo)
        if mpo is None:
            return
        swap_algo = ALGOS[int(rng.integers(0, 3))]
        # A QR swap re-decomposes a two-site table in which the coefficients stand next to the structural unit
        # entries of the symbolic MPO and drops what is below 1e-10 of the largest entry (by design, see 8.2):
        # it presupposes coefficients within a few decades of unity.  Outside that range a graph algorithm is used.
        lo, hi = min([1.0] + facs), max([1.0] + facs) * max(1, len(facs))
        if swap_algo == "qr" and hi / lo > 1e7:
            ctx.cls("qr-swap-skipped:coefficients-far-from-unity")
            swap_algo = ALGOS[1 + int(rng.integers(0, 2))]
        order = list(range(nsite))
        cur_basis = list(basis)
        nsw = int(rng.integers(1, 9))
        forced = []
        pair = getattr(ctx, "pair", None)
        if pair is not None:
            # exchange the product pair first, then a swap that overlaps it
            nb = [j for j in (pair - 1, pair + 1) if 0 <= j < nsite - 1]
            forced = [pair, nb[int(rng.integers(0, len(nb)))]]
            nsw = max(nsw, 3)
            ctx.cls("swap-walk:product-pair-then-overlapping-swap")
        for k in range(nsw):
            i = forced[k] if k < len(forced) else int(rng.integers(0, nsite - 1))
            cur_basis[i], cur_basis[i + 1] = cur_basis[i + 1], cur_basis[i]
            order[i], order[i + 1] = order[i + 1], order[i]
            new_model = Model(list(cur_basis), [])
            ctx.lib(mpo.try_swap_site, new_model, False, algo=swap_algo, what=f"try_swap_site|{swap_algo}")
            ctx.count("swaps")
            got = mpo.todense()
            ref_k = dense.op_dense(cur_basis, nz_terms, offset)
            tol_k = (k + 2) * max(tol_abs[algo], tol_abs[swap_algo])
            ctx.metric_max("err_over_tol:swap", float(np.linalg.norm(got - ref_k)) / tol_k if got.shape == ref_k.shape else 0)
            if not ctx.close(got, ref_k, tol_k, f"swap-mismatch|built={algo}|swap={swap_algo}", scale=1.0, step=k,
                             order=order, ref_norm=scale):
                break
            # the stored labels must describe the new bond
            ctx.check(len(mpo.qn[i + 1]) == mpo.bond_dims[i + 1], "swap-qn-length", step=k)
