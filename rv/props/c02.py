"""C02 - TTNO construction is exact and independent of the tree topology."""
import numpy as np

from rv import dense, gen

ID = "C02"
LEVEL = "exploration"
RULE = ("Random models (2..7 physical basis sets of every kind of the generator, nbas >= 2, prod(d) <= cap, none/one/two "
        "quantum numbers) x random term tables (1..40 terms: duplicates, partially cancelling pairs, shared prefixes, "
        "explicit identities, several symbols per site, interleaved same-site symbols, zero-factor terms, real factors over six decades) x >= 3 distinct rooted trees per "
        "case drawn from BasisTree.linear / binary / general_mctdh (order 2 and 3, plain, contract_primitive, random "
        "contract_label) / t3ns (optionally over a shuffled basis order) and hand-made random recursive trees (random "
        "parent array, 1..3 basis sets per node, arity <= 3, purely virtual nodes as root / internal node / leaf, the "
        "library's own TreeNodeBasis() dummies); every tree is built with Hopcroft-Karp, Hungarian and qr and "
        "TTNO.todense(generation order) is compared with the harness's dense sum of Kronecker products, with the other "
        "trees and with the chain Mpo of the same algorithm; tree.basis_list/dof_list are compared with the input as "
        "multisets. Non-trivial: (tree, algo) with >= 1 node having >= 2 children or >= 2 basis sets, >= 3 distinct "
        "terms and some TTNO bond >= 2; distinct by hash of (tree shape with child order, sorted term list, algo).")
ASSUMPTIONS = [
    "local matrices come from BasisSet.op_mat (their correctness is C16's business)",
    "every non-dummy basis set has nbas >= 2: TTNO.todense squeezes size-1 axes, so a one-state physical set cannot be "
    "addressed by todense(order) (limit of the observable, not judged)",
    "absolute tolerances, n terms, T = sum_k ||term_k||_F: graph algorithms 1e-12*T as in C01; qr (n_nodes)*1e-10*sqrt(n+1)*c_max*n*P with "
    "P = prod_sites max_k ||local operator of term k||_F: each of the n_nodes QR steps drops coefficients below 1e-10*|r_00| by design, and they "
    "multiply products of the left part of one term with the right part of another (C01's bound with sum_k ||O_k|| in place of n*P was reached "
    "to 75 % by one tree in 4000 calibration cases; both ratios are reported under worst_observed); in about 1 % of the cases (huge local norms, "
    "e.g. x^4 at omega=0.013) the qr bound exceeds 1e-3 of the operator norm (counter qr-tol-above-1e-3-of-ref) - the graph algorithms "
    "stay tight there; pairwise / chain comparisons use the sum of the two tolerances",
    "prod(d) <= 1024 (quick: 512), <= 40 terms; uint16 table limits out of reach",
    "complex factors or complex-typed local matrices: the TTNO asserts 'complex operator not supported yet' (documented refusal); "
    "the class is generated on purpose and must be refused that way or give the correct operator",
    "BasisTree.general_mctdh / t3ns create one-component virtual basis sets and therefore raise 'Inconsistent quantum number size' "
    "for two-component models: no tree is produced, counted as refusal (constructor-refused-two-qn)",
    "auxiliary-space trees only for models without multi-DoF basis sets (add_auxiliary_space builds the Q copy of a multi-DoF set "
    "with a wrong DoF list; not this property's subject) and prod(d) <= 32; tolerance scaled by sqrt(dim Q)",
    "complete cancellation of all terms is outside the property (no operator requested) and counted as refusal",
]
ALGOS = ["Hopcroft-Karp", "Hungarian", "qr"]
COMPLEX_MSG = "complex operator not supported yet"
QN_MSG = "Inconsistent quantum number size"

_KINDS = ["linear", "binary", "mctdh2", "mctdh3", "mctdh2-contract", "mctdh3-contract", "mctdh2-label",
          "mctdh3-label", "t3ns", "random"]
_REQUIRED = (["kind:" + k for k in _KINDS] + ["algo:" + a for a in ALGOS]
             + ["dummy-root", "dummy-internal", "dummy-leaf", "multi-set-node", "three-set-node", "arity-3",
                "unary-node", "qn-none", "qn-one", "qn-two", "multi-set-node-coupled", "library-auto-dummy",
                "hand-made-dummy-root", "hand-made-dummy-internal", "hand-made-dummy-leaf", "shuffled-order",
                "complex-class", "multi-dof-site", "kind:aux-space", "interleaved-same-site", "zero-factor-term", "one-term",
                "units:tiny", "units:huge", "kind:wide", "node-with-8-or-more-legs"])


def plan(tier):
    if tier == "quick":
        return {"ncases": 300, "min_nontrivial": 800, "case_time_limit": 120, "required_classes": _REQUIRED,
                "required_counters": {"oracle": 1500, "pairwise": 1200, "vs-mpo": 1300, "multiset": 700,
                                      "complex-refused": 15}}
    return {"ncases": 4000, "min_nontrivial": 12000, "case_time_limit": 300, "required_classes": _REQUIRED,
            "required_counters": {"oracle": 30000, "pairwise": 25000, "vs-mpo": 28000, "multiset": 12000,
                                  "complex-refused": 300}}


# ------------------------------------------------------------------------------------------- generation
def build_model(ctx):
    from rv import trees
    rng = ctx.rng
    cap = 512 if ctx.tier == "quick" else 1024
    r = rng.random()
    nsite = (2, 4) if r < 0.4 else (3, 7)
    for _ in range(200):
        gm = gen.random_basis_list(rng, nsite=nsite, max_dim=cap, min_dim=4)
        phys = [b for b in gm.basis if not trees.is_dummy(b)]
        if 2 <= len(phys) <= 7 and all(b.nbas >= 2 for b in phys):
            return gm
    raise RuntimeError("no model with nbas >= 2 on every physical basis set")


def build_terms(ctx, gm, complex_class):
    rng = ctx.rng
    r = rng.random()
    if r < 0.06:
        nterms = 1
    elif r < 0.6:
        nterms = int(rng.integers(2, 12))
    else:
        nterms = int(rng.integers(12, 41))
    terms = gen.random_terms(rng, gm, nterms, allow_complex=complex_class, complex_factors=complex_class)
    terms = decorate_terms(ctx, gm, terms)
    if rng.random() < 0.12:
        # other units: every coefficient tiny or huge in absolute value (all tolerances of the check are relative to the terms)
        from renormalizer.model import Op
        g = float(rng.choice([1e-10, 1e-7, 1e9]))
        terms = [Op(t.symbol, t.dofs, t.factor * g, qn=t.qn_list) for t in terms]
        ctx.cls("units:tiny" if g < 1 else "units:huge")
    return terms


def decorate_terms(ctx, gm, terms):
    """As in C01: some multi-site products are written with the words of different sites interleaved (intra-site
    order kept), and now and then a zero-factor term is inserted (must be ignored)."""
    from renormalizer.model import Op
    rng = ctx.rng
    dof2site = dense.dof_site_map(gm.basis)
    out = []
    for t in terms:
        if len(set(t.dofs)) > 1 and len(t.dofs) > 2 and rng.random() < 0.3:
            queues = [list(v) for v in dense.site_groups(t, dof2site).values()]
            words, dofs, qns = [], [], []
            while any(queues):
                live = [i for i, q in enumerate(queues) if q]
                w, d, q = queues[live[int(rng.integers(0, len(live)))]].pop(0)
                words.append(w.replace(r"b^\dagger+b", r"b^\dagger + b"))
                dofs.append(d)
                qns.append(q)
            seen, last = set(), None
            for s in (dof2site[d] for d in dofs):
                if s != last and s in seen:
                    ctx.cls("interleaved-same-site")
                seen.add(s)
                last = s
            out.append(Op(" ".join(words), dofs, t.factor, qn=qns))
        else:
            out.append(t)
    if out and rng.random() < 0.1:
        t = out[int(rng.integers(0, len(out)))]
        out.insert(int(rng.integers(0, len(out) + 1)), Op(t.symbol, t.dofs, 0.0, qn=t.qn_list))
        ctx.cls("zero-factor-term")
    return out


def choose_trees(ctx, basis, qn_mode, wide=False):
    """>= 3 trees with pairwise different shapes (child order included)."""
    from rv import trees
    rng = ctx.rng
    want = 3 if ctx.tier == "quick" else int(rng.integers(3, 6))
    if ctx.tier == "quick" and rng.random() < 0.35:
        want = 4
    mctdh_like = ["mctdh2", "mctdh3", "mctdh2-contract", "mctdh3-contract", "mctdh2-label", "mctdh3-label", "t3ns"]
    plain = ["linear", "binary", "random"]
    kinds = ["random", mctdh_like[int(rng.integers(0, len(mctdh_like)))]]
    if wide:
        kinds = ["wide", "wide", "linear"]
    while len(kinds) < want:
        pool = plain + mctdh_like
        kinds.append(pool[int(rng.integers(0, len(pool)))])
    out, keys = [], set()
    attempts = 0
    queue = list(kinds)
    while queue and attempts < 4 * want + 8:
        attempts += 1
        kind = queue.pop(0)
        shuffle = bool(rng.random() < 0.5)
        kw = {}
        if kind == "random":
            force = [None, None, ["root"], ["internal"], ["leaf"], ["root", "internal", "leaf"]][int(rng.integers(0, 6))]
            kw = {"force_virtual": force}
        try:
            tree, desc = trees.build_tree(kind, basis, rng, shuffle=shuffle, **kw)
        except ValueError as e:
            if QN_MSG in str(e) and qn_mode == "two" and kind != "random":
                ctx.count("constructor-refused-two-qn")
                ctx.cls("constructor-refused-two-qn")
                queue.append(plain[int(rng.integers(0, 3))])
                continue
            from rv.case import _innermost_repo_frame
            ctx.violate(f"tree-constructor-crash|{kind}|{type(e).__name__}@{_innermost_repo_frame(e)}",
                        message=str(e)[:200])
            continue
        except Exception as e:  # noqa: BLE001
            from rv.case import _innermost_repo_frame
            ctx.violate(f"tree-constructor-crash|{kind}|{type(e).__name__}@{_innermost_repo_frame(e)}",
                        message=str(e)[:200])
            continue
        key = trees.tree_shape_key(tree)
        if key in keys:
            # same rooted ordered tree again (small models): draw another kind
            queue.append((plain + mctdh_like)[int(rng.integers(0, 10))])
            continue
        keys.add(key)
        if shuffle and desc["options"].get("order") != sorted(desc["options"].get("order", [])):
            ctx.cls("shuffled-order")
        out.append((kind, tree, desc, key))
    return out


def classify_tree(ctx, kind, tree, desc, terms, dof2basis):
    from rv import trees
    f = trees.tree_features(tree)
    ctx.cls("kind:" + kind)
    hand = kind == "random"
    for role in ("root", "internal", "leaf"):
        if f["dummy_" + role]:
            ctx.cls("dummy-" + role)
            if hand:
                ctx.cls("hand-made-dummy-" + role)
            elif role == "leaf" and kind.startswith("mctdh"):
                ctx.cls("library-empty-group-dummy-leaf")
    if f["multi_set"]:
        ctx.cls("multi-set-node")
    if f["max_sets"] >= 3:
        ctx.cls("three-set-node")
    if f["max_arity"] >= 3:
        ctx.cls("arity-3")
    if max(len(nd.children) + len(nd.basis_sets) for nd in tree.node_list) >= 8:
        ctx.cls("node-with-8-or-more-legs")
    if f["unary"]:
        ctx.cls("unary-node")
    if f["mixed_dummy_set"]:
        ctx.cls("dummy-set-on-multi-set-node")
    if hand and desc["options"].get("auto_virtual_nodes", 0):
        ctx.cls("library-auto-dummy")
    # a term that acts non-trivially on >= 2 basis sets of one node (exercises the k > 1 columns jointly)
    coupled = False
    for nd in tree.node_list:
        if len(nd.basis_sets) < 2:
            continue
        ids = {id(b) for b in nd.basis_sets}
        for t in terms:
            hit = {id(dof2basis[d]) for w, d in zip(t.split_symbol, t.dofs) if w != "I" and id(dof2basis[d]) in ids}
            if len(hit) >= 2:
                coupled = True
                break
        if coupled:
            break
    if coupled:
        ctx.cls("multi-set-node-coupled")
    structured = f["max_arity"] >= 2 or f["multi_set"]
    return f, structured


# -------------------------------------------------------------------------------------------------- case
def run_case(ctx):
    from renormalizer.model import Model
    from renormalizer.mps import Mpo
    from renormalizer.tn import TTNO
    from rv import trees
    from rv.case import _innermost_repo_frame
    rng = ctx.rng
    wide = bool(rng.random() < 0.07)
    if wide:
        # eight or nine two-state sets: room for a node with eight and more legs (children + own basis sets)
        gm = gen.long_chain(rng, 8, 8)
        ctx.cls("many-basis-sets")
    else:
        gm = build_model(ctx)
    basis = gm.basis
    qn_mode = gm.desc["qn_mode"]
    ctx.cls("qn-" + qn_mode)
    if any(b.multi_dof for b in basis):
        ctx.cls("multi-dof-site")
    if any(trees.is_dummy(b) for b in basis):
        ctx.cls("input-dummy-basis-set")
    want_complex = bool(rng.random() < 0.12)
    terms = build_terms(ctx, gm, want_complex)
    if wide:
        # (a node tensor with eight operator legs has prod(bond dims) entries: few terms keep the pure-Python assembly short)
        terms = terms[:int(rng.integers(3, 9))]
    nz_terms = [t for t in terms if t.factor != 0]
    if not nz_terms:
        ctx.refuse("no terms")
        return
    dof2site = dense.dof_site_map(basis)
    dof2basis = {d: b for b in basis for d in b.dofs}
    any_complex_factor = any(isinstance(t.factor, complex) and t.factor.imag != 0 for t in nz_terms)
    any_complex_local = any(np.iscomplexobj(dense.local_matrix(basis[s], items))
                            for t in nz_terms for s, items in dense.site_groups(t, dof2site).items())
    is_complex = any_complex_factor or any_complex_local
    if is_complex:
        ctx.cls("complex-class")
        assert want_complex, "real generator produced a complex operator"
    if len(nz_terms) == 1:
        ctx.cls("one-term")
    keys = [(t.symbol, tuple(map(repr, t.dofs))) for t in nz_terms]
    distinct_terms = len(set(keys))
    if distinct_terms < len(keys):
        ctx.cls("duplicate-terms")

    chosen = choose_trees(ctx, basis, qn_mode, wide=wide)
    if is_complex:
        chosen = chosen[:2]
    ctx.describe({"model": gm.describe(), "terms": gen.terms_describe(terms, 40),
                  "trees": [d for _, _, d, _ in chosen]})
    if len(chosen) < 3 and not is_complex:
        ctx.cls("fewer-than-3-topologies")

    ref, norms = dense.op_dense(basis, nz_terms, 0.0, return_norms=True)
    ref_norm = float(np.linalg.norm(ref))
    facs = [abs(t.factor) for t in nz_terms]
    cmax = max(facs)
    T = sum(norms) + 1e-300
    S = sum(n * cmax / f for n, f in zip(norms, facs)) + 1e-300
    # QR: every decomposition step (one per node) drops coefficients below 1e-10*|r_00| whatever operator they
    # multiply; that operator is a product (left part of one term) x (right part of another), so its Frobenius norm is
    # bounded by P = prod_sites max_k ||local operator of term k on the site||_F (identity: sqrt(d)), and |r_00| by
    # sqrt(n+1)*c_max.  C01's bound (S in place of n*P) was reached to 75 % by a tree in calibration.
    site_max = [float(np.sqrt(b.nbas)) for b in basis]
    for t in nz_terms:
        for s_, items in dense.site_groups(t, dof2site).items():
            site_max[s_] = max(site_max[s_], float(np.linalg.norm(dense.local_matrix(basis[s_], items))))
    P = float(np.prod(site_max))
    qr_step = 1e-10 * np.sqrt(len(facs) + 1) * max(cmax * len(facs) * P, S)     # n*P*c_max >= S by construction

    def tol_of(algo, n_steps):
        if algo == "qr":
            return qr_step * max(n_steps, 1)
        return 1e-12 * T

    tol_chain = {algo: tol_of(algo, len(basis)) for algo in ALGOS}
    cancelled = ref_norm <= 1e-12 * max(1.0, cmax)

    # ---- the tree constructors keep every basis set exactly once --------------------------------------
    for kind, tree, desc, key in chosen:
        ok, detail = trees.same_basis_multiset(tree, basis)
        ctx.count("multiset")
        if detail["lost"]:
            ctx.violate(f"tree-loses-basis-set|{kind}", **detail)
        if detail["duplicated"] or detail["duplicated_dofs"]:
            ctx.violate(f"tree-duplicates-basis-set|{kind}", **detail)
        if detail["foreign"]:
            ctx.violate(f"tree-invents-basis-set|{kind}", **detail)
        post = tree.basis_list_postorder
        ctx.check(len(post) == len(tree.basis_list) and {id(b) for b in post} == {id(b) for b in tree.basis_list},
                  f"tree-postorder-list-differs|{kind}")
        classify_tree(ctx, kind, tree, desc, nz_terms, dof2basis)
    if ctx.violations:
        return

    # ---- complex class: refused with the documented assertion, or correct -------------------------------
    if is_complex:
        for kind, tree, desc, key in chosen:
            for algo in ALGOS:
                try:
                    op = TTNO(tree, list(terms), algo=algo)
                    got = op.todense(list(basis))
                except AssertionError as e:
                    if COMPLEX_MSG in str(e):
                        ctx.count("complex-refused")
                        ctx.refuse("TTNO: " + COMPLEX_MSG)
                    else:
                        ctx.refuse(f"TTNO(complex class): AssertionError@{_innermost_repo_frame(e)}: {str(e)[:60]}")
                    continue
                except Exception as e:  # noqa: BLE001 - outside the promised class
                    ctx.refuse(f"TTNO(complex class): {type(e).__name__}@{_innermost_repo_frame(e)}: {str(e)[:60]}")
                    continue
                ctx.count("complex-accepted")
                ctx.close(got, ref, 2 * tol_of(algo, len(tree.node_list)), f"complex-operator-silently-wrong|{algo}", scale=1.0,
                          kind=kind, ref_norm=ref_norm, ref_imag_norm=float(np.linalg.norm(np.imag(ref))))
        return

    # ---- chain MPO of the same terms -----------------------------------------------------------------
    chain = {}
    for algo in ALGOS:
        try:
            chain[algo] = Mpo(Model(list(basis), []), list(terms), algo=algo).todense()
        except Exception as e:  # noqa: BLE001 - the chain is C01's subject; here it is only a second reference
            if cancelled:
                ctx.refuse("terms cancel completely: " + type(e).__name__)
                ctx.cls("complete-cancellation")
                return
            ctx.count("chain-mpo-unavailable")

    # ---- TTNO of every tree with every algorithm --------------------------------------------------------
    results = {algo: [] for algo in ALGOS}
    for kind, tree, desc, key in chosen:
        feats = trees.tree_features(tree)
        structured = feats["max_arity"] >= 2 or feats["multi_set"]
        for algo in ALGOS:
            ctx.cls("algo:" + algo)
            try:
                op = TTNO(tree, list(terms), algo=algo)
                got = op.todense(list(basis))
                bond_dims = [int(x) for x in op.bond_dims]
            except Exception as e:  # noqa: BLE001
                if cancelled:
                    ctx.refuse("terms cancel completely: " + type(e).__name__)
                    ctx.cls("complete-cancellation")
                    return
                ctx.violate(f"ttno-crash|{algo}|{kind}|{type(e).__name__}@{_innermost_repo_frame(e)}",
                            message=f"{type(e).__name__}: {str(e)[:200]}", shape=desc["shape"], features=feats)
                continue
            ctx.count("oracle")
            ctx.evaluations += 1
            tol = tol_of(algo, len(tree.node_list))
            ok = ctx.close(got, ref, tol, f"ttno-dense-mismatch|{algo}|{kind}", scale=1.0,
                           bond_dims=bond_dims, ref_norm=ref_norm, shape=desc["shape"], features=feats)
            if got.shape == ref.shape:
                ctx.metric_max(f"err_over_tol:{algo}", float(np.linalg.norm(got - ref)) / tol)
                if algo == "qr":
                    ctx.metric_max("err_over_c01_tol:qr", float(np.linalg.norm(got - ref)) / (1e-9 * np.sqrt(len(facs) + 1) * S))
                    if ref_norm > 0:
                        ctx.metric_max("qr_tol_over_ref_norm(log10)", float(np.log10(tol / ref_norm)))
                        ctx.count("qr-tol-below-1e-3-of-ref" if tol < 1e-3 * ref_norm else "qr-tol-above-1e-3-of-ref")
            ctx.check(not np.iscomplexobj(got) or float(np.linalg.norm(np.imag(got))) == 0.0,
                      f"ttno-real-class-complex-result|{algo}")
            if ok:
                results[algo].append((kind, key, got, tol))
            if algo in chain and got.shape == chain[algo].shape:
                ctx.count("vs-mpo")
                ctx.close(got, chain[algo], tol + tol_chain[algo], f"ttno-vs-chain-mpo|{algo}|{kind}", scale=1.0,
                          shape=desc["shape"])
            if structured and distinct_terms >= 3 and max(bond_dims) >= 2:
                ctx.nontrivial({"shape": key, "terms": sorted(map(str, nz_terms)), "algo": algo})

    # ---- auxiliary-space tree of one topology: every node carries P and Q sets (2..6 sets per node) ---------
    dim = ref.shape[0]
    if dim <= 32 and not any(b.multi_dof for b in basis) and chosen and rng.random() < 0.7:
        kind0, tree0, desc0, key0 = chosen[int(rng.integers(0, len(chosen)))]
        try:
            atree, adesc, pairs = trees.auxiliary_space_tree(tree0)
        except Exception as e:  # noqa: BLE001 - add_auxiliary_space itself is not this property's subject
            ctx.refuse(f"add_auxiliary_space: {type(e).__name__}@{_innermost_repo_frame(e)}")
            atree = None
        if atree is not None:
            ctx.cls("kind:aux-space")
            phys = [b for b in basis if not trees.is_dummy(b)]
            qof = {id(p): q for p, q in pairs}
            order = phys + [qof[id(p)] for p in phys]
            ok, detail = trees.same_basis_multiset(atree, list(basis) + [qof[id(p)] for p in phys])
            ctx.count("multiset")
            ctx.check(ok, "tree-loses-basis-set|aux-space", **detail)
            want = np.kron(ref, np.eye(dim))
            akey = trees.tree_shape_key(atree)
            if max(len(nd.basis_sets) for nd in atree.node_list) >= 4:
                ctx.cls("four-or-more-sets-node")
            for algo in ALGOS:
                try:
                    op = TTNO(atree, list(terms), algo=algo)
                    got = op.todense(order)
                    bond_dims = [int(x) for x in op.bond_dims]
                except Exception as e:  # noqa: BLE001
                    ctx.violate(f"ttno-crash|{algo}|aux-space|{type(e).__name__}@{_innermost_repo_frame(e)}",
                                message=f"{type(e).__name__}: {str(e)[:200]}", shape=adesc["shape"])
                    continue
                ctx.count("oracle")
                ctx.evaluations += 1
                ctx.close(got, want, tol_of(algo, len(atree.node_list)) * np.sqrt(dim),
                          f"ttno-dense-mismatch|{algo}|aux-space", scale=1.0,
                          bond_dims=bond_dims, shape=adesc["shape"], base_kind=kind0)
                if distinct_terms >= 3 and max(bond_dims) >= 2:
                    ctx.nontrivial({"shape": akey, "terms": sorted(map(str, nz_terms)), "algo": algo})

    # ---- two trees over the same degrees of freedom give the same operator ---------------------------------
    for algo in ALGOS:
        lst = results[algo]
        for i in range(len(lst)):
            for j in range(i + 1, len(lst)):
                ctx.count("pairwise")
                ki, kj = sorted([lst[i][0], lst[j][0]])
                ctx.close(lst[i][2], lst[j][2], lst[i][3] + lst[j][3], f"topology-disagreement|{algo}|{ki}|{kj}",
                          scale=1.0)
    # the algorithms agree on one tree (implied by the absolute check; counted only)
    if all(len(results[a]) == len(chosen) for a in ALGOS):
        ctx.count("differential")
