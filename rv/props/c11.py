"""C11 - tree tensor network states behave as dense vectors for every topology."""
import numpy as np

from rv import dense, gen, states

ID = "C11"
LEVEL = "exploration"
RULE = ("One case = one random model (2..7 physical basis sets with nbas >= 2 of every kind of the generator, optional "
        "one-state BasisDummy sets, prod(d) <= 600, none/one/two quantum numbers) x one rooted tree (BasisTree.linear / "
        "binary / general_mctdh order 2,3 plain, contract_primitive, random contract_label / t3ns, or a hand-made random "
        "recursive tree with 1..3 sets per node, arity <= 3, purely virtual nodes as root/internal/leaf) x one sector x a "
        "pool of 2..3 TTNS (TTNS.random with bond limit 1..6, product states from the condition-dict constructor, sums of "
        "product states; real or genuinely complex amplitudes; DIFFERENT scalar prefactors coeff; random initial gauge) x "
        "1..3 TTNOs (zero and non-zero charge; full, and partial = defined on a tree of the same topology that carries only "
        "a subset of the state's basis sets) x a history of 3..10 operations drawn from: add / +, scale (real, negative, "
        "complex, numpy scalar, in place), copy, to_complex, TTNO.apply / @ / apply(canonicalise=True) / contract "
        "(lossless), normalize (three kinds), canonicalise, lossless compress (fixed limit, temp_m_trunc, threshold 1e-14), "
        "a walk of the orthogonality centre root -> leaf -> root (push_cano_to_child / push_cano_to_parent), ttns_norm / "
        "norm, expectation (full and partial operators, Op / OpSum arguments), calc_1site_rdm / calc_2site_rdm / "
        "calc_1dof_rdm / calc_2dof_rdm, 1site / 2site / 1dof / 2dof entropies, calc_2dof_mutual_info, calc_bond_entropy / "
        "calc_bond_singular_values. Every state-producing step is compared with the same operation on the dense "
        "operands (node tensors contracted along the tree by the harness, generation order, times coeff; "
        "TTNS.todense(order) is cross-checked against that contraction for every new pool state and 12 % of the "
        "comparisons, todense() with the default order once per case) immediately and after a copy has been canonicalised / compressed "
        "without truncation, with the label invariant and (after canonicalise/compress) the isometry of every non-root "
        "tensor recomputed from the raw arrays; every observable is compared with its dense definition on the object "
        "itself or on a canonicalised / compressed copy. Child-order independence: every pool state is also placed on an "
        "isomorphic tree whose children lists are permuted (the harness transposes the child axes) and the whole history "
        "is replayed there; every result and every observable must coincide. Side scenarios: from_mps(mps) of a chain "
        "state with a gauge history (dense vector, reversed basis order, check_canonical, labels, prefactor) and the "
        "auxiliary-space partial operator (state on tree.add_auxiliary_space(), operator on the tree: reference O (x) 1_Q). "
        "Non-trivial: the tree has a node with >= 2 children or >= 2 basis sets and the history contains an operation that "
        "changes tensors; distinct by (tree shape with child order, operation trace).")
ASSUMPTIONS = [
    "the vector a TTNS represents is the contraction of its node tensors along the tree bonds (= todense(order), cross-checked) times coeff "
    "(coeff is the documented scalar prefactor: norm = |coeff| * ttns_norm); "
    "ttns_norm, expectation, reduced density matrices and entropies are tensor-level quantities (coeff excluded), un-normalised like the code",
    "relative tolerance 1e-10 on the natural scale of each quantity (product of the operand norms; S^2 for RDMs and S^2 ||O||_F for "
    "expectation values, plus 1e-8 absolute when the library returns a float because it drops imaginary parts below 1e-8, where S is the "
    "norm of the state or, if larger, the norm scale of the operands it was computed from: a sum that cancels carries rounding errors of its "
    "operands); entropies 1e-8 absolute, not requested when the state retains less than 1e-3 of its operands' norm",
    "RDM index order as documented: ket indices followed by bra indices, one axis per basis set of the node (one-state sets as size-1 axes); "
    "2-site/2-dof RDMs list the first site/dof first",
    "entropies are requested for states with 0.1 <= ||psi|| <= 10 (others are rescaled by the harness first): calc_vn_entropy asserts that "
    "negative eigenvalues of the UN-normalised density matrix are below 1e-8 absolute",
    "every physical basis set has nbas >= 2 (todense squeezes size-1 axes; a one-state physical set cannot be addressed by todense(order))",
    "operators are real (TTNO asserts 'complex operator not supported yet'); expectation(bra=...) is documented as not implemented and is not requested; "
    "TTNS has no sub / conj / dot: not requested",
    "BasisTree.general_mctdh / t3ns refuse two-component models (one-component virtual sets, 'Inconsistent quantum number size'): "
    "counted as refusal, the case continues on a linear / binary / random tree",
    "compress / bond entropies are not requested on one-node trees (documented assertion \"can't compress a single tree node\")",
    "2-dof quantities are requested for two dofs of DIFFERENT basis sets (the library asserts that; a multi-dof basis set is not a tensor product)",
    "partial operators: same topology, every operator node carries a subset of the state's basis sets of that node (what get_skip_pidx "
    "implements); auxiliary-space scenario only for models without multi-dof sets and prod(d) <= 24",
]

_KINDS = ["linear", "binary", "mctdh2", "mctdh3", "mctdh2-contract", "mctdh3-contract", "mctdh2-label", "mctdh3-label",
          "t3ns", "random"]
_REQUIRED = (["kind:" + k for k in _KINDS]
             + ["multi-set-node", "dummy-root", "dummy-internal", "dummy-leaf", "arity-2", "arity-3", "unary-node",
                "qn-none", "qn-one", "qn-two", "complex-state", "complex-with-real", "add:coeffs-differ", "bond-dim-1", "gauge:non-canonical", "gauge:non-canonical-on-dimension-one-bonds", "2site-rdm:path-through-a-multi-index-node",
                "partial-operator", "charged-operator", "child-permutation", "post:canonicalised", "from_mps",
                "aux-space-partial-operator", "one-node-tree", "op:add", "op:scale", "op:apply", "op:canonicalise", "op:compress",
                "op:centre-walk", "op:norm", "op:expectation", "expectation1", "op:rdm-site", "op:rdm-dof", "op:entropy", "op:mutual-info",
                "op:bond-entropy", "op:normalize", "op:copy"])


def plan(tier):
    base = {"case_time_limit": 600, "required_classes": _REQUIRED}
    if tier == "quick":
        base.update({"ncases": 208, "min_nontrivial": 120,
                     "required_counters": {"oracle": 4500, "child_order": 1500, "label_checks": 1400, "isometry_checks": 700,
                                           "partial_oracle": 100, "todense_checks": 400}})
    else:
        base.update({"ncases": 6000, "min_nontrivial": 4000,
                     "required_counters": {"oracle": 120000, "child_order": 50000, "label_checks": 38000,
                                           "isometry_checks": 20000, "partial_oracle": 3000, "todense_checks": 12000}})
    return base


TOL = 1e-10
ENT_TOL = 1e-8
CHECK_DEFAULT_TODENSE = True        # todense() with the default order (see default_todense_check)
QN_MSG = "Inconsistent quantum number size"


# ------------------------------------------------------------------------------------------------- helpers
class BrokenNetwork(Exception):
    """The tensors of a TTNS returned by the library cannot be contracted along the tree."""


def safe_dense(t, order, with_coeff=True):
    from rv import tree_states as ts
    try:
        v = ts.dense_tensor_of_ttns(t, order)
    except (ValueError, AssertionError, IndexError) as e:
        raise BrokenNetwork(f"{type(e).__name__}: {str(e)[:120]}; shapes "
                            f"{[tuple(nd.tensor.shape) for nd in t.node_list][:12]}") from e
    return v * t.coeff if with_coeff else v


class Obj:
    """A pool member: the TTNS, the dense vector it must represent, its twin on the child-permuted tree."""
    __slots__ = ("t", "ref", "m", "trace", "scale")

    def __init__(self, t, ref, m, trace):
        self.t, self.ref, self.m, self.trace = t, np.asarray(ref), m, list(trace)
        self.scale = None


class OpObj:
    __slots__ = ("o", "om", "ref", "charge", "partial", "desc", "terms", "norm")

    def __init__(self, o, om, ref, charge, partial, desc, terms):
        self.o, self.om, self.ref, self.charge, self.partial, self.desc, self.terms = o, om, ref, charge, partial, desc, terms
        self.norm = float(np.linalg.norm(ref))


class World:
    """Everything fixed for one case."""

    def __init__(self, ctx, gm, tree, tdesc, kind):
        from rv import tree_states as ts, trees
        self.ctx, self.gm, self.tree, self.tdesc, self.kind = ctx, gm, tree, tdesc, kind
        self.ts = ts
        self.tmap = ts.TreeMap(tree, gm)
        self.n_nodes = len(tree.node_list)
        self.ptree, self.pdesc, self.info = trees.permuted_children_copy(tree, ctx.rng)
        self.mirror = bool(self.info["changed"])
        self.o2n = list(self.info["old_to_new"])
        self.perms = [list(p) for p in self.info["child_perms"]]
        self.crashed = set()

    # -- index translation primary -> mirror
    def mnode(self, i):
        return self.o2n[i]

    def mchild(self, i, j):
        """Position, among the children of the mirror copy of node i, of the copy of primary child j."""
        return self.perms[i].index(j)

    def dense(self, t):
        return self.tdense(t) * t.coeff

    def tdense(self, t):
        try:
            return self.ts.dense_tensor_of_ttns(t, self.gm)
        except (ValueError, AssertionError, IndexError) as e:
            # the node tensors no longer fit together (bond dimensions of neighbours differ, wrong rank)
            raise BrokenNetwork(f"{type(e).__name__}: {str(e)[:120]}; shapes "
                                f"{[tuple(nd.tensor.shape) for nd in t.node_list][:12]}") from e


def call(ctx, world, what, fn, *args, **kwargs):
    """Call into the repository; a crash on this property's promised input class is recorded once per case and
    mechanism (signature '<what>|crash|<Exception>@<innermost repository frame>') and reported as (False, None)."""
    from rv.case import CaseAbort, CaseTimeout, _innermost_repo_frame
    import traceback
    try:
        return True, fn(*args, **kwargs)
    except (CaseAbort, CaseTimeout):
        raise
    except BaseException as e:  # noqa: BLE001
        if isinstance(e, (KeyboardInterrupt, SystemExit, MemoryError)):
            raise
        where = _innermost_repo_frame(e)
        if where == "harness":
            raise
        sig = f"{what}|crash|{type(e).__name__}@{where}"
        if QN_MSG in str(e) and world.gm.qn_size >= 2 and where.endswith("treebase.py:__init__"):
            # one mechanism whatever the entry point (ttns_norm, norm, normalize, expectation of any operator):
            # TTNS.expectation / TTNO.dummy build their auxiliary BasisDummy sets with a one-component label
            sig = f"expectation|two-component-model|crash|{type(e).__name__}@{where}"
        if sig not in world.crashed:
            world.crashed.add(sig)
            ctx.violate(sig, message=f"{type(e).__name__}: {str(e)[:160]}", traceback=traceback.format_exc()[-1200:],
                        qn_mode=world.gm.desc["qn_mode"], tree_kind=world.kind)
        return False, None


def build_model(ctx):
    from rv import trees
    rng = ctx.rng
    r = rng.random()
    nsite = (2, 4) if r < 0.35 else (3, 7)
    qn_mode = str(rng.choice(["none", "one", "two"], p=[0.3, 0.45, 0.25]))
    for _ in range(300):
        gm = gen.random_basis_list(rng, nsite=nsite, max_dim=600, min_dim=4, qn_mode=qn_mode)
        phys = [b for b in gm.basis if not trees.is_dummy(b)]
        if 2 <= len(phys) <= 7 and all(b.nbas >= 2 for b in phys):
            return gm
    raise RuntimeError("no model with nbas >= 2 on every physical basis set")


def choose_tree(ctx, gm):
    from rv import trees
    rng = ctx.rng
    qn_mode = gm.desc["qn_mode"]
    r = rng.random()
    n_phys = sum(1 for b in gm.basis if not trees.is_dummy(b))
    if n_phys <= 3 and len(gm.basis) <= 3 and rng.random() < 0.2:
        # the smallest rooted tree: one node that carries every basis set (no virtual bond at all)
        from renormalizer.tn.node import TreeNodeBasis
        from renormalizer.tn.treebase import BasisTree
        order = [int(i) for i in rng.permutation(len(gm.basis))]
        tree = BasisTree(TreeNodeBasis([gm.basis[i] for i in order]))
        return "random", tree, {"kind": "random", "options": {"one_node": True, "order": order}, "shape": trees.tree_shape(tree)}
    if r < 0.34:
        kind = "random"
    else:
        kind = _KINDS[int(rng.integers(0, len(_KINDS) - 1))]
    for _attempt in range(6):
        kw = {}
        if kind == "random":
            force = [None, None, ["root"], ["internal"], ["leaf"], ["root", "leaf"]][int(rng.integers(0, 6))]
            kw = {"force_virtual": force}
        try:
            tree, desc = trees.build_tree(kind, gm.basis, rng, shuffle=bool(rng.random() < 0.5), **kw)
            return kind, tree, desc
        except ValueError as e:
            if QN_MSG in str(e) and qn_mode == "two" and kind != "random":
                ctx.count("constructor-refused-two-qn")
                ctx.cls("constructor-refused-two-qn")
                kind = ["linear", "binary", "random", "random"][int(rng.integers(0, 4))]
                continue
            raise
    raise RuntimeError("no tree")


def classify_tree(ctx, kind, tree, desc):
    from rv import trees
    f = trees.tree_features(tree)
    ctx.cls("kind:" + kind)
    for role in ("root", "internal", "leaf"):
        if f["dummy_" + role]:
            ctx.cls("dummy-" + role)
    if f["multi_set"]:
        ctx.cls("multi-set-node")
    if f["max_sets"] >= 3:
        ctx.cls("three-set-node")
    if f["max_arity"] >= 3:
        ctx.cls("arity-3")
    if f["max_arity"] >= 2:
        ctx.cls("arity-2")
    if f["unary"]:
        ctx.cls("unary-node")
    if f["mixed_dummy_set"]:
        ctx.cls("dummy-set-on-multi-set-node")
    if f["n_nodes"] == 1:
        ctx.cls("one-node-tree")
    if kind == "random" and desc["options"].get("auto_virtual_nodes", 0):
        ctx.cls("library-auto-dummy")
    return f


def charge_choices(gm):
    out = {tuple([0] * gm.qn_size)}
    for cat in gm.catalog:
        for so in cat:
            if not so.is_complex:
                out.add(tuple(so.charge.tolist()))
    return sorted(out)


def make_operator(ctx, world, partial):
    """A real TTNO on the tree (and on the child-permuted tree) with its dense reference; ``partial``: the operator
    tree carries only a subset of the basis sets (same topology)."""
    from rv import trees
    from renormalizer.tn import TTNO
    rng = ctx.rng
    gm, ts = world.gm, world.ts
    zero = tuple([0] * gm.qn_size)
    ch = charge_choices(gm)
    charge = ch[int(rng.integers(0, len(ch)))] if rng.random() < 0.4 else zero
    phys_idx = [i for i, b in enumerate(gm.basis) if not trees.is_dummy(b)]
    keep_ids = None
    if partial:
        k = int(rng.integers(1, len(phys_idx)))          # 1 .. n_phys - 1 sets kept
        kept = sorted(rng.choice(phys_idx, size=k, replace=False).tolist())
        keep_ids = {id(gm.basis[i]) for i in kept}
    for _ in range(20):
        if partial:
            terms = []
            for _t in range(int(rng.integers(1, 5))):
                m = int(rng.integers(1, len(kept) + 1))
                sites = rng.choice(kept, size=m, replace=False).tolist()
                sos = []
                for s in sites:
                    cands = [so for so in gm.catalog[s] if not so.is_complex
                             and (tuple(so.charge.tolist()) == zero or len(sos) == 0)]
                    sos.append(cands[int(rng.integers(0, len(cands)))])
                tot = tuple(sum((so.charge for so in sos), np.zeros(gm.qn_size, dtype=int)).tolist())
                if terms and tot != charge:
                    continue
                if not terms:
                    charge = tot
                terms.append(gen.make_op(sos, float(rng.uniform(0.2, 2.0)) * (-1 if rng.random() < 0.5 else 1)))
        else:
            terms = gen.random_terms(rng, gm, int(rng.integers(1, 7)), target_charge=np.array(charge),
                                     allow_complex=False, complex_factors=False, decades=1)
        if not terms:
            continue
        ref = dense.op_dense(gm.basis, terms)
        if np.iscomplexobj(ref) or np.linalg.norm(ref) < 1e-8:
            continue
        if partial:
            otree, _ = ts.same_topology_subset_tree(world.tree, lambda b: id(b) in keep_ids)
            mtree, _ = ts.same_topology_subset_tree(world.ptree, lambda b: id(b) in keep_ids) if world.mirror else (None, 0)
        else:
            otree, mtree = world.tree, world.ptree if world.mirror else None
        algo = ["Hopcroft-Karp", "Hungarian", "qr"][int(rng.integers(0, 3))]
        ok, o = call(ctx, world, "TTNO", TTNO, otree, list(terms), algo=algo)
        if not ok:
            return None
        om = None
        if mtree is not None:
            ok, om = call(ctx, world, "TTNO", TTNO, mtree, list(terms), algo=algo)
            if not ok:
                return None
        desc = {"charge": list(charge), "algo": algo, "partial": bool(partial), "terms": gen.terms_describe(terms, 5)}
        if partial:
            desc["kept_sets"] = [repr(tuple(gm.basis[i].dofs)) for i in kept]
            ctx.cls("partial-operator")
        if any(charge):
            ctx.cls("charged-operator")
        return OpObj(o, om, ref, np.array(charge, dtype=int), partial, desc, terms)
    return None


# ------------------------------------------------------------------------------------------ comparisons
def compare(ctx, world, obj, what, scale=None, mirror=True):
    """dense(obj) == reference, and the twin on the child-permuted tree represents the same vector."""
    ctx.count("oracle")
    if scale is None:
        scale = max(float(np.linalg.norm(obj.ref)), obj.scale or 0.0, 1e-300)
    obj.scale = max(scale, obj.scale or 0.0)
    got = world.dense(obj.t)
    ok = ctx.close(got, obj.ref, TOL, f"{what}|dense-mismatch", scale=scale, trace=obj.trace[-6:])
    if what == "state-constructor" or ctx.rng.random() < 0.12:
        todense_check(ctx, world, obj.t, got, scale)
    if mirror and obj.m is not None:
        ctx.count("child_order")
        ok2 = ctx.close(world.dense(obj.m), got, TOL, f"child-order|{what}-differs", scale=scale, trace=obj.trace[-6:],
                        child_perms=world.perms)
        ok = ok and ok2
    return ok


def todense_check(ctx, world, t, got, scale):
    """The library's observation point TTNS.todense(order) against the harness's own contraction of the node tensors."""
    ok, lib = call(ctx, world, "todense(order)", world.ts.dense_of_ttns, t, world.gm, True)
    if ok:
        ctx.count("oracle")
        ctx.count("todense_checks")
        ctx.close(lib, got, 1e-12, "todense(order)|differs-from-node-contraction", scale=scale)


def default_todense_check(ctx, world, t):
    """todense() without an order: the vector in the order of basis.basis_list (one-state sets contribute nothing)."""
    from rv import trees
    has_dummy = any(trees.is_dummy(b) for b in world.tree.basis_list)
    ctx.cls("todense():tree-with-one-state-sets" if has_dummy else "todense():no-one-state-sets")
    ok, lib = call(ctx, world, "todense()", lambda: np.asarray(t.todense()).reshape(-1))
    if ok:
        ctx.count("oracle")
        want = world.ts.dense_tensor_of_ttns(t, None)
        ctx.close(lib, want, 1e-12, "todense()|differs-from-node-contraction", scale=max(float(np.linalg.norm(want)), 1e-300))


def labels(ctx, world, obj, what):
    ctx.count("label_checks")
    for t, tag in ((obj.t, ""), (obj.m, "|child-permuted")):
        if t is None:
            continue
        p = world.ts.tree_label_problems(t)
        if p:
            ctx.violate(f"{what}|labels-inconsistent{tag}", problems=p[:3], trace=obj.trace[-6:])
            return False
    return True


def isometry(ctx, world, t, what):
    ctx.count("isometry_checks")
    d = world.ts.max_isometry_defect(t)
    ctx.metric_max("isometry_defect", d)
    ok = ctx.check(d <= 1e-8, f"{what}|non-root-tensor-not-isometric", defect=d)
    rep = t.is_canonical()
    # is_canonical uses np.allclose(atol=1e-8, rtol=1e-5): only clear-cut disagreements are judged
    ctx.check(not ((not rep and d <= 1e-9) or (rep and d > 1e-4)), f"{what}|is_canonical-disagrees-with-raw-arrays", defect=d,
              reported=bool(rep))
    return ok


def lossless_compress(ctx, world, t, what, variant=None):
    """canonicalise + compress without truncation, in place (the precondition of compress is the canonical form)."""
    from renormalizer.utils import CompressConfig, CompressCriteria
    rng = ctx.rng
    ok, _ = call(ctx, world, what + "|canonicalise", t.canonicalise)
    if not ok:
        return False
    if variant is None:
        variant = int(rng.integers(0, 3))
    old = t.compress_config
    if variant == 0:
        ok, res = call(ctx, world, what + "|compress", t.compress)
    elif variant == 1:
        ok, res = call(ctx, world, what + "|compress", t.compress, temp_m_trunc=10 ** 6)
    else:
        t.compress_config = CompressConfig(CompressCriteria.threshold, threshold=1e-14)
        ok, res = call(ctx, world, what + "|compress", t.compress)
        t.compress_config = old
    if ok:
        ctx.check(res is t, "compress|does-not-return-self")
    return ok


def post_check(ctx, world, obj, what):
    """The result must stay correct when a copy of it is canonicalised / compressed without truncation."""
    rng = ctx.rng
    for t, tag in ((obj.t, ""), (obj.m, "|child-permuted")):
        if t is None:
            continue
        ok, cp = call(ctx, world, "copy", t.copy)
        if not ok:
            return
        cp.compress_config = world.ts.lossless_cfg()
        mode = "canonicalise" if (rng.random() < 0.5 or world.n_nodes == 1) else "lossless-compress"
        if mode == "canonicalise":
            ok, _ = call(ctx, world, f"{what}|post-canonicalise", cp.canonicalise)
        else:
            ok = lossless_compress(ctx, world, cp, f"{what}|post")
        if not ok:
            return
        ctx.cls("post:canonicalised")
        ctx.count("oracle")
        scale = max(float(np.linalg.norm(obj.ref)), obj.scale or 0.0, 1e-300)
        good = ctx.close(world.dense(cp), obj.ref, TOL, f"{what}|wrong-after-canonicalise{tag}", scale=scale, post=mode,
                         trace=obj.trace[-6:])
        if good:
            isometry(ctx, world, cp, f"{what}|post-{mode}")
            ctx.count("label_checks")
            p = world.ts.tree_label_problems(cp)
            ctx.check(not p, f"{what}|labels-inconsistent-after-canonicalise{tag}", problems=p[:3], post=mode)


def new_state(ctx, world, qntot):
    """Pool member with its own bond limit, amplitudes, prefactor and gauge."""
    rng = ctx.rng
    ts = world.ts
    mmax = int(rng.choice([1, 1, 2, 3, 4, 5, 6]))
    t = ctx.lib(ts.random_ttns, ctx, world.tree, qntot, mmax, world.gm, what="state-constructor")
    if t is None:
        ctx.refuse("state-constructor: no state in the sector")
        from rv.case import CaseAbort
        raise CaseAbort()
    tr = [f"state(m<={mmax})"]
    if max(t.bond_dims) == 1:
        ctx.cls("bond-dim-1")
    if any(np.iscomplexobj(nd.tensor) for nd in t.node_list):
        ctx.cls("complex-state")
    g = int(rng.integers(0, 4))
    if g == 1:
        ctx.lib(t.canonicalise, what="canonicalise")
        tr.append("canonicalise")
    elif g == 2 and world.n_nodes > 1:
        ctx.lib(t.canonicalise, what="canonicalise")
        ctx.lib(t.compress, what="compress")
        tr.append("compress")
    elif g == 3 and world.n_nodes > 1:
        # a non-canonical gauge: G G^-1 on one to three edges (scalars on edges of dimension one) - the environments of the
        # sub-trees are then no unit matrices
        cplx = bool(rng.random() < 0.4)
        before = world.dense(t)
        for _ in range(int(rng.integers(1, 4))):
            ts.edge_gauge(rng, t, cplx=cplx)
        if not ctx.close(world.dense(t), before, 1e-10, "harness|edge-gauge-changed-the-state", scale=max(float(np.linalg.norm(before)), 1e-300)):
            from rv.case import CaseAbort
            raise CaseAbort()
        tr.append("edge-gauge" + ("(complex)" if cplx else ""))
        ctx.cls("gauge:non-canonical")
        if max(t.bond_dims) == 1:
            ctx.cls("gauge:non-canonical-on-dimension-one-bonds")
        if cplx:
            ctx.cls("complex-state")
    c = [1, 2.0, -0.5, 0.3, np.exp(0.7j), 1][int(rng.integers(0, 6))]
    if not (isinstance(c, int) and c == 1):
        t.coeff = c
        tr.append(f"coeff={c:.3g}")
        ctx.cls("coeff!=1")
    m = ts.transplant_to_permuted_tree(t, world.ptree, world.info) if world.mirror else None
    o = Obj(t, world.dense(t), m, tr)
    return o


def tensors_complex(t):
    return any(np.iscomplexobj(nd.tensor) for nd in t.node_list)


# ------------------------------------------------------------------------------------------- observables
def eval_target(ctx, world, a):
    """The object on which an observable is evaluated: the pool member itself or a canonicalised / compressed copy
    (the dense vector is the same).  Returns (primary, mirror, gauge name)."""
    rng = ctx.rng
    r = rng.random()
    if r < 0.55:
        return a.t, a.m, "as-is"
    out = []
    mode = "canonicalised" if (r < 0.8 or world.n_nodes == 1) else "compressed"
    variant = int(rng.integers(0, 3))
    for t in (a.t, a.m):
        if t is None:
            out.append(None)
            continue
        cp = t.copy()
        cp.compress_config = world.ts.lossless_cfg()
        if mode == "canonicalised":
            ok, _ = call(ctx, world, "canonicalise", cp.canonicalise)
        else:
            ok = lossless_compress(ctx, world, cp, "observable-copy", variant)
        if not ok:
            return a.t, a.m, "as-is"
        out.append(cp)
    ctx.cls("observable-on-" + mode + "-copy")
    return out[0], out[1], mode


def tscale(a, psi):
    """Magnitude scale of the tensors of a pool member (tensor level, coeff excluded): its own norm, or the norm scale
    of the operands it was computed from when that is larger (a sum that cancels, an operator that nearly annihilates):
    rounding errors of every contraction are relative to this scale, not to the norm of the result."""
    c = abs(a.t.coeff)
    return max(float(np.linalg.norm(psi)), (a.scale or 0.0) / c if c > 0 else 0.0, 1e-300)


def unit_scaled(ctx, world, t, m, psi):
    """Entropies are defined for normalisable states; the library asserts on the un-normalised spectrum, so states far
    from unit norm are rescaled first (harness-side input conditioning).  Returns (primary, mirror, psi)."""
    nrm = float(np.linalg.norm(psi))
    if 0.1 <= nrm <= 10.0:
        return t, m, psi
    if nrm < 1e-150:
        return None, None, None
    ok, s = call(ctx, world, "scale", t.scale, 1.0 / nrm)
    if not ok:
        return None, None, None
    if m is not None:
        okm, m = call(ctx, world, "scale", m.scale, 1.0 / nrm)
        if not okm:
            m = None
    return s, m, psi / nrm


def cmp_dicts(ctx, world, got, gotm, keymap, what, tol, scale):
    """Primary and child-permuted results agree key by key (keys translated through keymap)."""
    if gotm is None:
        return
    for k, v in got.items():
        km = keymap(k)
        ctx.count("child_order")
        if km not in gotm:
            ctx.violate(f"child-order|{what}-key-missing", key=repr(k))
            return
        ctx.close(np.asarray(gotm[km]), np.asarray(v), tol, f"child-order|{what}-differs", scale=scale)


def obs_norm(ctx, world, a):
    t, m, gauge = eval_target(ctx, world, a)
    psi = world.tdense(t)
    nrm = float(np.linalg.norm(psi))
    S = tscale(a, psi)
    nscale = max(nrm, S * S / max(nrm, 1e-300) if nrm > 0 else S)     # norm = sqrt(<psi|psi>), <psi|psi> exact to ~eps * S^2
    ok, got = call(ctx, world, "ttns_norm", lambda: t.ttns_norm)
    if ok:
        ctx.count("oracle")
        ctx.close(got, nrm, TOL, "ttns_norm|differs-from-dense-norm", scale=nscale, gauge=gauge)
        ctx.check(isinstance(got, float), "ttns_norm|not-a-float")
    ok2, got2 = call(ctx, world, "norm", lambda: t.norm)
    if ok2:
        ctx.count("oracle")
        ctx.close(got2, abs(t.coeff) * nrm, TOL, "norm|differs-from-abs-coeff-times-dense-norm",
                  scale=max(abs(t.coeff) * nscale, 1e-300), gauge=gauge)
    if m is not None and ok:
        okm, gm_ = call(ctx, world, "ttns_norm", lambda: m.ttns_norm)
        if okm:
            ctx.count("child_order")
            ctx.close(gm_, got, TOL, "child-order|ttns_norm-differs", scale=nscale)
    compare(ctx, world, a, "ttns_norm|operand-changed")


def obs_expectation(ctx, world, a, ops):
    from renormalizer.model import OpSum
    rng = ctx.rng
    if not ops:
        return
    o = ops[int(rng.integers(0, len(ops)))]
    t, m, gauge = eval_target(ctx, world, a)
    psi = world.tdense(t)
    want = np.vdot(psi, o.ref @ psi)
    scale = max(tscale(a, psi) ** 2 * o.norm, 1e-300)
    arg, argm, how = o.o, o.om, "ttno"
    if not o.partial and rng.random() < 0.25:
        # Op / OpSum arguments are converted with TTNO(self.basis, ...)
        if len(o.terms) == 1 and rng.random() < 0.5:
            arg = argm = o.terms[0]
            how = "Op"
        else:
            arg = argm = OpSum(list(o.terms))
            how = "OpSum"
        ctx.cls("expectation:" + how)
    what = "expectation" + ("(partial-operator)" if o.partial else "")
    ok, got = call(ctx, world, what, t.expectation, arg)
    if not ok:
        return
    ctx.count("oracle")
    if o.partial:
        ctx.count("partial_oracle")
    slack = 0.0 if isinstance(got, complex) else 1e-8
    err = abs(complex(got) - complex(want))
    ctx.metric_max("max_rel_err:expectation", err / scale)
    ctx.check(err <= TOL * scale + slack, f"{what}|differs-from-dense", got=complex(got), want=complex(want), scale=scale,
              how=how, gauge=gauge, operator=o.desc)
    ctx.check(isinstance(got, (float, complex)), f"{what}|not-a-python-scalar", type=type(got).__name__)
    if m is not None:
        okm, gotm = call(ctx, world, what, m.expectation, argm)
        if okm:
            ctx.count("child_order")
            ctx.check(abs(complex(gotm) - complex(got)) <= TOL * scale + 2e-8 * (not isinstance(got, complex) or not isinstance(gotm, complex)),
                      f"child-order|{what}-differs", got=complex(got), mirror=complex(gotm), scale=scale)
    if how == "ttno" and not o.partial and rng.random() < 0.3:
        # the direct whole-network contraction kept next to it (it also takes a bra)
        ok1, got1 = call(ctx, world, "expectation1", t.expectation1, o.o)
        if ok1:
            ctx.count("oracle")
            ctx.cls("expectation1")
            e1 = abs(complex(got1) - complex(want))
            ctx.check(e1 <= TOL * scale + (0.0 if isinstance(got1, complex) else 1e-8), "expectation1|differs-from-dense",
                      got=complex(got1), want=complex(want), scale=scale, gauge=gauge, operator=o.desc)
    compare(ctx, world, a, "expectation|operand-changed")
    for n_, r_ in ((t.root, "state"), (o.o.root, "operator")):
        ctx.check(n_.parent is None, f"expectation|leaves-{r_}-root-attached")


def obs_rdm_site(ctx, world, a, entropy):
    rng = ctx.rng
    t, m, gauge = eval_target(ctx, world, a)
    psi = world.tdense(t)
    S = tscale(a, psi)
    if entropy:
        if float(np.linalg.norm(psi)) < 1e-3 * S:
            ctx.count("entropy-skipped-after-cancellation")
            return
        S = S if 0.1 <= float(np.linalg.norm(psi)) <= 10.0 else S / float(np.linalg.norm(psi))
        t, m, psi = unit_scaled(ctx, world, t, m, psi)
        if t is None:
            return
    n2 = S ** 2
    if float(np.linalg.norm(psi)) < 1e-150:
        return
    n = world.n_nodes
    tm = world.tmap
    # ---- one site
    form = int(rng.integers(0, 3))
    if form == 0:
        idx, nodes = None, list(range(n))
    elif form == 1:
        k = int(rng.integers(0, n))
        idx, nodes = k, [k]
    else:
        nodes = sorted(set(rng.integers(0, n, size=int(rng.integers(1, 4))).tolist()))
        idx = list(nodes) if rng.random() < 0.5 else tuple(nodes)
    name = "calc_1site_entropy" if entropy else "calc_1site_rdm"
    ok, got = call(ctx, world, name, getattr(t, name), idx)
    if ok:
        ctx.check(sorted(got.keys()) == nodes, f"{name}|wrong-keys", got=sorted(map(repr, got.keys())), want=nodes)
        for i in nodes:
            if i not in got:
                continue
            ref = world.ts.rdm_reference(psi, tm, [i])
            ctx.count("oracle")
            if entropy:
                d = int(np.prod(tm.pdims[i]))
                want = dense.vn_entropy_dm(ref.reshape(d, d))
                ctx.metric_max("max_abs_err:entropy", abs(got[i] - want))
                ctx.check(abs(got[i] - want) <= ENT_TOL, f"{name}|differs-from-dense", got=got[i], want=want, node=i, gauge=gauge)
            else:
                ctx.close(np.asarray(got[i]), ref, TOL, f"{name}|differs-from-partial-trace", scale=n2, node=i, gauge=gauge,
                          sets=len(tm.pdims[i]))
        if m is not None:
            idxm = None if idx is None else (world.mnode(idx) if isinstance(idx, int) else type(idx)(world.mnode(i) for i in idx))
            okm, gotm = call(ctx, world, name, getattr(m, name), idxm)
            if okm:
                cmp_dicts(ctx, world, got, gotm, world.mnode, name, ENT_TOL if entropy else TOL, 1.0 if entropy else n2)
    # ---- two sites
    if n >= 2:
        pairs = []
        nl = world.tree.node_list
        from rv import trees as _trees

        def inner_multi(i_, j_):
            path = world.tree.find_path(nl[i_], nl[j_])
            return any(len([b for b in nd_.basis_sets if not _trees.is_dummy(b)]) > 1 for nd_ in path[1:-1])
        # pairs whose path runs THROUGH a node with several physical indices are preferred when the tree has them
        special = [(i_, j_) for i_ in range(n) for j_ in range(n) if i_ != j_ and len(world.tree.find_path(nl[i_], nl[j_])) <= 5
                   and inner_multi(i_, j_)] if n <= 9 else []
        for _ in range(1 if rng.random() < 0.7 else 2):
            # the library's contraction-path search grows steeply with the path length: long paths are kept but rarer
            for _try in range(3):
                i, j = rng.choice(n, size=2, replace=False).tolist()
                if len(world.tree.find_path(nl[i], nl[j])) <= 4 or rng.random() < 0.3:
                    break
            if special and rng.random() < 0.6:
                i, j = special[int(rng.integers(0, len(special)))]
            if (i, j) not in pairs:
                pairs.append((int(i), int(j)))
        arg = pairs[0] if (len(pairs) == 1 and rng.random() < 0.6) else list(pairs)
        name = "calc_2site_entropy" if entropy else "calc_2site_rdm"
        ok, got = call(ctx, world, name, getattr(t, name), arg)
        if ok:
            ctx.check(sorted(got.keys()) == sorted(pairs), f"{name}|wrong-keys")
            for pr in pairs:
                if pr not in got:
                    continue
                ref = world.ts.rdm_reference(psi, tm, list(pr))
                ctx.count("oracle")
                dist = len(world.tree.find_path(world.tree.node_list[pr[0]], world.tree.node_list[pr[1]]))
                if dist >= 3:
                    ctx.cls("2site-rdm:path-with-inner-nodes")
                if inner_multi(pr[0], pr[1]):
                    ctx.cls("2site-rdm:path-through-a-multi-index-node")
                if entropy:
                    d = int(np.prod(tm.pdims[pr[0]]) * np.prod(tm.pdims[pr[1]]))
                    want = dense.vn_entropy_dm(ref.reshape(d, d))
                    ctx.metric_max("max_abs_err:entropy", abs(got[pr] - want))
                    ctx.check(abs(got[pr] - want) <= ENT_TOL, f"{name}|differs-from-dense", got=got[pr], want=want, gauge=gauge,
                              path_length=dist)
                else:
                    ctx.close(np.asarray(got[pr]), ref, TOL, f"{name}|differs-from-partial-trace", scale=n2, gauge=gauge,
                              path_length=dist, pair=list(pr))
            if m is not None:
                mp = lambda pr: (world.mnode(pr[0]), world.mnode(pr[1]))  # noqa: E731
                argm = mp(arg) if isinstance(arg, tuple) else [mp(p) for p in arg]
                okm, gotm = call(ctx, world, name, getattr(m, name), argm)
                if okm:
                    cmp_dicts(ctx, world, got, gotm, mp, name, ENT_TOL if entropy else TOL, 1.0 if entropy else n2)
    compare(ctx, world, a, "rdm|operand-changed")


def dof_pairs(ctx, world, npairs):
    """Pairs of dofs that belong to different basis sets (same node or different nodes)."""
    rng = ctx.rng
    ref = world.tmap.ref
    out = []
    # prefer, now and then, two sets of one node (the one-site branch of calc_2dof_rdm)
    same_node = [[p for p in s if p is not None] for s in world.tmap.sets]
    same_node = [s for s in same_node if len(s) >= 2]
    nl = world.tree.node_list
    node_of = {}
    for i_, s_ in enumerate(world.tmap.sets):
        for p_ in s_:
            if p_ is not None:
                node_of[p_] = i_
    for _ in range(npairs):
        if same_node and rng.random() < 0.4:
            s = same_node[int(rng.integers(0, len(same_node)))]
            p, q = rng.choice(s, size=2, replace=False).tolist()
            ctx.cls("2dof:same-node")
        else:
            for _try in range(3):
                p, q = rng.choice(len(ref), size=2, replace=False).tolist()
                if node_of[p] == node_of[q] or len(world.tree.find_path(nl[node_of[p]], nl[node_of[q]])) <= 4 or rng.random() < 0.3:
                    break
        d1 = ref[p].dofs[int(rng.integers(0, len(ref[p].dofs)))]
        d2 = ref[q].dofs[int(rng.integers(0, len(ref[q].dofs)))]
        if (d1, d2) not in [x[0] for x in out]:
            out.append(((d1, d2), (int(p), int(q))))
    return out


def obs_rdm_dof(ctx, world, a, mode):
    """mode: 'rdm' | 'entropy' | 'mutual'."""
    rng = ctx.rng
    t, m, gauge = eval_target(ctx, world, a)
    psi = world.tdense(t)
    S = tscale(a, psi)
    if mode != "rdm":
        if float(np.linalg.norm(psi)) < 1e-3 * S:
            ctx.count("entropy-skipped-after-cancellation")
            return
        S = S if 0.1 <= float(np.linalg.norm(psi)) <= 10.0 else S / float(np.linalg.norm(psi))
        t, m, psi = unit_scaled(ctx, world, t, m, psi)
        if t is None:
            return
    n2 = S ** 2
    if float(np.linalg.norm(psi)) < 1e-150:
        return
    tm, ts = world.tmap, world.ts
    ref_sets = tm.ref
    ident = lambda k: k  # noqa: E731

    def ent_of(positions):
        rho = ts.rdm_reference_sets(psi, tm, positions)
        d = int(np.prod([tm.dims[p] for p in positions]))
        return dense.vn_entropy_dm(rho.reshape(d, d))

    if mode in ("rdm", "entropy"):
        # ---- one dof
        form = int(rng.integers(0, 3))
        all_dofs = [d for b in ref_sets for d in b.dofs]
        if form == 0:
            arg, want_keys = None, None
        elif form == 1:
            d = all_dofs[int(rng.integers(0, len(all_dofs)))]
            arg, want_keys = d, [d]
        else:
            ks = sorted(set(rng.integers(0, len(all_dofs), size=int(rng.integers(1, 4))).tolist()))
            want_keys = [all_dofs[k] for k in ks]
            arg = list(want_keys)
        name = "calc_1dof_entropy" if mode == "entropy" else "calc_1dof_rdm"
        ok, got = call(ctx, world, name, getattr(t, name), arg)
        if ok:
            if want_keys is None:
                # all degrees of freedom of the tree, virtual ones included
                ctx.check(set(map(repr, got.keys())) == set(map(repr, world.tree.dof_list)), f"{name}|wrong-keys")
                want_keys = all_dofs
            else:
                ctx.check(set(map(repr, got.keys())) == set(map(repr, want_keys)), f"{name}|wrong-keys")
            for d in want_keys:
                if d not in got:
                    continue
                p = tm.dof2pos[d]
                ctx.count("oracle")
                if mode == "entropy":
                    want = ent_of([p])
                    ctx.metric_max("max_abs_err:entropy", abs(got[d] - want))
                    ctx.check(abs(got[d] - want) <= ENT_TOL, f"{name}|differs-from-dense", got=got[d], want=want, gauge=gauge)
                else:
                    ctx.close(np.asarray(got[d]), ts.rdm_reference_sets(psi, tm, [p]), TOL, f"{name}|differs-from-partial-trace",
                              scale=n2, gauge=gauge, dof=repr(d))
            if m is not None:
                okm, gotm = call(ctx, world, name, getattr(m, name), arg)
                if okm:
                    cmp_dicts(ctx, world, {k: got[k] for k in want_keys if k in got}, gotm, ident, name,
                              ENT_TOL if mode == "entropy" else TOL, 1.0 if mode == "entropy" else n2)
    # ---- two dofs
    if len(ref_sets) < 2:
        return
    pairs = dof_pairs(ctx, world, 1 if rng.random() < 0.7 else 2)
    keys = [k for k, _ in pairs]
    arg = keys[0] if (len(keys) == 1 and rng.random() < 0.6) else list(keys)
    if mode == "mutual":
        ok, got = call(ctx, world, "calc_2dof_mutual_info", t.calc_2dof_mutual_info, arg)
        if ok:
            mi, (e1, e2) = got
            for k, (p, q) in pairs:
                want = (ent_of([p]) + ent_of([q]) - ent_of([p, q])) / 2
                ctx.count("oracle")
                if k not in mi:
                    ctx.violate("calc_2dof_mutual_info|wrong-keys")
                    continue
                ctx.metric_max("max_abs_err:entropy", abs(mi[k] - want))
                ctx.check(abs(mi[k] - want) <= ENT_TOL, "calc_2dof_mutual_info|differs-from-dense", got=mi[k], want=want,
                          gauge=gauge)
                ctx.check(abs(e2[k] - ent_of([p, q])) <= ENT_TOL, "calc_2dof_mutual_info|two-dof-entropy-differs-from-dense")
            if m is not None:
                okm, gotm = call(ctx, world, "calc_2dof_mutual_info", m.calc_2dof_mutual_info, arg)
                if okm:
                    cmp_dicts(ctx, world, mi, gotm[0], ident, "calc_2dof_mutual_info", ENT_TOL, 1.0)
    else:
        name = "calc_2dof_entropy" if mode == "entropy" else "calc_2dof_rdm"
        ok, got = call(ctx, world, name, getattr(t, name), arg)
        if ok:
            ctx.check(set(map(repr, got.keys())) == set(map(repr, keys)), f"{name}|wrong-keys")
            for k, (p, q) in pairs:
                if k not in got:
                    continue
                ctx.count("oracle")
                if mode == "entropy":
                    want = ent_of([p, q])
                    ctx.metric_max("max_abs_err:entropy", abs(got[k] - want))
                    ctx.check(abs(got[k] - want) <= ENT_TOL, f"{name}|differs-from-dense", got=got[k], want=want, gauge=gauge)
                else:
                    ctx.close(np.asarray(got[k]), ts.rdm_reference_sets(psi, tm, [p, q]), TOL,
                              f"{name}|differs-from-partial-trace", scale=n2, gauge=gauge, dofs=repr(k))
            if m is not None:
                okm, gotm = call(ctx, world, name, getattr(m, name), arg)
                if okm:
                    cmp_dicts(ctx, world, got, gotm, ident, name, ENT_TOL if mode == "entropy" else TOL,
                              1.0 if mode == "entropy" else n2)
    compare(ctx, world, a, "dof-rdm|operand-changed")


def obs_bond(ctx, world, a):
    if world.n_nodes < 2:
        return
    rng = ctx.rng
    t, m, gauge = eval_target(ctx, world, a)
    psi = world.tdense(t)
    S = tscale(a, psi)
    if float(np.linalg.norm(psi)) < 1e-3 * S:
        ctx.count("entropy-skipped-after-cancellation")
        return
    S = S if 0.1 <= float(np.linalg.norm(psi)) <= 10.0 else S / float(np.linalg.norm(psi))
    t, m, psi = unit_scaled(ctx, world, t, m, psi)
    if t is None:
        return
    nrm = S
    tm, ts = world.tmap, world.ts
    spectra = [ts.bond_spectrum_reference(psi, tm, i) for i in range(world.n_nodes)]
    if rng.random() < 0.5:
        ok, s_arr = call(ctx, world, "calc_bond_singular_values", t.calc_bond_singular_values)
        if ok:
            s_arr = np.asarray(s_arr)
            if ctx.check(s_arr.ndim == 2 and s_arr.shape[0] == world.n_nodes, "calc_bond_singular_values|wrong-shape",
                         shape=list(s_arr.shape)):
                for i in range(1, world.n_nodes):
                    got = np.sort(s_arr[i])[::-1]
                    want = spectra[i]
                    k = max(len(got), len(want))
                    ctx.count("oracle")
                    if not ctx.close(np.pad(got, (0, k - len(got))), np.pad(want, (0, k - len(want))), 1e-9,
                                     "calc_bond_singular_values|differ-from-dense-svd", scale=nrm, node=i, gauge=gauge):
                        break
    ok, ent = call(ctx, world, "calc_bond_entropy", t.calc_bond_entropy)
    if ok:
        ent = np.asarray(ent)
        if ctx.check(ent.shape == (world.n_nodes,), "calc_bond_entropy|wrong-shape", shape=list(ent.shape)):
            for i in range(world.n_nodes):
                want = dense.vn_entropy_from_probs(spectra[i] ** 2) if i > 0 else 0.0
                ctx.count("oracle")
                ctx.metric_max("max_abs_err:entropy", abs(ent[i] - want))
                ctx.check(abs(ent[i] - want) <= ENT_TOL, "calc_bond_entropy|differs-from-dense-schmidt-spectrum", got=float(ent[i]),
                          want=want, node=i, gauge=gauge)
            if m is not None:
                okm, entm = call(ctx, world, "calc_bond_entropy", m.calc_bond_entropy)
                if okm:
                    entm = np.asarray(entm)
                    ctx.count("child_order")
                    if entm.shape == ent.shape:
                        ctx.close(entm[world.o2n], ent, ENT_TOL, "child-order|calc_bond_entropy-differs", scale=1.0)
    compare(ctx, world, a, "bond-entropy|operand-changed")


# ------------------------------------------------------------------------------------------ side scenarios
def scenario_from_mps(ctx, gm, qntot):
    from rv import tree_states as ts
    from renormalizer.model import Model
    from renormalizer.tn.tree import from_mps
    rng = ctx.rng
    ctx.cls("from_mps")
    zero = np.zeros(gm.qn_size, dtype=int)
    terms = gen.random_terms(rng, gm, int(rng.integers(1, 5)), target_charge=zero, allow_complex=False, complex_factors=False,
                             decades=1)
    if not terms or np.iscomplexobj(dense.op_dense(gm.basis, terms)):
        terms = []
    model = Model(list(gm.basis), list(terms)) if terms else None
    if model is None:
        from renormalizer.model import Op
        terms = [Op("I", gm.basis[0].dofs[0], 1.0, qn=[zero])] if gm.qn_size > 1 else [Op("I", gm.basis[0].dofs[0])]
        model = Model(list(gm.basis), terms)
    mps = ctx.lib(states.random_state, ctx, gm, model, qntot, what="chain-state-constructor", promised=False)
    tr = []
    with_coeff = rng.random() < 0.5
    f = ctx.lib(states.gauge_history, rng, mps, 3, tr, allow_coeff=with_coeff, what="chain-gauge-history", promised=False)
    before = states.dense_of(mps).reshape(-1)
    tensor_before = np.asarray(mps.todense()).reshape(-1)
    try:
        basis, ttns, ttno = from_mps(mps)
    except Exception as e:  # noqa: BLE001
        from rv.case import _innermost_repo_frame
        ctx.violate(f"from_mps|crash|{type(e).__name__}@{_innermost_repo_frame(e)}", message=str(e)[:200], trace=tr)
        return
    ctx.count("oracle", 3)
    scale = max(float(np.linalg.norm(tensor_before)), 1e-300)
    got_t = safe_dense(ttns, gm, False)
    ok = ctx.close(got_t, tensor_before, TOL, "from_mps|dense-vector-not-preserved", scale=scale, trace=tr)
    ctx.check([id(b) for b in basis.basis_list] == [id(b) for b in list(gm.basis)[::-1]], "from_mps|basis-order-not-reversed")
    if abs(mps.coeff - 1) > 1e-12:
        ctx.cls("from_mps:coeff!=1")
    if ok:
        # the represented vector (tensors times prefactor), whatever the prefactor of the chain state is
        ctx.close(safe_dense(ttns, gm), before, TOL, "from_mps|coeff-dropped", scale=max(float(np.linalg.norm(before)), 1e-300),
                  mps_coeff=complex(mps.coeff), ttns_coeff=complex(ttns.coeff))
    ctx.close(states.dense_of(mps).reshape(-1), before, TOL, "from_mps|input-changed", scale=max(float(np.linalg.norm(before)), 1e-300))
    d = ts.max_isometry_defect(ttns)
    ctx.count("isometry_checks")
    ctx.check(d <= 1e-8, "from_mps|result-not-canonical", defect=d)
    try:
        ttns.check_canonical()
    except AssertionError:
        ctx.violate("from_mps|check_canonical-fails")
    ctx.count("label_checks")
    p = ts.tree_label_problems(ttns)
    ctx.check(not p, "from_mps|labels-inconsistent", problems=p[:3], trace=tr)
    ctx.check(np.array_equal(np.asarray(ttns.qntot).ravel(), np.asarray(mps.qntot).ravel()), "from_mps|total-charge-differs")
    # the returned operator is the model's Hamiltonian on the reversed chain
    oref = dense.op_dense(gm.basis, terms)
    ctx.close(np.asarray(ttno.todense(list(gm.basis))), oref, 1e-9, "from_mps|operator-differs", scale=max(float(np.linalg.norm(oref)), 1e-300))


def scenario_aux_space(ctx, world, gm, tree, qntot):
    """State on tree.add_auxiliary_space(), operator on the tree itself (the upstream use of partial operators)."""
    from rv import tree_states as ts, trees
    from renormalizer.tn import TTNO
    rng = ctx.rng
    try:
        atree, adesc, pairs = trees.auxiliary_space_tree(tree)
    except Exception as e:  # noqa: BLE001 - add_auxiliary_space itself is not this property's subject
        ctx.count("aux-space-unavailable")
        return
    phys = ts.reference_order(gm)
    qof = {id(p): q for p, q in pairs}
    order = phys + [qof[id(p)] for p in phys]
    t = ts.random_sector_ttns(rng, atree, qntot, int(rng.integers(1, 5)))
    if t is None:
        ctx.count("aux-space-unavailable")
        return
    if rng.random() < 0.4:
        ts.complexify_ttns(rng, t)
    ctx.cls("aux-space-partial-operator")
    zero = np.zeros(gm.qn_size, dtype=int)
    terms = gen.random_terms(rng, gm, int(rng.integers(1, 5)), target_charge=zero, allow_complex=False, complex_factors=False,
                             decades=1)
    if not terms:
        return
    oref = dense.op_dense(gm.basis, terms)
    if np.iscomplexobj(oref) or np.linalg.norm(oref) < 1e-8:
        return
    dimq = int(np.prod([b.nbas for b in phys]))
    big = np.kron(oref, np.eye(dimq))
    psi = safe_dense(t, order, False)
    ok, o = call(ctx, world, "TTNO", TTNO, tree, list(terms))
    if not ok:
        return
    scale = max(float(np.linalg.norm(oref) * np.linalg.norm(psi)), 1e-300)
    ok, e = call(ctx, world, "expectation(aux-space-partial-operator)", t.expectation, o)
    if ok:
        ctx.count("oracle")
        ctx.count("partial_oracle")
        want = np.vdot(psi, big @ psi)
        slack = 0.0 if isinstance(e, complex) else 1e-8
        ctx.check(abs(complex(e) - want) <= TOL * scale * max(float(np.linalg.norm(psi)), 1e-300) + slack,
                  "expectation(aux-space-partial-operator)|differs-from-dense", got=complex(e), want=complex(want))
    ok, res = call(ctx, world, "apply(aux-space-partial-operator)", o.apply, t)
    if not ok:
        return
    ctx.count("oracle")
    ctx.count("partial_oracle")
    ctx.close(safe_dense(res, order), big @ psi, TOL, "apply(aux-space-partial-operator)|dense-mismatch", scale=scale)
    if np.linalg.norm(big @ psi) > 1e-8 * scale:
        cp = res.copy()
        ok, _ = call(ctx, world, "apply(aux-space-partial-operator)|post-canonicalise", cp.canonicalise)
        if not ok:
            return
        ctx.count("oracle")
        ctx.close(safe_dense(cp, order), big @ psi, TOL, "apply(aux-space-partial-operator)|wrong-after-canonicalise", scale=scale)
        p = ts.tree_label_problems(cp)
        ctx.check(not p, "apply(aux-space-partial-operator)|labels-inconsistent", problems=p[:3])


# -------------------------------------------------------------------------------------------------- case
MENU = [("add", 3.0), ("scale", 2.0), ("copy", 0.7), ("to_complex", 0.5), ("apply", 3.5), ("normalize", 1.0),
        ("canonicalise", 1.5), ("compress", 1.5), ("centre-walk", 1.2),
        ("norm", 1.0), ("expectation", 2.0), ("rdm-site", 1.6), ("rdm-dof", 1.6), ("entropy", 1.5), ("mutual-info", 1.0),
        ("bond-entropy", 1.3)]
CHANGING = {"add", "scale", "apply", "normalize", "canonicalise", "compress", "centre-walk"}


def run_case(ctx):
    state = {"step": "setup"}
    try:
        _run_case(ctx, state)
    except BrokenNetwork as e:
        ctx.violate(f"{state['step']}|network-not-contractable", message=str(e))


def _run_case(ctx, state):
    from rv import tree_states as ts, trees
    rng = ctx.rng
    gm = build_model(ctx)
    qn_mode = gm.desc["qn_mode"]
    ctx.cls("qn-" + qn_mode)
    if any(b.multi_dof for b in gm.basis):
        ctx.cls("multi-dof-set")
    if any(trees.is_dummy(b) for b in gm.basis):
        ctx.cls("input-dummy-basis-set")
    kind, tree, tdesc = choose_tree(ctx, gm)
    feats = classify_tree(ctx, kind, tree, tdesc)
    qntot = states.pick_sector(rng, gm)
    world = World(ctx, gm, tree, tdesc, kind)
    if world.mirror:
        ctx.cls("child-permutation")
    shape_key = trees.tree_shape_key(tree)
    desc = {"model": gm.describe(), "tree": tdesc, "sector": qntot.tolist(),
            "child_perms": world.perms if world.mirror else None}
    ctx.describe(desc)

    # ---- side scenarios ---------------------------------------------------------------------------------
    if rng.random() < 0.3:
        state["step"] = "from_mps"
        from rv.case import CaseAbort
        try:
            scenario_from_mps(ctx, gm, qntot)
        except CaseAbort:
            pass        # the chain constructor refused the sector (recorded); the tree history is still run
    if gm.dim <= 24 and not any(b.multi_dof for b in gm.basis) and rng.random() < 0.7:
        state["step"] = "apply(aux-space-partial-operator)"
        scenario_aux_space(ctx, world, gm, tree, qntot)

    # ---- pool and operators ------------------------------------------------------------------------------
    pool = []
    state["step"] = "state-constructor"
    for _ in range(int(rng.integers(2, 4))):
        o = new_state(ctx, world, qntot)
        if not compare(ctx, world, o, "state-constructor"):
            return
        labels(ctx, world, o, "state-constructor")
        pool.append(o)
    if CHECK_DEFAULT_TODENSE:
        default_todense_check(ctx, world, pool[0].t)
    ops = []
    n_phys = len(ts.reference_order(gm))
    for k in range(int(rng.integers(1, 4))):
        partial = bool(n_phys >= 2 and rng.random() < 0.4)
        oo = make_operator(ctx, world, partial)
        if oo is not None:
            ops.append(oo)
    desc["initial"] = [o.trace for o in pool]
    desc["operators"] = [o.desc for o in ops]
    ctx.describe(desc)

    names = [m for m, _ in MENU]
    weights = np.array([w for _, w in MENU])
    weights = weights / weights.sum()
    nsteps = int(rng.integers(3, 11))
    trace = []
    changed = False
    ctx.evaluations = 0
    for step in range(nsteps):
        kind_ = names[int(rng.choice(len(names), p=weights))]
        a = pool[int(rng.integers(0, len(pool)))]
        new = None
        state["step"] = kind_
        ctx.evaluations += 1
        nviol = len(ctx.violations)
        if kind_ == "add":
            same = [o for o in pool if np.array_equal(o.t.qntot, a.t.qntot)]
            b = same[int(rng.integers(0, len(same)))]
            if b is a:
                b = Obj(a.t.copy(), a.ref.copy(), None if a.m is None else a.m.copy(), a.trace + ["copy"])
                if rng.random() < 0.5:
                    b.t.coeff = b.t.coeff * 3.0
                    if b.m is not None:
                        b.m.coeff = b.t.coeff
                    b.ref = b.ref * 3.0
            differ = not np.allclose(a.t.coeff, b.t.coeff)
            if differ:
                ctx.cls("add:coeffs-differ")
            if tensors_complex(a.t) != tensors_complex(b.t):
                ctx.cls("complex-with-real")
            if a.t.bond_dims != b.t.bond_dims:
                ctx.cls("add:bond-dims-differ")
            ctx.cls("op:add")
            use_op = rng.random() < 0.5
            ok, res = call(ctx, world, "add", (lambda: a.t + b.t) if use_op else (lambda: a.t.add(b.t)))
            if not ok:
                continue
            resm = None
            if a.m is not None and b.m is not None:
                okm, resm = call(ctx, world, "add", a.m.add, b.m)
            ref = a.ref + b.ref
            new = Obj(res, ref, resm, a.trace[-2:] + b.trace[-2:] + [f"add(coeffs {'differ' if differ else 'equal'})"])
            scale = max(float(np.linalg.norm(a.ref) + np.linalg.norm(b.ref)), 1e-300)
            for o in (a, b):
                compare(ctx, world, o, "add|operand-changed")
            got = world.dense(res)
            ctx.count("oracle")
            err = float(np.linalg.norm(got - ref))
            if err > TOL * scale:
                ta, tb = world.tdense(a.t), world.tdense(b.t)
                if world.n_nodes == 1 and np.linalg.norm(got - res.coeff * tb) <= TOL * scale:
                    # the only node has no virtual index to enlarge: the second operand overwrites the first
                    ctx.violate("add|one-node-tree|returns-second-operand", err=err, scale=scale, coeffs_differ=differ)
                    new = None
                elif differ and np.linalg.norm(got - a.t.coeff * (ta + tb)) <= TOL * scale:
                    ctx.violate("add|coeff-of-other-ignored", err=err, scale=scale, coeff_self=complex(a.t.coeff),
                                coeff_other=complex(b.t.coeff), coeff_result=complex(res.coeff))
                    new.ref = got          # re-synchronise so that the rest of the history is still checked
                else:
                    ctx.violate("add|dense-mismatch", err=err, scale=scale, coeffs_differ=differ, trace=new.trace[-6:])
                    new = None
            if new is not None:
                new.scale = scale
                if new.m is not None:
                    ctx.count("child_order")
                    ctx.close(world.dense(new.m), got, TOL, "child-order|add-differs", scale=scale, child_perms=world.perms)
                if np.linalg.norm(new.ref) < 1e-9 * scale:
                    new = None             # complete cancellation: nothing to canonicalise
        elif kind_ == "scale":
            ctx.cls("op:scale")
            val = [2.5, -0.7, complex(0.3, -1.1), np.float64(0.5), -1, 1j, 1e-3][int(rng.integers(0, 7))]
            inplace = rng.random() < 0.3
            if inplace:
                ok, res = call(ctx, world, "scale", a.t.scale, val, inplace=True)
                if not ok:
                    continue
                ctx.check(res is a.t, "scale|inplace-returns-new-object")
                if a.m is not None:
                    call(ctx, world, "scale", a.m.scale, val, inplace=True)
                a.ref = a.ref * val
                if a.scale:
                    a.scale = a.scale * abs(val)
                a.trace.append(f"scale!({val})")
                compare(ctx, world, a, "scale")
                labels(ctx, world, a, "scale")
                new = None
                trace.append("scale!")
                changed = True
                continue
            ok, res = call(ctx, world, "scale", a.t.scale, val)
            if not ok:
                continue
            resm = None
            if a.m is not None:
                okm, resm = call(ctx, world, "scale", a.m.scale, val)
            new = Obj(res, a.ref * val, resm, a.trace[-3:] + [f"scale({val})"])
            compare(ctx, world, a, "scale|operand-changed")
            compare(ctx, world, new, "scale", scale=max(float(np.linalg.norm(a.ref)) * max(abs(val), 1.0), 1e-300))
            ctx.check(np.allclose(res.coeff, a.t.coeff), "scale|coeff-changed")
        elif kind_ in ("copy", "to_complex"):
            ctx.cls("op:" + kind_)
            fn = (lambda t: t.copy()) if kind_ == "copy" else (lambda t: t.to_complex())
            ok, res = call(ctx, world, kind_, fn, a.t)
            if not ok:
                continue
            resm = None
            if a.m is not None:
                okm, resm = call(ctx, world, kind_, fn, a.m)
            new = Obj(res, a.ref.copy(), resm, a.trace[-3:] + [kind_])
            compare(ctx, world, new, kind_)
            compare(ctx, world, a, kind_ + "|operand-changed")
            ctx.check(np.array_equal(np.asarray(res.qntot), np.asarray(a.t.qntot)) and np.allclose(res.coeff, a.t.coeff),
                      f"{kind_}|metadata-differs")
            shares = any(np.shares_memory(n1.tensor, n2.tensor) for n1, n2 in zip(res.node_list, a.t.node_list))
            ctx.check(not shares, f"{kind_}|shares-arrays-with-original")
            if kind_ == "to_complex":
                ctx.check(all(np.iscomplexobj(nd.tensor) for nd in res.node_list), "to_complex|result-not-complex")
        elif kind_ == "apply" and ops:
            ctx.cls("op:apply")
            o = ops[int(rng.integers(0, len(ops)))]
            ref = o.ref @ a.ref
            scale = max(o.norm * float(np.linalg.norm(a.ref)), 1e-300)
            annihilated = np.linalg.norm(ref) < 1e-9 * scale
            how = ["apply", "matmul", "apply-canonicalise", "contract"][int(rng.integers(0, 4))]
            if annihilated or world.n_nodes == 1:
                how = ["apply", "matmul"][int(rng.integers(0, 2))]
            what = how + ("(partial-operator)" if o.partial else "")

            def do(op_, t_):
                if how == "apply":
                    return op_.apply(t_)
                if how == "matmul":
                    return op_ @ t_
                if how == "apply-canonicalise":
                    return op_.apply(t_, canonicalise=True)
                return op_.contract(t_)
            ok, res = call(ctx, world, what, do, o.o, a.t)
            if not ok:
                continue
            resm = None
            if a.m is not None and o.om is not None:
                okm, resm = call(ctx, world, what, do, o.om, a.m)
            new = Obj(res, ref, resm, a.trace[-2:] + [f"{what}[{'charged' if np.any(o.charge) else 'neutral'}]"])
            want_q = np.asarray(a.t.qntot).ravel() + o.charge
            ctx.check(np.array_equal(np.asarray(res.qntot).ravel(), want_q), f"{what}|total-charge-not-added",
                      got=np.asarray(res.qntot), want=want_q)
            ctx.check(np.allclose(res.coeff, a.t.coeff), f"{what}|coeff-not-kept")
            compare(ctx, world, a, f"{what}|operand-changed")
            ctx.count("oracle")
            if o.partial:
                ctx.count("partial_oracle")
            compare(ctx, world, new, what, scale=scale)
            if annihilated:
                ctx.cls("apply:annihilated")
                new = None
            elif how in ("apply-canonicalise", "contract") and len(ctx.violations) == nviol:
                isometry(ctx, world, res, what)
        elif kind_ == "normalize" :
            ctx.cls("op:normalize")
            nrm_t = float(np.linalg.norm(world.tdense(a.t)))
            if nrm_t < 1e-6 * max(1.0, a.scale or 1.0):
                continue
            mode = ["ttns_only", "ttns_norm_to_coeff", "ttns_and_coeff", "mps_only", "mps_and_coeff"][int(rng.integers(0, 5))]
            cp = Obj(a.t.copy(), a.ref.copy(), None if a.m is None else a.m.copy(), a.trace[-3:] + [f"normalize({mode})"])
            ok, _ = call(ctx, world, "normalize", cp.t.normalize, mode)
            if not ok:
                continue
            if cp.m is not None:
                okm, _ = call(ctx, world, "normalize", cp.m.normalize, mode)
                if not okm:
                    cp.m = None
            c0 = a.t.coeff
            if mode in ("ttns_only", "mps_only"):
                cp.ref = a.ref / nrm_t
            elif mode == "ttns_norm_to_coeff":
                cp.ref = a.ref.copy()
            else:
                cp.ref = a.ref / nrm_t / abs(c0)
            new = cp
            compare(ctx, world, new, f"normalize({mode.replace('mps', 'ttns')})", scale=max(float(np.linalg.norm(a.ref)), float(np.linalg.norm(cp.ref)), 1e-300))
            ctx.count("oracle")
            ctx.close(np.linalg.norm(world.tdense(cp.t)), 1.0, 1e-9, "normalize|tensor-part-not-normalised", scale=1.0, mode=mode)
            compare(ctx, world, a, "normalize|operand-changed")
        elif kind_ == "canonicalise":
            ctx.cls("op:canonicalise")
            ok, res = call(ctx, world, "canonicalise", a.t.canonicalise)
            if not ok:
                continue
            ctx.check(res is a.t, "canonicalise|does-not-return-self")
            if a.m is not None:
                call(ctx, world, "canonicalise", a.m.canonicalise)
            a.trace.append("canonicalise")
            if compare(ctx, world, a, "canonicalise"):
                isometry(ctx, world, a.t, "canonicalise")
                if a.m is not None:
                    isometry(ctx, world, a.m, "canonicalise|child-permuted")
            labels(ctx, world, a, "canonicalise")
            trace.append("canonicalise")
            changed = True
            continue
        elif kind_ == "compress" and world.n_nodes > 1:
            ctx.cls("op:compress")
            variant = int(rng.integers(0, 3))
            if not lossless_compress(ctx, world, a.t, "compress", variant):
                continue
            if a.m is not None:
                lossless_compress(ctx, world, a.m, "compress", variant)
            a.trace.append(f"compress(v{variant})")
            if compare(ctx, world, a, "lossless-compress"):
                isometry(ctx, world, a.t, "lossless-compress")
            labels(ctx, world, a, "lossless-compress")
            trace.append("compress")
            changed = True
            continue
        elif kind_ == "centre-walk" and world.n_nodes > 1:
            ctx.cls("op:centre-walk")
            ok, _ = call(ctx, world, "canonicalise", a.t.canonicalise)
            if not ok:
                continue
            if a.m is not None:
                call(ctx, world, "canonicalise", a.m.canonicalise)
            idx_of = {id(nd): i for i, nd in enumerate(a.t.node_list)}
            nd = a.t.root
            path = []
            good = True
            while nd.children and good:
                i = idx_of[id(nd)]
                j = int(rng.integers(0, len(nd.children)))
                ok, _ = call(ctx, world, "push_cano_to_child", a.t.push_cano_to_child, nd, j)
                if not ok:
                    good = False
                    break
                if a.m is not None:
                    call(ctx, world, "push_cano_to_child", a.m.push_cano_to_child, a.m.node_list[world.mnode(i)], world.mchild(i, j))
                path.append((i, j))
                nd = nd.children[j]
                good = compare(ctx, world, a, "push_cano_to_child") and labels(ctx, world, a, "push_cano_to_child")
                if rng.random() < 0.25:
                    break
            while good and nd.parent is not None:
                i = idx_of[id(nd)]
                ok, _ = call(ctx, world, "push_cano_to_parent", a.t.push_cano_to_parent, nd)
                if not ok:
                    good = False
                    break
                if a.m is not None:
                    call(ctx, world, "push_cano_to_parent", a.m.push_cano_to_parent, a.m.node_list[world.mnode(i)])
                nd = nd.parent
                good = compare(ctx, world, a, "push_cano_to_parent") and labels(ctx, world, a, "push_cano_to_parent")
            if good:
                isometry(ctx, world, a.t, "centre-walk")
                if a.m is not None:
                    isometry(ctx, world, a.m, "centre-walk|child-permuted")
            if len(path) >= 1 and any(len(a.t.node_list[i].children) >= 2 for i, _ in path):
                ctx.cls("centre-walk:through-branching-node")
            a.trace.append(f"centre-walk({len(path)})")
            trace.append(f"centre-walk({len(path)})")
            changed = True
            continue
        elif kind_ == "norm":
            ctx.cls("op:norm")
            obs_norm(ctx, world, a)
        elif kind_ == "expectation":
            ctx.cls("op:expectation")
            obs_expectation(ctx, world, a, ops)
        elif kind_ == "rdm-site":
            ctx.cls("op:rdm-site")
            obs_rdm_site(ctx, world, a, entropy=False)
        elif kind_ == "rdm-dof":
            ctx.cls("op:rdm-dof")
            obs_rdm_dof(ctx, world, a, "rdm")
        elif kind_ == "entropy":
            ctx.cls("op:entropy")
            if rng.random() < 0.5:
                obs_rdm_site(ctx, world, a, entropy=True)
            else:
                obs_rdm_dof(ctx, world, a, "entropy")
        elif kind_ == "mutual-info":
            ctx.cls("op:mutual-info")
            obs_rdm_dof(ctx, world, a, "mutual")
        elif kind_ == "bond-entropy":
            ctx.cls("op:bond-entropy")
            obs_bond(ctx, world, a)
        else:
            continue
        trace.append(kind_)
        if new is not None:
            if kind_ in CHANGING:
                changed = True
            labels(ctx, world, new, kind_)
            if len(ctx.violations) == nviol and rng.random() < 0.75:
                post_check(ctx, world, new, kind_)
            new.t.compress_config = ts.lossless_cfg()
            if new.m is not None:
                new.m.compress_config = ts.lossless_cfg()
            if len(pool) < 5:
                pool.append(new)
            else:
                pool[int(rng.integers(0, len(pool)))] = new
        fatal = [v for v in ctx.violations[nviol:] if "|crash|" not in v["signature"] and "coeff-of-other-ignored" not in v["signature"]
                 and "add|one-node-tree|" not in v["signature"]]
        if fatal:
            break
    desc["trace"] = trace
    ctx.describe(desc)
    structured = feats["max_arity"] >= 2 or feats["multi_set"]
    if structured and changed:
        ctx.nontrivial({"shape": shape_key, "trace": trace, "initial": desc["initial"]})
