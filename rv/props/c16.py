"""C16 - built-in basis sets and model builders realise their documented physics."""
import contextlib
import io
import math
import traceback

import numpy as np

from rv import dense
from rv.case import _innermost_repo_frame

ID = "C16"
LEVEL = "exploration"
RULE = ("Deterministic parameter grid plus random parameters per class. BasisSHO: every supported symbol x sizes "
        "1..12 x omega x origin x dvr x general_xp_power against ladder matrices built by the harness in a basis of "
        "size N+8 (product in the written order, projected to NxN). BasisSineDVR: every analytic symbol against "
        "256-node Gauss-Legendre quadrature of psi_j O psi_k with analytic derivatives, endpoint on/off, dvr on/off, "
        "DVR potentials, explicit-quadrature mode. Spin/electron/multi-electron/HOPS matrices against the harness's "
        "own matrices. Every basis object is evaluated again after a failing op_mat call. HolsteinModel (1-3 "
        "molecules, 1-2 modes, schemes 1-4, open/periodic, array/Quantity J), SpinBosonModel, TI1DModel (wrap-around, "
        "translation operator), construct_j_matrix and Quantity against Hamiltonians/values assembled by the harness. "
        "A comparison is non-trivial when the symbol has >= 2 factors or a power >= 2 and N >= 3 (models: >= 2 sites "
        "with an interaction term); distinct by (class, parameters, symbol).")
ASSUMPTIONS = [
    "sizes N <= 12, powers <= 6; dense model Hamiltonians of dimension <= 520 (quick) / 900 (thorough)",
    "tolerance 1e-10 relative to the Frobenius norm of the reference (1e-8 for quadrature references, 1e-6 for the "
    "library's own scipy.integrate.quad mode whose default accuracy is 1.5e-8)",
    "sine-DVR references: Gauss-Legendre quadrature with 256 nodes on [x_0, x_{N+1}]",
    "BasisSHO second-quantised symbols (b, b^dagger, ..., n) are documented not to follow a shifted origin; under "
    "dvr=True their representation is not documented, so nothing is demanded of them there (behaviour is counted)",
    "DVR position powers are diag(x_grid)^k by definition, exact w.r.t. the plain ones only for i+j+k <= 2N-2",
    "HolsteinModel: the diagonal of an explicit j_matrix is ignored by the builder (on-site energy is elocalex+e0); "
    "omega0/omega1 are generated either equal or >= 10 % apart (the builder decides with np.allclose)",
    "SpinBosonModel: the documentation does not relate c_i to Phonon parameters; operator equality is tried with "
    "c_i = -omega_i^2 d_i and only a spectral difference (sign-convention independent) is a violation",
    "'a a^dagger' on BasisMultiElectron(Vac) is undocumented: counted as observation, never judged",
    "unit conversion references come from scipy.constants by a different route; hard-coded CODATA values to 1e-7",
    "BasisSineDVR(nbas=1, endpoint=True) is ill-defined (x_1=xi and x_N=xf with xi<xf) and counted as refusal",
]

TOL = 1e-10
QTOL = 1e-8
BD = r"b^\dagger"


# ------------------------------------------------------------------------------------------------ helpers
class _Crash:
    def __init__(self, exc):
        self.exc = exc
        self.msg = f"{type(exc).__name__}: {str(exc)[:120]}"


def _call(fn, *args, **kwargs):
    """Call the library; exceptions are returned as a _Crash object (classified by the caller)."""
    try:
        buf = io.StringIO()
        with contextlib.redirect_stdout(buf):
            return fn(*args, **kwargs)
    except BaseException as e:  # noqa: BLE001
        if isinstance(e, (KeyboardInterrupt, SystemExit, MemoryError)) or type(e).__name__ in ("CaseTimeout", "CaseAbort"):
            raise
        e._tb_text = traceback.format_exc()[-1200:]
        return _Crash(e)


def _is_refusal(crash):
    return isinstance(crash.exc, ValueError) and "not supported" in str(crash.exc)


def _promised(ctx, res, what):
    """res is the result of _call on an input the property promises: a crash is a violation.  Returns ok."""
    if isinstance(res, _Crash):
        where = _innermost_repo_frame(res.exc)
        ctx.violate(f"{what}|crash|{type(res.exc).__name__}@{where}", message=res.msg,
                    traceback=getattr(res.exc, "_tb_text", ""))
        return False
    return True


def _cmp(ctx, got, want, tol, sig, floor=0.0, **detail):
    """Relative comparison; `floor` is the natural magnitude of one matrix element (guards references that are
    zero up to rounding)."""
    ctx.count("oracle")
    ctx.evaluations += 1
    want = np.asarray(want)
    nrm = max(float(np.linalg.norm(want.ravel())), float(floor))
    return ctx.close(np.asarray(got), want, tol, sig, scale=nrm if nrm > 0 else 1.0, **detail)


def _same(a, b, tol, floor=0.0):
    a, b = np.asarray(a), np.asarray(b)
    if a.shape != b.shape:
        return False
    nrm = max(float(np.linalg.norm(b.ravel())), float(floor))
    return float(np.linalg.norm((a - b).ravel())) <= tol * (nrm if nrm > 0 else 1.0)


def _fmt(x):
    return float(f"{float(x):.6g}")


# ------------------------------------------------------------------------------------------------ BasisSHO
def _sho_env(N, omega, x0, M=None):
    M = M or N + 8
    b = np.diag(np.sqrt(np.arange(1, M)), k=1).astype(complex)
    bd = b.T.copy()
    y = math.sqrt(0.5 / omega) * (bd + b)
    p = 1j * math.sqrt(omega / 2) * (bd - b)
    eye = np.eye(M, dtype=complex)
    return {"b": b, "bd": bd, "bd+b": bd + b, "bd-b": bd - b, "y": y, "x": y + x0 * eye, "p": p, "dx": 1j * p,
            "I": eye, "n": bd @ b}


def _prod(E, factors, N):
    m = E["I"]
    for f in factors:
        m = m @ E[f]
    return m[:N, :N]


def _sho_symbols():
    """(symbol, canonical symbol for signatures, kind, factors in the written order)."""
    T = [("b", "ladder", ["b"]), ("b b", "ladder", ["b", "b"]), (BD, "ladder", ["bd"]),
         (f"{BD} {BD}", "ladder", ["bd", "bd"]), (f"{BD} b", "ladder", ["bd", "b"]), (f"b {BD}", "ladder", ["b", "bd"]),
         (f"{BD} + b", "ladder", ["bd+b"]), (f"{BD}+b", "ladder", ["bd+b"]), (f"{BD}-b", "ladder", ["bd-b"]),
         ("n", "ladder", ["bd", "b"]), ("I", "identity", ["I"]),
         ("x", "pos", ["x"]), ("p", "mom", ["p"]), ("dx", "mom", ["dx"]), ("partialx", "mom", ["dx"]),
         ("dx^2", "mom", ["dx", "dx"]), ("dx dx", "mom", ["dx", "dx"]), ("partialx^2", "mom", ["dx", "dx"]),
         ("x p", "mixed", ["x", "p"]), ("p x", "mixed", ["p", "x"]), ("x dx", "mixed", ["x", "dx"]),
         ("dx x", "mixed", ["dx", "x"]), ("x partialx", "mixed", ["x", "dx"])]
    for k in range(1, 7):
        T.append((f"x^{k}", "pos", ["x"] * k))
        T.append((f"p^{k}", "mom", ["p"] * k))
        if k >= 2:
            T.append((" ".join(["x"] * k), "pos", ["x"] * k))
            T.append((" ".join(["p"] * k), "mom", ["p"] * k))
    return [(s, s.replace("partialx", "dx"), kind, f) for s, kind, f in T]


SHO_SYMBOLS = _sho_symbols()


def _sho_params(ctx, prm):
    rng = ctx.rng
    if prm.get("random"):
        N = int(rng.integers(1, 13))
        omega = float(10 ** rng.uniform(-3, 0.7))
        r = rng.random()
        x0 = 0.0 if r < 0.25 else float(rng.uniform(-4, 4) * math.sqrt(0.5 / omega)) if r < 0.9 else float(rng.choice([10.0, -25.0]))
        return N, omega, x0, bool(rng.random() < 0.5), bool(rng.random() < 0.5)
    return prm["N"], prm["omega"], prm["x0"], prm["dvr"], prm["gxp"]


def _case_sho(ctx, prm):
    from renormalizer.model import Op
    from renormalizer.model.basis import BasisSHO
    N, omega, x0, dvr, gxp = _sho_params(ctx, prm)
    par = {"N": N, "omega": _fmt(omega), "x0": _fmt(x0), "dvr": dvr, "general_xp_power": gxp}
    ctx.describe({"class": "BasisSHO", **par})
    ctx.cls("BasisSHO", "sho-dvr" if dvr else "sho-plain", "sho-shifted" if x0 != 0 else "sho-origin0",
            "sho-general-power" if gxp else "sho-hardcoded-power")
    if N == 1:
        ctx.cls("size-1")
    basis = _call(BasisSHO, "v", omega, N, x0=x0, dvr=dvr, general_xp_power=gxp)
    if not _promised(ctx, basis, "BasisSHO|constructor"):
        return
    E = _sho_env(N, omega, x0)
    E0 = dict(E, x=E["y"])                      # origin ignored
    V = None
    if dvr:
        V = np.asarray(basis.dvr_v)
        X = _prod(E, ["x"], N).real
        ctx.count("oracle", 2)
        ctx.check(V.shape == (N, N) and _same(V.T @ V, np.eye(N), 1e-12), "BasisSHO|dvr|V-not-orthogonal")
        ctx.check(_same(V.T @ X @ V, np.diag(basis.dvr_x), 1e-11), "BasisSHO|dvr|grid-not-eigenvalues-of-x")
        if V.shape != (N, N):
            return

    def rot(m):
        return V.T @ m @ V if dvr else m

    first = {}
    for sym, canon, kind, factors in SHO_SYMBOLS:
        got = _call(basis.op_mat, sym)
        if not _promised(ctx, got, f"BasisSHO|symbol={canon}"):
            continue
        got = np.asarray(got)
        first[sym] = got
        plain = _prod(E, factors, N)
        fl = float(np.prod([{"x": math.sqrt(0.5 / omega) + abs(x0), "p": math.sqrt(omega / 2), "dx": math.sqrt(omega / 2)}.get(f, 1.0)
                            for f in factors]))
        if len(factors) >= 2 and N >= 3:
            ctx.nontrivial(("BasisSHO", par, sym))
        sig = f"BasisSHO|symbol={canon}"
        if kind == "ladder" and dvr:
            # one basis object returns all of its operators in ONE representation: with dvr=True the ladder operators are
            # V^T (plain matrix) V like x and p (test_BasisSHO states that contract for x, x^2, p, p^2)
            ctx.cls("sho-dvr-ladder")
            _cmp(ctx, got, rot(plain), TOL, sig + "|dvr-not-rotated", floor=fl)
            continue
        if kind in ("ladder", "identity"):
            _cmp(ctx, got, plain, TOL, sig + "|matrix-differs", floor=fl)
        elif kind == "pos":
            if dvr:
                k = len(factors)
                _cmp(ctx, got, np.diag(np.asarray(basis.dvr_x) ** k), TOL, sig.replace(canon, _poscanon(canon)) + "|dvr-not-diag-grid-power", floor=fl)
                back = V @ got @ V.T
                idx = np.add.outer(np.arange(N), np.arange(N)) + k <= 2 * N - 2
                ctx.count("oracle")
                nrm = max(float(np.linalg.norm(plain[idx])), 1e-300) if idx.any() else 1.0
                ctx.check(not idx.any() or float(np.linalg.norm((back - plain)[idx])) <= 1e-9 * nrm,
                          "BasisSHO|dvr|position-power-inexact-inside-documented-range", power=k, N=N)
            else:
                _cmp(ctx, got, plain, TOL, sig.replace(canon, _poscanon(canon)) + ("|x0" if x0 != 0 else "") + "|matrix-differs", floor=fl)
        elif kind == "mom":
            _cmp(ctx, got, rot(plain), TOL, sig.replace(canon, _poscanon(canon)) + ("|dvr" if dvr else "") + "|matrix-differs", floor=fl)
        else:  # mixed: separate the three mechanisms
            ctx.count("oracle")
            ctx.evaluations += 1
            if _same(got, rot(plain), TOL, fl):
                continue
            found = None
            cands = []
            for swapped in (False, True):
                for ign in ((False, True) if x0 != 0 else (False,)):
                    for norot in ((False, True) if dvr else (False,)):
                        cands.append((swapped + ign + norot, swapped, ign, norot))
            for _, swapped, ign, norot in sorted(cands):
                m = _prod(E0 if ign else E, factors[::-1] if swapped else factors, N)
                if not norot:
                    m = rot(m)
                if _same(got, m, TOL, fl):
                    found = (swapped, ign, norot)
                    break
            if found is None:
                ctx.violate(sig + "|matrix-differs", N=N, omega=omega, x0=x0, dvr=dvr)
            else:
                for flag, name in zip(found, ("order-swapped", "x0-ignored", "dvr-not-rotated")):
                    if flag:
                        ctx.violate(sig + "|" + name, N=N, omega=omega, x0=x0, dvr=dvr,
                                    equals="product with: " + ", ".join(n for f, n in zip(found, ("reversed order", "x0 dropped", "no DVR rotation")) if f))
    # canonical commutator on the leading block
    if "x" in first and "p" in first and N >= 2:
        xm, pm = first["x"], first["p"]
        if dvr:
            xm, pm = V @ xm @ V.T, V @ pm @ V.T
        c = (xm @ pm - pm @ xm)[:N - 1, :N - 1]
        _cmp(ctx, c, 1j * np.eye(N - 1), 1e-9, "BasisSHO|commutator-x-p-not-i")
    # prefactor
    for j in ctx.rng.choice(len(SHO_SYMBOLS), size=3, replace=False):
        sym = SHO_SYMBOLS[int(j)][0]
        if sym in first:
            c = float(ctx.rng.uniform(-2, 2))
            got = _call(basis.op_mat, Op(sym, "v", c))
            if _promised(ctx, got, "BasisSHO|op-with-factor"):
                _cmp(ctx, got, c * first[sym], 1e-13, "BasisSHO|factor-not-applied")
    _history(ctx, "BasisSHO", basis, first, ["dx^3", "x^2 p", "no_such_symbol"], None)


def _poscanon(canon):
    """'x x x' and 'x^3' share one signature key ('x^3'); same for p."""
    w = canon.split(" ")
    if len(w) >= 2 and len(set(w)) == 1 and w[0] in ("x", "p"):
        return f"{w[0]}^{len(w)}"
    return canon


def _history(ctx, cname, basis, first, failing, plain_of):
    """Evaluate every symbol again after failing op_mat calls on the same object."""
    nfail = 0
    for bad in failing:
        r = _call(basis.op_mat, bad)
        if isinstance(r, _Crash):
            nfail += 1
            ctx.refuse(f"{cname}.op_mat: " + ("is not supported" if _is_refusal(r) else r.msg[:60]))
    if not nfail:
        return
    ctx.cls("after-failed-call")
    for sym, m1 in first.items():
        m2 = _call(basis.op_mat, sym)
        ctx.count("oracle")
        ctx.count("history_checks")
        ctx.evaluations += 1
        if isinstance(m2, _Crash):
            ctx.violate(f"{cname}|history|raises-after-failed-call", symbol=sym, message=m2.msg)
            continue
        if _same(m2, m1, 1e-13):
            continue
        if plain_of is not None and sym in plain_of and _same(m2, plain_of[sym], 1e-8):
            ctx.violate(f"{cname}|history|dvr-rotation-lost-after-failed-call", symbol=sym)
        else:
            ctx.violate(f"{cname}|history|matrix-changes-after-failed-call", symbol=sym)


# --------------------------------------------------------------------------------------------- BasisSineDVR
_GL = np.polynomial.legendre.leggauss(256)

# (symbol, factors in the written order as (kind, power)); analytic = closed-form branch of the library
SINE_ANALYTIC = [
    ("I", []), ("x", [("x", 1)]), ("x^1", [("x", 1)]), ("x^2", [("x", 2)]), ("x^3", [("x", 3)]),
    ("x x", [("x", 1), ("x", 1)]), ("x x x", [("x", 1)] * 3),
    ("dx", [("dx", 1)]), ("partialx", [("dx", 1)]), ("dx^2", [("dx", 2)]), ("dx dx", [("dx", 1), ("dx", 1)]),
    ("partialx^2", [("dx", 2)]), ("p", [("p", 1)]), ("p^2", [("p", 2)]),
    ("x dx", [("x", 1), ("dx", 1)]), ("x partialx", [("x", 1), ("dx", 1)]),
    ("x^2 p^2", [("x", 2), ("p", 2)]), ("x^2 dx^2", [("x", 2), ("dx", 2)]), ("x^2 dx", [("x", 2), ("dx", 1)]),
    ("x p^2", [("x", 1), ("p", 2)]), ("x dx^2", [("x", 1), ("dx", 2)]),
    ("x^3 p^2", [("x", 3), ("p", 2)]), ("x^3 dx^2", [("x", 3), ("dx", 2)]),
]
SINE_DVR_POTENTIAL = [("x^4", 4), ("x^5", 5), ("x x x x", 4)]
SINE_QUAD = [("x^4", [("x", 4)]), ("dx x", [("dx", 1), ("x", 1)]), ("dx x dx", [("dx", 1), ("x", 1), ("dx", 1)]),
             ("x^4 dx", [("x", 4), ("dx", 1)]), ("x^2 dx^3", [("x", 2), ("dx", 3)])]


def _sine_ref(N, x0, L, factors):
    """<psi_j| O |psi_k> by Gauss-Legendre quadrature; O applied to the ket right-to-left with analytic derivatives.

    A function is kept as A(x) sin(theta) + B(x) cos(theta), theta = k pi (x - x0)/L, A and B polynomials in x.
    """
    P = np.polynomial.Polynomial
    xq = x0 + 0.5 * L * (_GL[0] + 1)
    wq = 0.5 * L * _GL[1]
    nrm = math.sqrt(2 / L)
    js = np.arange(1, N + 1)
    th = np.outer(xq - x0, js * np.pi / L)          # (Q, N)
    bra = nrm * np.sin(th)
    ket = np.zeros((len(xq), N), dtype=complex)
    for k in range(1, N + 1):
        kap = k * np.pi / L
        A, B, c = P([1.0]), P([0.0]), 1.0 + 0j
        for kind, power in factors[::-1]:
            if kind == "x":
                xp = P([0.0, 1.0]) ** power
                A, B = A * xp, B * xp
            else:
                for _ in range(power):
                    A, B = A.deriv() - kap * B, B.deriv() + kap * A
                if kind == "p":
                    c = c * (-1j) ** power
        ket[:, k - 1] = c * nrm * (A(xq) * np.sin(th[:, k - 1]) + B(xq) * np.cos(th[:, k - 1]))
    return bra.T @ (wq[:, None] * ket)


def _sine_params(ctx, prm):
    rng = ctx.rng
    if prm.get("random"):
        N = int(rng.integers(1, 13))
        endpoint = bool(rng.random() < 0.5) and N >= 2
        dvr = bool(rng.random() < 0.5)
    else:
        N, endpoint, dvr = prm["N"], prm["endpoint"], prm["dvr"]
    xi = float(rng.uniform(-6, 6)) if rng.random() < 0.8 else 0.0
    xf = xi + float(10 ** rng.uniform(-0.5, 1.2))
    return N, xi, xf, endpoint, dvr, bool(prm.get("quadrature", False))


def _case_sine(ctx, prm):
    from renormalizer.model import Op
    from renormalizer.model.basis import BasisSineDVR
    N, xi, xf, endpoint, dvr, quadrature = _sine_params(ctx, prm)
    par = {"N": N, "xi": _fmt(xi), "xf": _fmt(xf), "endpoint": endpoint, "dvr": dvr, "quadrature": quadrature}
    ctx.describe({"class": "BasisSineDVR", **par})
    ctx.cls("BasisSineDVR", "sine-dvr" if dvr else "sine-fbr", "sine-endpoint" if endpoint else "sine-open-ends")
    if quadrature:
        ctx.cls("sine-quadrature")
    if endpoint and N == 1:
        r = _call(BasisSineDVR, "r", N, xi, xf, endpoint=True)
        ctx.refuse("BasisSineDVR(nbas=1, endpoint=True): " + (r.msg[:50] if isinstance(r, _Crash) else "accepted"))
        return
    basis = _call(BasisSineDVR, "r", N, xi, xf, endpoint=endpoint, dvr=dvr, quadrature=quadrature)
    if not _promised(ctx, basis, "BasisSineDVR|constructor"):
        return
    # documented box and grid
    if endpoint:
        h = (xf - xi) / (N - 1)
        x0, L = xi - h, (xf - xi) + 2 * h
    else:
        x0, L = xi, xf - xi
    grid = x0 + np.arange(1, N + 1) * L / (N + 1)
    _cmp(ctx, basis.dvr_x, grid, 1e-12, "BasisSineDVR|grid-points-differ", endpoint=endpoint)
    if endpoint:
        ctx.check(abs(basis.dvr_x[0] - xi) <= 1e-12 * max(1, abs(xi)) and abs(basis.dvr_x[-1] - xf) <= 1e-12 * max(1, abs(xf)),
                  "BasisSineDVR|endpoint-grid-not-at-xi-xf")
    al = np.arange(1, N + 1)
    V = math.sqrt(2 / (N + 1)) * np.sin(np.outer(al, al) * np.pi / (N + 1))
    _cmp(ctx, basis.dvr_v, V, 1e-12, "BasisSineDVR|dvr_v-differs")
    ctx.count("oracle")
    ctx.check(_same(np.asarray(basis.dvr_v).T @ np.asarray(basis.dvr_v), np.eye(N), 1e-12), "BasisSineDVR|dvr|V-not-orthogonal")

    def rot(m):
        return V.T @ m @ V if dvr else m

    first, plain_of = {}, {}
    for sym, factors in SINE_ANALYTIC:
        canon = sym.replace("partialx", "dx")
        got = _call(basis.op_mat, sym)
        if not _promised(ctx, got, f"BasisSineDVR|symbol={canon}"):
            continue
        got = np.asarray(got)
        first[sym] = got
        ref = _sine_ref(N, x0, L, factors)
        plain_of[sym] = ref
        npow = sum(p for _, p in factors)
        fl = float(np.prod([max(abs(x0), abs(x0 + L)) ** pw if kd == "x" else (np.pi / L) ** pw for kd, pw in factors] + [1.0]))
        if npow >= 2 and N >= 3:
            ctx.nontrivial(("BasisSineDVR", par, sym))
        if dvr and not _same(got, rot(ref), QTOL, fl) and _same(got, ref, QTOL, fl) and N >= 2:
            ctx.count("oracle")
            ctx.violate(f"BasisSineDVR|symbol={canon}|dvr-not-rotated")
            continue
        _cmp(ctx, got, rot(ref), QTOL, f"BasisSineDVR|symbol={canon}" + ("|dvr" if dvr else "") + "|differs-from-integral", floor=fl)
    failing = ["x^2 dx^3"] if not quadrature else []
    if dvr and not quadrature:
        # "if dvr is True, potential term is calculated by dvr"
        for sym, k in SINE_DVR_POTENTIAL:
            got = _call(basis.op_mat, sym)
            if not _promised(ctx, got, f"BasisSineDVR|dvr-potential|symbol={sym}"):
                continue
            first[sym] = np.asarray(got)
            plain_of[sym] = V @ np.diag(grid ** k) @ V.T
            if N >= 3:
                ctx.nontrivial(("BasisSineDVR", par, sym))
            _cmp(ctx, got, np.diag(grid ** k), 1e-9, f"BasisSineDVR|dvr-potential|symbol={sym}|not-diag-of-grid-values")
    elif not quadrature:
        failing.append("x^4")
    if quadrature:
        for sym, factors in SINE_QUAD:
            got = _call(basis.op_mat, sym)
            if isinstance(got, _Crash):
                ctx.refuse("BasisSineDVR quadrature mode: " + got.msg[:80])
                continue
            first[sym] = np.asarray(got)
            if N >= 3:
                ctx.nontrivial(("BasisSineDVR", par, sym))
            _cmp(ctx, got, _sine_ref(N, x0, L, factors), 1e-6, f"BasisSineDVR|quadrature-mode|symbol={sym}|differs-from-integral")
    if first:
        sym = list(first)[int(ctx.rng.integers(0, len(first)))]
        c = float(ctx.rng.uniform(-2, 2))
        got = _call(basis.op_mat, Op(sym, "r", c))
        if _promised(ctx, got, "BasisSineDVR|op-with-factor"):
            _cmp(ctx, got, c * first[sym], 1e-12, "BasisSineDVR|factor-not-applied")
    if quadrature:
        return
    _history(ctx, "BasisSineDVR", basis, first, failing, plain_of if dvr and N >= 2 else None)


# --------------------------------------------------------------------------- spin / electron / multi-electron / HOPS
_PX = np.array([[0, 1], [1, 0]], dtype=complex)
_PY = np.array([[0, -1j], [1j, 0]], dtype=complex)
_PZ = np.array([[1, 0], [0, -1]], dtype=complex)
_PAULI = {"I": np.eye(2, dtype=complex), "X": _PX, "Y": _PY, "Z": _PZ, "iY": 1j * _PY,
          "+": (_PX + 1j * _PY) / 2, "-": (_PX - 1j * _PY) / 2}
SPIN_ALIASES = {"I": ["I"], "X": ["sigma_x", "X", "x"], "Y": ["sigma_y", "Y", "y"], "Z": ["sigma_z", "Z", "z"],
                "iY": ["isigma_y", "iY", "iy"], "+": ["sigma_+", "+"], "-": ["sigma_-", "-"]}


def _case_spin(ctx, prm):
    from renormalizer.model import Op
    from renormalizer.model.basis import BasisHalfSpin
    rng = ctx.rng
    sq = [None, [0, 0], [1, -1], [[0, 1], [1, 0]], [-1, 1]][int(rng.integers(0, 5))]
    dof = ["s", 3, ("spin", 1)][int(rng.integers(0, 3))]
    ctx.describe({"class": "BasisHalfSpin", "sigmaqn": sq, "dof": dof})
    ctx.cls("BasisHalfSpin")
    basis = _call(BasisHalfSpin, dof, sq) if sq is not None else _call(BasisHalfSpin, dof)
    if not _promised(ctx, basis, "BasisHalfSpin|constructor"):
        return
    first = {}
    flat = [(k, a) for k, al in SPIN_ALIASES.items() for a in al]
    for key, alias in flat:
        got = _call(basis.op_mat, alias)
        if _promised(ctx, got, f"BasisHalfSpin|symbol={alias}"):
            first[alias] = np.asarray(got)
            _cmp(ctx, got, _PAULI[key], 1e-14, f"BasisHalfSpin|symbol={alias}|matrix-differs")
    # algebra on the returned matrices themselves
    g = {k: first.get(SPIN_ALIASES[k][0]) for k in SPIN_ALIASES}
    if all(v is not None for v in g.values()):
        for a, b, c in (("X", "Y", "Z"), ("Y", "Z", "X"), ("Z", "X", "Y")):
            _cmp(ctx, g[a] @ g[b], 1j * g[c], 1e-14, "BasisHalfSpin|pauli-algebra|cyclic-product")
            _cmp(ctx, g[a] @ g[a], np.eye(2), 1e-14, "BasisHalfSpin|pauli-algebra|square-not-identity")
        _cmp(ctx, g["+"], (g["X"] + 1j * g["Y"]) / 2, 1e-14, "BasisHalfSpin|pauli-algebra|sigma_plus")
        _cmp(ctx, g["-"], (g["X"] - 1j * g["Y"]) / 2, 1e-14, "BasisHalfSpin|pauli-algebra|sigma_minus")
    # compound symbols = ordered products
    nwords = 40 if ctx.tier == "quick" else 120
    for _ in range(nwords):
        ln = int(rng.integers(2, 5))
        picks = [flat[int(rng.integers(0, len(flat)))] for _ in range(ln)]
        sym = " ".join(a for _, a in picks)
        c = float(rng.uniform(-2, 2)) if rng.random() < 0.3 else 1.0
        want = np.eye(2, dtype=complex)
        for k, _ in picks:
            want = want @ _PAULI[k]
        got = _call(basis.op_mat, Op(sym, dof, c))
        if _promised(ctx, got, "BasisHalfSpin|compound-symbol"):
            ctx.nontrivial(("BasisHalfSpin", [k for k, _ in picks]))
            ctx.count("oracle")
            ctx.evaluations += 1
            if not _same(got, c * want, 1e-13):
                rev = np.eye(2, dtype=complex)
                for k, _ in picks[::-1]:
                    rev = rev @ _PAULI[k]
                ctx.violate("BasisHalfSpin|compound-symbol|" + ("order-swapped" if _same(got, c * rev, 1e-13) else "not-the-ordered-product"),
                            symbol=sym)
    _history(ctx, "BasisHalfSpin", basis, first, ["W", "sigma_q X"], None)


def _case_electron(ctx, prm):
    from renormalizer.model import Op
    from renormalizer.model.basis import BasisSimpleElectron
    ctx.describe({"class": "BasisSimpleElectron"})
    ctx.cls("BasisSimpleElectron")
    basis = _call(BasisSimpleElectron, "e")
    if not _promised(ctx, basis, "BasisSimpleElectron|constructor"):
        return
    ad = np.array([[0., 0.], [1., 0.]])        # documented: 0 unoccupied, 1 occupied
    want = {r"a^\dagger": ad, "a": ad.T, r"a^\dagger a": ad @ ad.T, "I": np.eye(2)}
    first = {}
    for sym, w in want.items():
        got = _call(basis.op_mat, sym)
        if _promised(ctx, got, f"BasisSimpleElectron|symbol={sym}"):
            first[sym] = np.asarray(got)
            _cmp(ctx, got, w, 1e-14, f"BasisSimpleElectron|symbol={sym}|matrix-differs")
    if len(first) == 4:
        a, adg = first["a"], first[r"a^\dagger"]
        _cmp(ctx, a @ adg + adg @ a, np.eye(2), 1e-14, "BasisSimpleElectron|anticommutator-not-one")
        _cmp(ctx, first[r"a^\dagger a"], adg @ a, 1e-14, "BasisSimpleElectron|number-not-product")
        ctx.nontrivial(("BasisSimpleElectron", "algebra"))
    c = float(ctx.rng.uniform(-2, 2))
    got = _call(basis.op_mat, Op(r"a^\dagger a", "e", c))
    if _promised(ctx, got, "BasisSimpleElectron|op-with-factor"):
        _cmp(ctx, got, c * want[r"a^\dagger a"], 1e-14, "BasisSimpleElectron|factor-not-applied")
    _history(ctx, "BasisSimpleElectron", basis, first, [r"a a^\dagger", "x"], None)


def _case_multi(ctx, prm):
    from renormalizer.model import Op
    from renormalizer.model.basis import BasisMultiElectron, BasisMultiElectronVac
    rng = ctx.rng
    vac = bool(prm["vac"])
    n = int(prm.get("n") or rng.integers(1, 7))
    style = int(rng.integers(0, 3))
    dofs = [[f"e{i}" for i in range(n)], list(range(10, 10 + n)), [("mol", i) for i in range(n)]][style]
    cname = "BasisMultiElectronVac" if vac else "BasisMultiElectron"
    ctx.describe({"class": cname, "n": n, "dofs": dofs})
    ctx.cls(cname)
    if vac:
        basis = _call(BasisMultiElectronVac, dofs)
    else:
        basis = _call(BasisMultiElectron, dofs, [int(q) for q in rng.integers(0, 2, size=n)])
    if not _promised(ctx, basis, f"{cname}|constructor"):
        return
    off = 1 if vac else 0
    dim = n + off
    ctx.count("oracle")
    ctx.check(basis.nbas == dim, f"{cname}|dimension")

    def unit(r, c):
        m = np.zeros((dim, dim))
        m[r, c] = 1.0
        return m

    for sym, dd in (("I", [dofs[0]]), ("I I", [dofs[0], dofs[-1]])):
        got = _call(basis.op_mat, Op(sym, dd))
        if _promised(ctx, got, f"{cname}|symbol={sym}"):
            _cmp(ctx, got, np.eye(dim), 1e-14, f"{cname}|symbol={sym}|matrix-differs")
    singles = {}
    if vac:
        for i in range(n):
            for sym, w in ((r"a^\dagger", unit(i + 1, 0)), ("a", unit(0, i + 1))):
                got = _call(basis.op_mat, Op(sym, dofs[i]))
                if _promised(ctx, got, f"{cname}|symbol={sym}"):
                    singles[(sym, i)] = np.asarray(got)
                    _cmp(ctx, got, w, 1e-14, f"{cname}|symbol={sym}|one-not-at-documented-position")
    for i in range(n):
        for j in range(n):
            c = float(rng.uniform(-2, 2)) if rng.random() < 0.3 else 1.0
            got = _call(basis.op_mat, Op(r"a^\dagger a", [dofs[i], dofs[j]], c))
            if _promised(ctx, got, f"{cname}|symbol=a^\\dagger a"):
                if dim >= 3:
                    ctx.nontrivial((cname, n, i, j))
                _cmp(ctx, got, c * unit(i + off, j + off), 1e-14, f"{cname}|symbol=a^\\dagger a|one-not-at-documented-position")
                if vac and (r"a^\dagger", i) in singles and ("a", j) in singles:
                    _cmp(ctx, got, c * singles[(r"a^\dagger", i)] @ singles[("a", j)], 1e-14,
                         f"{cname}|symbol=a^\\dagger a|not-product-of-factors")
            got = _call(basis.op_mat, Op(r"a a^\dagger", [dofs[i], dofs[j]]))
            if vac and i != j and not isinstance(got, _Crash):
                # accepted symbol without documentation.  Whatever the statistics, on the space with at most one particle
                # a_i a^dagger_j (i != j) can only move the particle from i to j: a_i a^dagger_j = +/- a^dagger_j a_i there
                ctx.cls("multi-electron-vac:a-adagger-on-different-dofs")
                ctx.count("oracle")
                ctx.check(_same(np.abs(np.asarray(got)), unit(j + off, i + off), 1e-14),
                          f"{cname}|symbol=a a^\\dagger|different-dofs|does-not-move-the-particle-from-the-first-dof-to-the-second",
                          i=i, j=j)
            if not isinstance(got, _Crash):     # (same DoF, or the variant without vacuum: recorded, never judged)
                tag = "same-dof" if i == j else "different-dofs"
                ctx.count(f"observation:{cname} 'a a^dagger' {tag} -> " +
                          ("|j><i|" if _same(got, unit(j + off, i + off), 1e-14) else "other"))
    before = _call(basis.op_mat, Op(r"a^\dagger a", [dofs[0], dofs[-1]]))
    r = _call(basis.op_mat, Op("x", dofs[0]))
    if isinstance(r, _Crash) and not isinstance(before, _Crash):
        ctx.refuse(f"{cname}.op_mat: " + ("is not supported" if _is_refusal(r) else r.msg[:60]))
        ctx.cls("after-failed-call")
        got = _call(basis.op_mat, Op(r"a^\dagger a", [dofs[0], dofs[-1]]))
        ctx.count("history_checks")
        if _promised(ctx, got, f"{cname}|history"):
            _cmp(ctx, got, before, 1e-14, f"{cname}|history|matrix-changes-after-failed-call")


def _case_hops(ctx, prm):
    from renormalizer.model.basis import BasisHopsBoson
    N = int(prm.get("N") or ctx.rng.integers(1, 13))
    ctx.describe({"class": "BasisHopsBoson", "N": N})
    ctx.cls("BasisHopsBoson")
    basis = _call(BasisHopsBoson, "h", N)
    if not _promised(ctx, basis, "BasisHopsBoson|constructor"):
        return
    up, dn = np.zeros((N, N)), np.zeros((N, N))
    for nlev in range(N - 1):
        up[nlev + 1, nlev] = nlev + 1      # b~^dagger |n> = (n+1)|n+1>
        dn[nlev, nlev + 1] = 1.0           # b~ |n+1> = |n>
    want = {r"\tilde{b}^\dagger": up, r"\tilde{b}": dn, r"b^\dagger b": np.diag(np.arange(N)).astype(float), "I": np.eye(N)}
    first = {}
    for sym, w in want.items():
        got = _call(basis.op_mat, sym)
        if _promised(ctx, got, f"BasisHopsBoson|symbol={sym}"):
            first[sym] = np.asarray(got)
            _cmp(ctx, got, w, 1e-14, f"BasisHopsBoson|symbol={sym}|matrix-differs")
    if len(first) == 4:
        u, d = first[r"\tilde{b}^\dagger"], first[r"\tilde{b}"]
        _cmp(ctx, first[r"b^\dagger b"], u @ d, 1e-13, "BasisHopsBoson|number-not-product-of-ladders")
        if N >= 2:
            _cmp(ctx, (d @ u - u @ d)[:N - 1, :N - 1], np.eye(N - 1), 1e-13, "BasisHopsBoson|commutator-not-one")
        if N >= 3:
            ctx.nontrivial(("BasisHopsBoson", N))
    _history(ctx, "BasisHopsBoson", basis, first, ["b", "x^2"], None)


# ------------------------------------------------------------------------------------------------- units
def _unit_per_au():
    """How many <unit> make one atomic unit; derived from scipy.constants by a route different from the library's."""
    from scipy.constants import physical_constants as pc
    ev = pc["Hartree energy in eV"][0]
    cm = 1.0 / (pc["inverse meter-hartree relationship"][0] * 100.0)
    kel = 1.0 / pc["kelvin-hartree relationship"][0]
    fs = pc["atomic unit of time"][0] * 1e15
    return {"a.u.": 1.0, "au": 1.0, "eV": ev, "meV": ev * 1e3, "cm-1": cm, "cm^{-1}": cm, "K": kel, "fs": fs}


CODATA = {"eV": 27.211386246, "meV": 27211.386246, "cm-1": 219474.631363, "cm^{-1}": 219474.631363, "K": 315775.0248,
          "fs": 0.02418884326586,
          "a.u.": 1.0, "au": 1.0}
_UPA = None


def _au(value, unit):
    global _UPA
    if _UPA is None:
        _UPA = _unit_per_au()
    return value / _UPA[unit]


def _q(ctx, value, unit):
    from renormalizer.utils import Quantity
    return Quantity(value, unit)


def _kron_term(dims, mats):
    """Kronecker product over sites; mats = {site: matrix}, identity elsewhere."""
    res = np.ones((1, 1))
    for i, d in enumerate(dims):
        res = np.kron(res, mats.get(i, np.eye(d)))
    return res


def _sho_local(omega, N):
    M = N + 3
    b = np.diag(np.sqrt(np.arange(1, M)), k=1)
    bd = b.T
    y = math.sqrt(0.5 / omega) * (bd + b)
    p2 = -(omega / 2) * (bd - b) @ (bd - b)
    return {"x": y[:N, :N], "x2": (y @ y)[:N, :N], "p2": p2[:N, :N], "b": b[:N, :N], "bd": bd[:N, :N],
            "n": np.diag(np.arange(N)).astype(float)}


# ------------------------------------------------------------------------------------------- HolsteinModel
def _holstein_ref(mols, J, scheme, doc_formula=False, gsign=-1.0):
    """Displaced-oscillator Hamiltonian assembled from the raw parameters (atomic units).

    mols: list of dicts {e: elocalex, modes: [(w0, w1, d, N), ...]}.
    scheme < 4: sites [e0, ph00, ph01, .., e1, ..]; scheme 4: phonons of the first nmol//2 molecules, the
    multi-electron site [vac, e0, e1, ..], the remaining phonons.
    Returns H, dims, exciton-number vector of the computational basis.
    """
    nmol = len(mols)
    sites = []
    if scheme < 4:
        for i, m in enumerate(mols):
            sites.append(("e", i))
            sites.extend(("ph", i, l) for l in range(len(m["modes"])))
    else:
        for i, m in enumerate(mols):
            sites.extend(("ph", i, l) for l in range(len(m["modes"])))
        nleft = sum(len(m["modes"]) for m in mols[:nmol // 2])
        sites.insert(nleft, ("E",))
    dims = []
    for s in sites:
        dims.append(2 if s[0] == "e" else nmol + 1 if s[0] == "E" else mols[s[1]]["modes"][s[2]][3])
    pos = {s: k for k, s in enumerate(sites)}
    ad = np.array([[0., 0.], [1., 0.]])

    def hop(i, j):
        if scheme < 4:
            if i == j:
                return {pos[("e", i)]: ad @ ad.T}
            return {pos[("e", i)]: ad, pos[("e", j)]: ad.T}
        m = np.zeros((nmol + 1, nmol + 1))
        m[i + 1, j + 1] = 1.0
        return {pos[("E",)]: m}

    dim = int(np.prod(dims))
    H = np.zeros((dim, dim))
    for i, m in enumerate(mols):
        e0 = sum(0.5 * d ** 2 * w1 ** 2 for (w0, w1, d, N) in m["modes"])
        H += (m["e"] + e0) * _kron_term(dims, hop(i, i))
        for j in range(nmol):
            if i != j and J[i, j] != 0:
                H += J[i, j] * _kron_term(dims, hop(i, j))
        for l, (w0, w1, d, N) in enumerate(m["modes"]):
            loc = _sho_local(w0, N)
            k = pos[("ph", i, l)]
            ni = hop(i, i)
            if doc_formula:
                # sum w b^dagger b + g w a^dagger a (b^dagger + b)   (+ zero-point energy), g = gsign * d * sqrt(w/2)
                g = gsign * d * math.sqrt(w0 / 2)
                H += _kron_term(dims, {k: w0 * (loc["n"] + 0.5 * np.eye(N))})
                H += _kron_term(dims, {**ni, k: g * w0 * (loc["bd"] + loc["b"])})
            else:
                H += _kron_term(dims, {k: 0.5 * loc["p2"] + 0.5 * w0 ** 2 * loc["x2"]})
                H += _kron_term(dims, {**ni, k: 0.5 * (w1 ** 2 - w0 ** 2) * loc["x2"] - w1 ** 2 * d * loc["x"]})
    nex = np.zeros(1)
    for s, d in zip(sites, dims):
        v = np.array([0., 1.]) if s[0] == "e" else np.array([0.] + [1.] * nmol) if s[0] == "E" else np.zeros(d)
        nex = (nex[:, None] + v[None, :]).ravel()
    return H, dims, nex


def _jref(n, J, periodic):
    m = np.zeros((n, n))
    for i in range(n - 1):
        m[i, i + 1] = m[i + 1, i] = J
    if periodic and n >= 3:
        m[0, n - 1] = m[n - 1, 0] = J
    return m


def _case_holstein(ctx, prm):
    from renormalizer.model import HolsteinModel, Mol, Phonon
    from renormalizer.utils import Quantity
    rng = ctx.rng
    cap = 520 if ctx.tier == "quick" else 900
    if prm.get("random"):
        nmol, nmode = int(rng.integers(1, 4)), int(rng.integers(1, 3))
        same = bool(rng.random() < 0.5)
        jkind = ["array", "quantity", "quantity-periodic", "array-periodic"][int(rng.integers(0, 4))]
    else:
        nmol, nmode, same, jkind = prm["nmol"], prm["nmode"], prm["same"], prm["jkind"]
    periodic = jkind.endswith("periodic") and not (nmol == 1 and jkind.startswith("array"))
    # sizes so that 2^nmol * prod(N) <= cap
    homogeneous = nmol > 1 and bool(rng.random() < 0.3)
    ngroup, mult = (1, nmol) if homogeneous else (nmol, 1)
    Ns = [2] * (ngroup * nmode)
    while True:
        k = int(rng.integers(0, len(Ns)))
        trial = list(Ns)
        trial[k] += 1
        if (2 ** nmol) * int(np.prod(trial)) ** mult > cap or trial[k] > 6:
            break
        Ns = trial
    units = ["a.u.", "eV", "cm-1", "meV"]
    mols, mol_objs = [], []
    it = iter(Ns)
    for i in range(ngroup):
        eu = units[int(rng.integers(0, 4))]
        ev = float(rng.uniform(0, 0.1) * _unit_per_au()[eu])
        modes, phs = [], []
        for l in range(nmode):
            N = int(next(it))
            wu = ["a.u.", "cm-1", "eV"][int(rng.integers(0, 3))]
            w0v = float(rng.uniform(0.002, 0.02) * _unit_per_au()[wu])
            ratio = 1.0 if same else float(rng.uniform(0.5, 0.9) if rng.random() < 0.5 else rng.uniform(1.1, 1.8))
            w0 = _au(w0v, wu)
            dv = float(rng.uniform(-1.5, 1.5) / math.sqrt(w0))
            if same and rng.random() < 0.5:
                ph = Phonon.simple_phonon(Quantity(w0v, wu), Quantity(dv), N)
            else:
                ph = Phonon([Quantity(w0v, wu), Quantity(w0v * ratio, wu)], [Quantity(0), Quantity(dv)], N)
            phs.append(ph)
            modes.append((w0, _au(w0v * ratio, wu), dv, N))
        mols.append({"e": _au(ev, eu), "modes": modes})
        mol_objs.append(Mol(Quantity(ev, eu), phs))
    if homogeneous:
        mols, mol_objs = mols * nmol, mol_objs * nmol
    if homogeneous:
        ctx.cls("holstein-homogeneous")
    if jkind.startswith("quantity"):
        ju = units[int(rng.integers(0, 4))]
        jv = float(rng.uniform(-0.02, 0.02) * _unit_per_au()[ju])
        jarg = Quantity(jv, ju)
        J = _jref(nmol, _au(jv, ju), periodic)
        if periodic and nmol <= 2:
            ctx.cls("holstein-periodic-ring-of-1-or-2 (J as built by the library)")
    else:
        J = rng.uniform(-0.02, 0.02, size=(nmol, nmol))
        if rng.random() < 0.7:
            J = (J + J.T) / 2
        else:
            ctx.cls("holstein-nonsymmetric-J")
        if not periodic and nmol == 3 and rng.random() < 0.5:
            J[0, 2] = J[2, 0] = 0.0
        np.fill_diagonal(J, 0.0)
        jarg = J.copy()
    par = {"nmol": nmol, "nmode": nmode, "same_omega": same, "j": jkind, "N": [m[3] for mo in mols for m in mo["modes"]],
           "mols": [{"e": _fmt(mo["e"]), "modes": [[_fmt(v) for v in m] for m in mo["modes"]]} for mo in mols]}
    ctx.describe({"class": "HolsteinModel", **par})
    ctx.cls("HolsteinModel", f"holstein-{nmol}mol", f"holstein-{nmode}mode", "holstein-same-omega" if same else "holstein-omega0!=omega1",
            "holstein-J-" + jkind)
    spectra = {}
    for scheme in (1, 2, 3, 4):
        what = f"HolsteinModel|scheme={scheme if scheme == 4 else '1-3'}"
        model = _call(HolsteinModel, mol_objs, jarg if isinstance(jarg, Quantity) else jarg.copy(), scheme=scheme, periodic=periodic)
        if not _promised(ctx, model, what + "|constructor"):
            continue
        if jkind.startswith("quantity") and periodic and nmol <= 2:
            J = np.array(model.j_matrix, dtype=float)      # ring of one or two sites: formula ambiguous, take the library's
            ctx.check(np.allclose(J, J.T), "construct_j_matrix|not-symmetric")
        H = _call(dense.op_dense, model.basis, model.ham_terms)
        if not _promised(ctx, H, what + "|terms-not-representable"):
            continue
        ref, dims, nex = _holstein_ref(mols, J, scheme)
        ctx.cls(f"holstein-scheme{scheme}")
        if len(dims) >= 3 and nmol >= 2:
            ctx.nontrivial(("HolsteinModel", par, scheme))
        ctx.count("oracle")
        ctx.check([b.nbas for b in model.basis] == dims, what + "|site-layout-differs", got=[b.nbas for b in model.basis], want=dims)
        if not _cmp(ctx, H, ref, TOL, what + "|hamiltonian-differs-from-displaced-oscillator"):
            continue
        Hs = (ref + ref.T) / 2 if np.allclose(J, J.T) else None
        if Hs is not None:
            spectra[scheme] = [np.linalg.eigvalsh(np.asarray(H).real[np.ix_(nex == k, nex == k)]) for k in (0, 1)]
        if same and Hs is not None and scheme in (2, 4):
            doc, _, _ = _holstein_ref(mols, J, scheme, doc_formula=True, gsign=+1.0)
            _cmp(ctx, np.linalg.eigvalsh(np.asarray(H).real), np.linalg.eigvalsh(doc), 1e-9,
                 what + "|spectrum-differs-from-documentation-formula")
            ctx.count("doc_formula_spectra")
    for s in (1, 2, 3):
        if s in spectra and 4 in spectra:
            for k in (0, 1):
                ctx.count("scheme_spectra")
                _cmp(ctx, spectra[s][k], spectra[4][k], 1e-9, f"HolsteinModel|spectrum-differs-between-schemes|{k}-exciton-sector")
    # ---- documented accessors of the packaged model: switch_scheme, gs_zpe, j_constant ------------------------------
    s1, s2 = int(rng.integers(1, 5)), int(rng.integers(1, 5))
    base = _call(HolsteinModel, mol_objs, jarg if isinstance(jarg, Quantity) else jarg.copy(), scheme=s1, periodic=periodic)
    if _promised(ctx, base, "HolsteinModel|constructor"):
        Jb = np.array(base.j_matrix, dtype=float)
        sw = _call(base.switch_scheme, s2)
        if _promised(ctx, sw, "HolsteinModel.switch_scheme"):
            ctx.cls("holstein-switch-scheme")
            ctx.count("oracle")
            ctx.check(sw.scheme == s2, "HolsteinModel.switch_scheme|scheme-not-switched", got=sw.scheme, want=s2)
            Hsw = _call(dense.op_dense, sw.basis, sw.ham_terms)
            if _promised(ctx, Hsw, "HolsteinModel.switch_scheme|terms-not-representable"):
                ref2, dims2, _ = _holstein_ref(mols, Jb, s2)
                ctx.count("oracle")
                if ctx.check([b.nbas for b in sw.basis] == dims2, "HolsteinModel.switch_scheme|site-layout-differs"):
                    _cmp(ctx, Hsw, ref2, TOL, "HolsteinModel.switch_scheme|hamiltonian-differs-from-displaced-oscillator")
        zpe = _call(lambda: base.gs_zpe)
        if _promised(ctx, zpe, "HolsteinModel.gs_zpe"):
            _cmp(ctx, zpe, sum(0.5 * m[0] for mo in mols for m in mo["modes"]), 1e-12, "HolsteinModel.gs_zpe|not-half-the-sum-of-frequencies")
        # ---- the packaged operator constructors for this model class ---------------------------------------------
        from renormalizer.model import Op
        from renormalizer.mps import Mpo
        e_dofs = list(base.e_dofs)
        v_dofs = list(base.v_dofs)
        opera = r"a^\dagger a" if s1 == 4 else [r"a^\dagger a", r"a^\dagger", "a"][int(rng.integers(0, 3))]
        sub = None if rng.random() < 0.5 else [e_dofs[i] for i in sorted(rng.choice(len(e_dofs), size=int(rng.integers(1, len(e_dofs) + 1)), replace=False).tolist())]
        got = _call(lambda: Mpo.onsite(base, opera, dof_set=sub).todense())
        if _promised(ctx, got, "Mpo.onsite"):
            ctx.cls("Mpo.onsite")
            want = dense.op_dense(base.basis, [Op(opera, d) for d in (sub if sub is not None else e_dofs)])
            _cmp(ctx, got, want, 1e-12, "Mpo.onsite|not-the-sum-of-the-local-operators")
        if v_dofs:
            vd = v_dofs[int(rng.integers(0, len(v_dofs)))]
            vop = ["b", r"b^\dagger", r"b^\dagger b"][int(rng.integers(0, 3))]
            got = _call(lambda: Mpo.ph_onsite(base, vop, vd[0], vd[1]).todense())
            if _promised(ctx, got, "Mpo.ph_onsite"):
                ctx.cls("Mpo.ph_onsite")
                _cmp(ctx, got, dense.op_dense(base.basis, [Op(vop, vd)]), 1e-12, "Mpo.ph_onsite|not-the-local-operator")
            if s1 != 4:
                i1 = e_dofs[int(rng.integers(0, len(e_dofs)))]
                e_ops = {i1: r"a^\dagger a"}
                if len(e_dofs) >= 2:
                    i2 = [d for d in e_dofs if d != i1][int(rng.integers(0, len(e_dofs) - 1))]
                    e_ops = {i1: r"a^\dagger", i2: "a"}
                su = units[int(rng.integers(0, 4))]
                sv = float(rng.uniform(-2, 2))
                got = _call(lambda: Mpo.intersite(base, e_ops, {vd: vop}, Quantity(sv, su)).todense())
                if _promised(ctx, got, "Mpo.intersite"):
                    ctx.cls("Mpo.intersite")
                    prod = Op.product([Op(o, k) for k, o in e_ops.items()] + [Op(vop, vd)])
                    want = _au(sv, su) * dense.op_dense(base.basis, [prod])
                    _cmp(ctx, got, want, 1e-12, "Mpo.intersite|not-the-scaled-product-of-the-local-operators")
        vals = set(float(x) for x in Jb.ravel())        # (exactly equal entries: what 'a constant' means for a matrix the builder filled)
        jc = _call(lambda: base.j_constant)
        ctx.count("oracle")
        if len(vals) == 1 or (len(vals) == 2 and 0.0 in vals):
            # "Extract electronic coupling constant from j_matrix": all couplings equal (the diagonal is zero)
            want_j = max(vals, key=abs)
            ctx.cls("holstein-j-constant" if want_j != 0 else "holstein-j-constant-zero")
            if _promised(ctx, jc, "HolsteinModel.j_constant|constant-J"):
                _cmp(ctx, jc, want_j, 1e-12, "HolsteinModel.j_constant|wrong-value", floor=1e-12)
        else:
            ctx.cls("holstein-j-not-constant")
            ctx.check(isinstance(jc, _Crash) and isinstance(jc.exc, ValueError), "HolsteinModel.j_constant|non-constant-J-accepted",
                      got=repr(jc))


# ------------------------------------------------------------------------------------------ SpinBosonModel
def _case_sbm(ctx, prm):
    from renormalizer.model import SpinBosonModel, Phonon
    from renormalizer.utils import Quantity
    rng = ctx.rng
    cap = 400 if ctx.tier == "quick" else 900
    nmode = int(prm.get("nmode") or rng.integers(1, 5))
    Ns = [2] * nmode
    while True:
        k = int(rng.integers(0, nmode))
        if 2 * np.prod(Ns) // Ns[k] * (Ns[k] + 1) > cap or Ns[k] >= 8:
            break
        Ns[k] += 1
    units = ["a.u.", "eV", "cm-1", "meV"]
    eu, du = units[int(rng.integers(0, 4))], units[int(rng.integers(0, 4))]
    ev = float(rng.uniform(-1, 1) * _unit_per_au()[eu])
    dv = float(rng.uniform(-1, 1) * _unit_per_au()[du])
    modes, phs = [], []
    for N in Ns:
        wu = ["a.u.", "cm-1"][int(rng.integers(0, 2))]
        wv = float(rng.uniform(0.2, 3) * _unit_per_au()[wu])
        w = _au(wv, wu)
        d = float(rng.uniform(-1.5, 1.5) / math.sqrt(w))
        phs.append(Phonon.simple_phonon(Quantity(wv, wu), Quantity(d), int(N)))
        modes.append((w, d, int(N)))
    eps, delta = _au(ev, eu), _au(dv, du)
    par = {"eps": _fmt(eps), "delta": _fmt(delta), "modes": [[_fmt(v) for v in m] for m in modes]}
    ctx.describe({"class": "SpinBosonModel", **par})
    ctx.cls("SpinBosonModel", f"sbm-{nmode}modes")
    model = _call(SpinBosonModel, Quantity(ev, eu), Quantity(dv, du), phs)
    if not _promised(ctx, model, "SpinBosonModel|constructor"):
        return
    H = _call(dense.op_dense, model.basis, model.ham_terms)
    if not _promised(ctx, H, "SpinBosonModel|terms-not-representable"):
        return
    dims = [2] + [m[2] for m in modes]
    ctx.check([b.nbas for b in model.basis] == dims, "SpinBosonModel|site-layout-differs")
    ref = eps * _kron_term(dims, {0: _PZ.real}) + delta * _kron_term(dims, {0: _PX.real})
    for k, (w, d, N) in enumerate(modes):
        loc = _sho_local(w, N)
        ref = ref + _kron_term(dims, {k + 1: 0.5 * loc["p2"] + 0.5 * w ** 2 * loc["x2"]})
        ref = ref + _kron_term(dims, {0: _PZ.real, k + 1: (-w ** 2 * d) * loc["x"]})      # c_i = -w_i^2 d_i
    ctx.nontrivial(("SpinBosonModel", par))
    if _same(H, ref, TOL):
        ctx.count("oracle")
        ctx.count("sbm_operator_equal")
    else:
        ctx.count("observation:sbm operator differs from c_i=-w^2 d convention")
    _cmp(ctx, np.linalg.eigvalsh(np.asarray(H).real), np.linalg.eigvalsh(ref), 1e-10,
         "SpinBosonModel|spectrum-differs-from-documented-formula")


# ------------------------------------------------------------------------------------------------ TI1DModel
def _ti_cell(rng, kind, ncell):
    """Unit cell: list of (factory(dof) -> fresh basis, dof), local terms, nonlocal terms as (symbol, [(off, dof)..], factor)."""
    from renormalizer.model import basis as ba

    def offs(k):
        pool = [1, 1, 2, -1, ncell - 1, ncell, ncell + 1, 2 * ncell + 1, -ncell - 1, 3]
        return [int(pool[int(rng.integers(0, len(pool)))]) for _ in range(k)]

    f = lambda: float(rng.uniform(-1, 1))  # noqa: E731
    if kind == "spin":
        fac = [(lambda dof: ba.BasisHalfSpin(dof), "s")]
        local = [("sigma_z", ["s"], f()), ("sigma_x", ["s"], f())]
        r1, r2 = offs(2)
        nonlocal_ = [("sigma_z sigma_z", [(0, "s"), (r1, "s")], f()),
                     ("sigma_+ sigma_-", [(0, "s"), (r2, "s")], 0.5), ("sigma_- sigma_+", [(0, "s"), (r2, "s")], 0.5)]
        if rng.random() < 0.5:
            a, b = offs(2)
            nonlocal_.append(("sigma_x sigma_y sigma_x", [(1, "s"), (1 + a, "s"), (1 + a + b, "s")], f()))
    elif kind == "eph":
        w, N = float(rng.uniform(0.3, 2)), int(rng.integers(2, 4))
        x0 = 0.0 if rng.random() < 0.6 else f()
        dvr = bool(rng.random() < 0.3)
        fac = [(lambda dof: ba.BasisSimpleElectron(dof), "e"), (lambda dof: ba.BasisSHO(dof, w, N, x0=x0, dvr=dvr), "v")]
        local = [(r"a^\dagger a", ["e", "e"], f()), ("p^2", ["v"], 0.5), ("x^2", ["v"], 0.5 * w * w),
                 (r"a^\dagger a x", ["e", "e", "v"], f())]
        r1, r2 = offs(2)
        t = f()
        nonlocal_ = [(r"a^\dagger a", [(0, "e"), (r1, "e")], t), (r"a^\dagger a", [(r1, "e"), (0, "e")], t),
                     ("x x", [(0, "v"), (r2, "v")], f())]
        if rng.random() < 0.5:
            nonlocal_.append((r"a^\dagger a x", [(0, "e"), (0, "e"), (offs(1)[0], "v")], f()))
    elif kind == "multi":
        fac = [(lambda dofs: ba.BasisMultiElectronVac(dofs), ["a", "b"]), (lambda dof: ba.BasisHopsBoson(dof, 2), "h")]
        local = [(r"a^\dagger a", ["a", "a"], f()), (r"a^\dagger a", ["a", "b"], f()), (r"a^\dagger a", ["b", "a"], f()),
                 (r"b^\dagger b", ["h", "h"], f())]
        r1 = offs(1)[0]
        t = f()
        nonlocal_ = [(r"a^\dagger a", [(0, "a"), (r1, "b")], t), (r"a^\dagger a", [(r1, "b"), (0, "a")], t),
                     (r"\tilde{b}^\dagger \tilde{b}", [(0, "h"), (offs(1)[0], "h")], f())]
    else:  # sine
        N = int(rng.integers(2, 5))
        xi = float(rng.uniform(-2, 0))
        xf = xi + float(rng.uniform(1, 4))
        endpoint, dvr = bool(rng.random() < 0.5), bool(rng.random() < 0.5)
        fac = [(lambda dof: ba.BasisSineDVR(dof, N, xi, xf, endpoint=endpoint, dvr=dvr), "r")]
        local = [("p^2", ["r"], 0.5), ("x^2", ["r"], f())]
        nonlocal_ = [("x x", [(0, "r"), (offs(1)[0], "r")], f()), ("dx x^2", [(0, "r"), (offs(1)[0], "r")], f())]
    return fac, local, nonlocal_


def _case_ti(ctx, prm):
    from renormalizer.model import Op, TI1DModel
    rng = ctx.rng
    kind = prm.get("kind") or ["spin", "eph", "multi", "sine"][int(rng.integers(0, 4))]
    maxcell = {"spin": 7, "eph": 3, "multi": 3, "sine": 4}[kind]
    ncell = int(prm.get("ncell") or rng.integers(1, maxcell + 1))
    ncell = min(ncell, maxcell)
    fac, local, nonlocal_ = _ti_cell(rng, kind, ncell)
    ctx.describe({"class": "TI1DModel", "cell": kind, "ncell": ncell, "local": local, "nonlocal": nonlocal_})
    ctx.cls("TI1DModel", f"ti-{kind}", "ti-1cell" if ncell == 1 else "ti-multi-cell")
    if any(abs(o) >= ncell for _, dd, _ in nonlocal_ for o, _ in dd):
        ctx.cls("ti-wrap-around")
    cell_basis = [f(d) for f, d in fac]
    lterms = [Op(s, d, c) for s, d, c in local]
    nterms = [Op(s, d, c) for s, d, c in nonlocal_]
    model = _call(TI1DModel, cell_basis, lterms, nterms, ncell)
    if not _promised(ctx, model, "TI1DModel|constructor"):
        return
    # the harness's own repetition of the cell: fresh basis objects, explicit modular loop
    ref_basis, ref_terms = [], []
    for i in range(ncell):
        for f, d in fac:
            ref_basis.append(f([(f"cell{i}", x) for x in d]) if isinstance(d, list) else f((f"cell{i}", d)))
        for s, d, c in local:
            ref_terms.append(Op(s, [(f"cell{i}", x) for x in d], c))
        for s, d, c in nonlocal_:
            ref_terms.append(Op(s, [(f"cell{(i + o) % ncell}", x) for o, x in d], c))
    ctx.count("oracle")
    ok = ctx.check(len(model.basis) == len(ref_basis) and all(tuple(a.dofs) == tuple(b.dofs) and a.nbas == b.nbas
                                                                for a, b in zip(model.basis, ref_basis)),
                   "TI1DModel|basis-layout-differs", got=[str(b.dofs) for b in model.basis][:8])
    if not ok:
        return
    # the copies must be the same basis sets as the unit cell's
    copy_ok = True
    probes = {"spin": ["sigma_x", "sigma_z"], "eph": ["x", "p^2", "x^2", r"a^\dagger a"], "multi": [r"\tilde{b}", r"b^\dagger b"],
              "sine": ["x", "dx", "x^2", "p^2"]}[kind]
    for a, b in zip(model.basis, ref_basis):
        if a.multi_dof:
            continue
        for sym in probes:
            ma, mb = _call(a.op_mat, sym), _call(b.op_mat, sym)
            if isinstance(mb, _Crash):
                continue
            ctx.count("oracle")
            if isinstance(ma, _Crash) or not _same(ma, mb, 1e-12):
                copy_ok = False
                ctx.violate(f"TI1DModel|repeated-basis-differs-from-unit-cell-basis|{type(b).__name__}", symbol=sym)
                break
    use_basis = ref_basis if copy_ok else model.basis
    H = _call(dense.op_dense, model.basis, model.ham_terms)
    if isinstance(H, _Crash) and _is_refusal(H):
        ctx.refuse("TI terms collide on one site into a product the basis does not support")
        return
    if not _promised(ctx, H, "TI1DModel|terms-not-representable"):
        return
    ref = _call(dense.op_dense, use_basis, ref_terms)
    if isinstance(ref, _Crash):
        ctx.refuse("TI reference terms not representable: " + ref.msg[:60])
        return
    if ncell >= 2:
        ctx.nontrivial(("TI1DModel", kind, ncell, nonlocal_))
    _cmp(ctx, H, ref, TOL, "TI1DModel|hamiltonian-differs-from-modular-loop")
    ctx.count("oracle")
    ctx.check(len(model.ham_terms) <= ncell * (len(local) + len(nonlocal_)), "TI1DModel|too-many-terms")
    if ncell >= 2:
        dims = [b.nbas for b in model.basis]
        nb = len(fac)
        perm = list(range(nb, nb * ncell)) + list(range(nb))
        ctx.count("translation_checks")
        _cmp(ctx, dense.permute_sites_op(np.asarray(H), dims, perm), H, TOL, "TI1DModel|not-translation-invariant")


# ---------------------------------------------------------------------------------- construct_j_matrix / Quantity
def _case_jmatrix(ctx, prm):
    from renormalizer.model.model import construct_j_matrix
    from renormalizer.utils import Quantity
    rng = ctx.rng
    ctx.describe({"class": "construct_j_matrix"})
    ctx.cls("construct_j_matrix")
    for n in range(1, 9):
        for periodic in (False, True):
            unit = ["a.u.", "eV", "meV", "cm-1"][int(rng.integers(0, 4))]
            v = float(rng.uniform(-500, 500))
            got = _call(construct_j_matrix, n, Quantity(v, unit), periodic)
            if not _promised(ctx, got, "construct_j_matrix"):
                continue
            if periodic and n <= 2:
                # a ring of one or two sites: the documented formula is ambiguous; only symmetry is required
                ctx.count("oracle")
                ctx.check(np.allclose(got, np.asarray(got).T), "construct_j_matrix|not-symmetric")
                continue
            if n >= 3:
                ctx.nontrivial(("construct_j_matrix", n, periodic))
            _cmp(ctx, got, _jref(n, _au(v, unit), periodic), 1e-12, "construct_j_matrix|differs-from-nearest-neighbour-formula",
                 n=n, periodic=periodic)


def _case_quantity(ctx, prm):
    from renormalizer.utils import Quantity
    rng = ctx.rng
    ctx.describe({"class": "Quantity"})
    ctx.cls("Quantity")
    upa = _unit_per_au()
    units = list(upa)
    for u in units:
        ctx.count("oracle")
        ctx.check(abs(upa[u] / CODATA[u] - 1) < 1e-7, "harness-constants-disagree-with-CODATA", unit=u)
    for _ in range(40):
        u, u2 = units[int(rng.integers(0, len(units)))], units[int(rng.integers(0, len(units)))]
        v = float(rng.uniform(-1, 1) * 10 ** rng.uniform(-3, 4))
        if u == "K":
            v = abs(v) + 0.5
        q = _call(Quantity, v, u)
        if not _promised(ctx, q, "Quantity|constructor"):
            continue
        au = _call(q.as_au)
        if not _promised(ctx, au, "Quantity|as_au"):
            continue
        ctx.nontrivial(("Quantity", u, u2))
        _cmp(ctx, au, v / upa[u], 1e-11, f"Quantity|as_au|unit={u}|wrong-conversion")
        _cmp(ctx, au, v / CODATA[u], 1e-6, f"Quantity|as_au|unit={u}|wrong-conversion-vs-CODATA")
        for variant in (u, u.lower()):
            r = _call(lambda: Quantity(v, variant).as_au())
            if _promised(ctx, r, "Quantity|lower-case-unit"):
                _cmp(ctx, r, au, 1e-15, "Quantity|lower-case-unit-differs")
        q2 = _call(q.as_unit, u2)
        if _promised(ctx, q2, "Quantity|as_unit"):
            _cmp(ctx, q2.value, v / upa[u] * upa[u2], 1e-11, "Quantity|as_unit|wrong-value")
            ctx.count("oracle")
            ctx.check(q2.unit == u2, "Quantity|as_unit|wrong-unit")
            _cmp(ctx, q2.as_au(), au, 1e-13, "Quantity|round-trip-changes-value")
            _cmp(ctx, q2.as_unit(u).value, v, 1e-13, "Quantity|round-trip-changes-value")
        if v > 0:
            beta = _call(q.to_beta)
            if _promised(ctx, beta, "Quantity|to_beta"):
                _cmp(ctx, beta, upa[u] / v, 1e-11, "Quantity|to_beta|not-inverse-of-energy")
        # arithmetic stays in atomic units
        _cmp(ctx, (q + Quantity(1.0, u2)).as_au(), au + 1.0 / upa[u2], 1e-11, "Quantity|addition")
        _cmp(ctx, (q * 3).as_au(), 3 * au, 1e-13, "Quantity|scalar-multiplication")
        _cmp(ctx, (-q).as_au(), -au, 1e-15, "Quantity|negation")
        _cmp(ctx, (q - Quantity(1.0, u2)).as_au(), au - 1.0 / upa[u2], 1e-11, "Quantity|subtraction", floor=1e-12)
        _cmp(ctx, (3 * q).as_au(), 3 * au, 1e-13, "Quantity|scalar-multiplication-from-the-left")
        _cmp(ctx, (q / 4).as_au(), au / 4, 1e-13, "Quantity|scalar-division")
        ctx.count("oracle", 3)
        same_q = _call(lambda: q == Quantity(v, u.lower()))
        ctx.check(same_q is True, "Quantity|equality|equal-quantities-compare-unequal", got=repr(same_q))
        other_q = _call(lambda: q != Quantity(v * 1.5 + 1.0, u))
        ctx.check(other_q is True, "Quantity|equality|different-quantities-compare-equal", got=repr(other_q))
        zero_q = _call(lambda: (Quantity(0.0, u) == 0, q == 0))
        ctx.check(zero_q == (True, v == 0), "Quantity|equality|comparison-with-zero", got=repr(zero_q))
    ctx.count("oracle", 2)
    ctx.check(Quantity(0, "K").to_beta() == math.inf, "Quantity|to_beta|zero-temperature-not-inf")
    t = 300.0
    _cmp(ctx, Quantity(t, "K").to_beta(), 1.0 / (t * 3.166811563e-6), 1e-7, "Quantity|to_beta|room-temperature")
    r = _call(Quantity, 1.0, "parsec")
    ctx.check(isinstance(r, _Crash) and isinstance(r.exc, ValueError), "Quantity|unknown-unit-accepted")


# ------------------------------------------------------------------------------------------------ Phonon / Mol
def _case_phonon(ctx, prm):
    """Derived quantities of the vibration / molecule parameter objects against their closed forms: reorganisation energy
    lambda = (d1-d0)^2 w1^2 / 2, coupling constant g = sqrt(lambda / w0), zero-point energies, the displaced-oscillator
    eigenvectors, the automatic choice of the number of levels and the splitting of a mode."""
    from renormalizer.model import Mol, Phonon
    from renormalizer.utils import Quantity
    rng = ctx.rng
    upa = _unit_per_au()
    ctx.describe({"class": "Phonon/Mol"})
    ctx.cls("Phonon")
    phs, lams, w0s, w1s = [], [], [], []
    for _ in range(int(rng.integers(1, 4))):
        wu = ["a.u.", "cm-1", "eV", "meV"][int(rng.integers(0, 4))]
        w0 = float(10 ** rng.uniform(-3, 0.3))
        w1 = w0 if rng.random() < 0.5 else float(w0 * rng.uniform(0.5, 1.8))
        d0 = 0.0 if rng.random() < 0.7 else float(rng.uniform(-1, 1))
        d1 = float(rng.uniform(-2, 2) / math.sqrt(w0))
        N = int(rng.integers(2, 40))
        ph = _call(Phonon, [Quantity(w0 * upa[wu], wu), Quantity(w1 * upa[wu], wu)], [Quantity(d0), Quantity(d1)], N)
        if not _promised(ctx, ph, "Phonon|constructor"):
            return
        lam = 0.5 * (d1 - d0) ** 2 * w1 ** 2
        g = math.sqrt(lam / w0)
        ctx.nontrivial(("Phonon", wu, round(w0, 6), round(w1 / w0, 4), round(d1, 4), N))
        _cmp(ctx, ph.omega, [w0, w1], 1e-12, "Phonon|omega-not-in-atomic-units")
        _cmp(ctx, ph.reorganization_energy.as_au(), lam, 1e-12, "Phonon.reorganization_energy|closed-form", floor=1e-300)
        _cmp(ctx, ph.e0.as_au(), lam, 1e-12, "Phonon.e0|closed-form", floor=1e-300)
        _cmp(ctx, ph.coupling_constant, g, 1e-12, "Phonon.coupling_constant|closed-form", floor=1e-300)
        ctx.count("oracle", 2)
        ctx.check(ph.nlevels == N and ph.pbond == N, "Phonon|number-of-levels", got=(ph.nlevels, ph.pbond), want=N)
        ctx.check(bool(ph.is_simple) == (w0 == w1), "Phonon.is_simple")
        # eigenvectors of n - g (b + b^dagger) in N levels
        ev = _call(ph.get_displacement_evecs)
        if _promised(ctx, ev, "Phonon.get_displacement_evecs"):
            h = np.diag(np.arange(N, dtype=float))
            for i in range(N - 1):
                h[i + 1, i] = h[i, i + 1] = -g * math.sqrt(i + 1)
            w = np.linalg.eigvalsh(h)
            ev = np.asarray(ev)
            _cmp(ctx, ev.T @ ev, np.eye(N), 1e-10, "Phonon.get_displacement_evecs|not-orthonormal")
            _cmp(ctx, ev.T @ h @ ev, np.diag(w), 1e-9, "Phonon.get_displacement_evecs|not-the-ascending-eigenvectors-of-the-displaced-oscillator",
                 floor=max(1.0, float(np.abs(w).max())))
        phs.append(ph)
        lams.append(lam)
        w0s.append(w0)
        w1s.append(w1)
    eu = ["a.u.", "eV", "cm-1", "meV"][int(rng.integers(0, 4))]
    e = float(rng.uniform(0, 0.2))
    mol = _call(Mol, Quantity(e * upa[eu], eu), phs)
    if _promised(ctx, mol, "Mol|constructor"):
        ctx.cls("Mol")
        _cmp(ctx, mol.elocalex, e, 1e-12, "Mol.elocalex|not-in-atomic-units", floor=1e-300)
        _cmp(ctx, mol.reorganization_energy, sum(lams), 1e-12, "Mol.reorganization_energy|not-the-sum-over-modes", floor=1e-300)
        _cmp(ctx, mol.e0, sum(lams), 1e-12, "Mol.e0|not-the-sum-over-modes", floor=1e-300)
        _cmp(ctx, mol.gs_zpe, 0.5 * sum(w0s), 1e-12, "Mol.gs_zpe|not-half-the-sum-of-ground-frequencies")
        _cmp(ctx, mol.ex_zpe, 0.5 * sum(w1s), 1e-12, "Mol.ex_zpe|not-half-the-sum-of-excited-frequencies")
    none = _call(Mol, Quantity(0.1), [])
    ctx.count("oracle")
    ctx.check(isinstance(none, _Crash) and isinstance(none.exc, ValueError), "Mol|empty-mode-list-accepted")
    # ---- simple_phonon / simplest_phonon -----------------------------------------------------------------------
    w = float(10 ** rng.uniform(-3, 0))
    gt = float(rng.uniform(0.05, 3.0))             # target coupling constant
    lam_t = gt ** 2 * w
    d = math.sqrt(2 * lam_t) / w
    sp = _call(Phonon.simple_phonon, Quantity(w), Quantity(d), 7)
    if _promised(ctx, sp, "Phonon.simple_phonon"):
        ctx.count("oracle")
        ctx.check(list(sp.omega) == [w, w] and list(sp.dis) == [0.0, d] and sp.n_phys_dim == 7, "Phonon.simple_phonon|parameters",
                  omega=sp.omega, dis=sp.dis)
    use_lam = bool(rng.random() < 0.5)
    ctx.cls("simplest_phonon:lam" if use_lam else "simplest_phonon:displacement")
    auto = _call(Phonon.simplest_phonon, Quantity(w), Quantity(lam_t) if use_lam else Quantity(d), lam=use_lam)
    if _promised(ctx, auto, "Phonon.simplest_phonon"):
        _cmp(ctx, auto.reorganization_energy.as_au(), lam_t, 1e-10, "Phonon.simplest_phonon|reorganisation-energy-not-the-requested-one")
        _cmp(ctx, auto.omega, [w, w], 1e-12, "Phonon.simplest_phonon|frequency")
        n_auto = int(auto.n_phys_dim)
        ctx.count("oracle", 2)
        ctx.check(2 <= n_auto <= 128, "Phonon.simplest_phonon|levels-outside-the-documented-cap", got=n_auto)
        # "detect pdim automatically": the displaced ground state must fit - its exact occupation of level n is Poissonian
        # with mean g^2, so the weight beyond the chosen levels has to be small
        tail = 1.0 - sum(math.exp(-gt ** 2 + k * math.log(gt ** 2) - math.lgamma(k + 1)) for k in range(n_auto))
        ctx.metric_max("simplest_phonon_tail_weight", max(tail, 0.0))
        ctx.check(tail <= 1e-4, "Phonon.simplest_phonon|chosen-levels-do-not-hold-the-displaced-ground-state", levels=n_auto, g=gt,
                  weight_beyond=tail)
    # ---- split ---------------------------------------------------------------------------------------------------
    if sp is not None and not isinstance(sp, _Crash):
        n = int(rng.integers(2, 6))
        parts = _call(sp.split, n, Quantity(float(rng.uniform(0.01, 0.2)) * w))
        if _promised(ctx, parts, "Phonon.split"):
            ctx.cls("Phonon.split")
            ctx.count("oracle")
            ctx.check(len(parts) == n, "Phonon.split|wrong-number-of-modes", got=len(parts), want=n)
            _cmp(ctx, sum(p.reorganization_energy.as_au() for p in parts), lam_t, 1e-9,
                 "Phonon.split|reorganisation-energy-not-conserved")


# --------------------------------------------------------------------------------------------------- plan
_KINDS = {"phonon": _case_phonon, "sho": _case_sho, "sine": _case_sine, "spin": _case_spin, "electron": _case_electron, "multi": _case_multi,
          "hops": _case_hops, "holstein": _case_holstein, "sbm": _case_sbm, "ti": _case_ti, "jmatrix": _case_jmatrix,
          "quantity": _case_quantity}
_LAYOUT = {}


def _layout(tier):
    if tier in _LAYOUT:
        return _LAYOUT[tier]
    quick = tier == "quick"
    L = []
    sizes = [1, 2, 3, 5, 8, 12] if quick else list(range(1, 13))
    omegas = [0.5, 0.0066] if quick else [0.5, 0.0066, 1.0, 3.7]
    x0s = [0.0, 1.3] if quick else [0.0, 1.3, -7.0]
    for N in sizes:
        for w in omegas:
            for x0 in x0s:
                for dvr in (False, True):
                    for gxp in (False, True):
                        L.append(("sho", {"N": N, "omega": w, "x0": x0, "dvr": dvr, "gxp": gxp}))
    L += [("sho", {"random": True})] * (40 if quick else 4000)
    for N in ([1, 2, 3, 4, 7, 12] if quick else list(range(1, 13))):
        for endpoint in (False, True):
            for dvr in (False, True):
                L += [("sine", {"N": N, "endpoint": endpoint, "dvr": dvr})] * (1 if quick else 3)
    L += [("sine", {"random": True})] * (24 if quick else 2500)
    for N in ([2, 4] if quick else [1, 2, 3, 4, 5]):
        L += [("sine", {"N": N, "endpoint": e, "dvr": False, "quadrature": True}) for e in ((False,) if quick else (False, True))]
    L += [("spin", {})] * (6 if quick else 200)
    L += [("electron", {})] * (2 if quick else 6)
    for vac in (False, True):
        L += [("multi", {"vac": vac, "n": n}) for n in range(1, 7)]
        L += [("multi", {"vac": vac})] * (2 if quick else 30)
    L += [("hops", {"N": N}) for N in ([1, 2, 3, 7, 12] if quick else range(1, 13))]
    for rep in range(1 if quick else 5):
        for nmol in (1, 2, 3):
            for nmode in (1, 2):
                for same in (True, False):
                    for jkind in ("array", "quantity", "quantity-periodic", "array-periodic"):
                        L.append(("holstein", {"nmol": nmol, "nmode": nmode, "same": same, "jkind": jkind}))
    L += [("holstein", {"random": True})] * (0 if quick else 700)
    L += [("sbm", {"nmode": n}) for n in (1, 2, 3, 4)] * (3 if quick else 110)
    for kind, mc in (("spin", 7), ("eph", 3), ("multi", 3), ("sine", 4)):
        for ncell in range(1, mc + 1):
            L += [("ti", {"kind": kind, "ncell": ncell})] * (3 if quick else 90)
    L += [("jmatrix", {})] * (3 if quick else 20)
    L += [("quantity", {})] * (3 if quick else 20)
    L += [("phonon", {})] * (30 if quick else 1500)
    _LAYOUT[tier] = L
    return L


def plan(tier):
    quick = tier == "quick"
    return {"ncases": len(_layout(tier)), "min_nontrivial": 3000 if quick else 120000, "case_time_limit": 120,
            "required_classes": ["BasisSHO", "sho-dvr", "sho-shifted", "sho-general-power", "size-1", "BasisSineDVR", "sine-dvr",
                                 "sine-endpoint", "sine-quadrature", "BasisHalfSpin", "BasisSimpleElectron",
                                 "BasisMultiElectron", "BasisMultiElectronVac", "BasisHopsBoson", "after-failed-call",
                                 "HolsteinModel", "holstein-3mol", "holstein-2mode", "holstein-omega0!=omega1",
                                 "holstein-scheme4", "holstein-J-quantity-periodic", "SpinBosonModel", "TI1DModel",
                                 "ti-wrap-around", "construct_j_matrix", "Quantity", "Phonon", "Mol", "Phonon.split",
                                 "simplest_phonon:lam", "simplest_phonon:displacement", "holstein-switch-scheme",
                                 "holstein-j-constant", "holstein-j-not-constant", "Mpo.onsite", "Mpo.ph_onsite", "Mpo.intersite"],
            "required_counters": {"oracle": 10000 if quick else 500000, "history_checks": 3000 if quick else 150000,
                                  "scheme_spectra": 100 if quick else 3000, "doc_formula_spectra": 20 if quick else 500,
                                  "translation_checks": 20 if quick else 1000}}


def run_case(ctx):
    kind, prm = _layout(ctx.tier)[ctx.idx]
    _KINDS[kind](ctx, dict(prm))
