"""Tree cases of C08: optimize_ttns is variational, stays in its sector and reports the energy of the state it returns."""
import numpy as np

from rv import dense, env, gen, states, tree_evolve, tree_states, trees

TRACE = {"installed": False, "micro": []}


def install():
    """Record, per two-site micro-iteration, the Ritz value the solver returned and the dimension of its local problem."""
    if TRACE["installed"]:
        return
    import renormalizer.tn.gs as G
    orig = G.optimize_2site

    def optimize_2site(snode, ttns, ttno, ttne):
        from rv.props import c08
        c08.TRACE["last_conv"] = None
        e, c = orig(snode, ttns, ttno, ttne)
        conv = c08.TRACE["last_conv"]       # davidson1's own convergence flags (None for the other solvers)
        try:
            hdim = int(ttns.get_qnmask(snode, include_parent=True).sum())
        except Exception:  # noqa: BLE001
            hdim = -1
        TRACE["micro"].append((float(np.real(e)), hdim, None if conv is None else bool(np.all(conv))))
        return e, c

    G.optimize_2site = optimize_2site
    TRACE["installed"] = True


def run_tree_case(ctx):
    from renormalizer.tn.gs import optimize_ttns
    rng = ctx.rng
    from rv.props import c08
    c08.setup(ctx.tier)         # keeps the convergence flags of davidson1
    install()
    ctx.cls("tree")
    qm = str(rng.choice(["one", "two", "none"], p=[0.5, 0.25, 0.25]))
    em = tree_evolve.hermitian_tree_model(ctx, max_dim=300, nsite=(2, 6), qn_mode=qm)
    gm = em.gm
    ctx.cls("tree-qn:" + gm.desc["qn_mode"])
    kind = trees.ALL_KINDS[int(rng.integers(0, len(trees.ALL_KINDS)))]
    tree, desc, kind = tree_evolve.build_tree(ctx, em, kind)
    tm = tree_evolve.place(ctx, em, tree, desc, kind)
    tree_evolve.classify_tree(ctx, tm)
    qntot = None
    for _ in range(10):
        q = states.pick_sector(rng, gm)
        if states.sector_dim(gm, q) >= 2:
            qntot = np.asarray(q)
            break
    if qntot is None:
        ctx.refuse("no sector with two states")
        return
    mask = dense.sector_mask(tm.phys, qntot)
    ds = int(mask.sum())
    Hs = tm.H[np.ix_(mask, mask)]
    if np.linalg.norm(tm.H[np.ix_(~mask, mask)]) > 1e-12:
        ctx.refuse("generated Hamiltonian does not conserve the sector")
        return
    ev = np.linalg.eigvalsh(Hs)
    specr = float(max(abs(ev[0]), abs(ev[-1]), 1e-300))
    slack = lambda x: 1e-9 * max(1.0, abs(float(x))) + 1e-11 * specr
    # ---- start state and configuration ---------------------------------------------------------------------------
    m0 = int(rng.integers(1, 6))
    start = ctx.lib(tree_states.random_ttns, ctx, tree, qntot, m0, gm, what="tree-state-constructor", promised=False,
                    complex_prob=0.0)
    start.canonicalise()
    nrm = float(np.linalg.norm(tree_states.dense_of_ttns(start, tm.phys)))
    if nrm < 1e-8:
        ctx.refuse("start state vanishes")
        return
    start.scale(1.0 / nrm, inplace=True)
    algo = str(rng.choice(["davidson", "direct", "arpack"], p=[0.6, 0.3, 0.1]))
    start.optimize_config.algo = algo
    ctx.cls("tree-solver:" + algo)
    full = bool(rng.random() < 0.5)
    big = int(tm.dim)
    nsw = int(rng.integers(2, 5))
    if full:
        proc = [[int(rng.integers(1, 5)), float(rng.choice([0.0, 0.3, 0.5]))] for _ in range(nsw - 1)] + [[big, 0.0]] * 2
        ctx.cls("tree-schedule:ends-lossless")
    else:
        proc = [[int(rng.integers(1, 6)), float(rng.choice([0.0, 0.2, 0.5]))] for _ in range(nsw)]
        ctx.cls("tree-schedule:truncating")
    ctx.describe({"kind": "tree", "tree": tm.desc, "model": gm.describe(), "terms": gen.terms_describe(em.terms, 6),
                  "sector": qntot.tolist(), "sector_dim": ds, "algo": algo, "procedure": proc, "E0": float(ev[0])})
    TRACE["micro"].clear()
    env.reseed_global(rng)
    refusals = ("k >= N", "k must be", "ARPACK", "must be less than") if algo == "arpack" else ()
    energies = ctx.lib(optimize_ttns, start, tm.ttno, proc, what=f"optimize_ttns|{algo}", refusals=refusals)
    micro = list(TRACE["micro"])
    ctx.count("optimize_runs")
    ctx.count("tree_optimize_runs")
    # ---- every reported energy is a Ritz value of H restricted to the sector ----------------------------------------
    for e, hdim, conv in micro:
        ctx.count("oracle")
        ctx.count("tree_micro_energies")
        if not ctx.check(e >= ev[0] - slack(e), f"tree|optimize_ttns|{algo}|energy-below-exact-ground-state", energy=e,
                         exact=float(ev[0]), local_dim=hdim, procedure=proc):
            return
        if hdim == ds:
            # the local problem IS the sector: the solver diagonalises H itself
            if algo == "davidson" and not conv:
                ctx.cls("tree-complete-iterative:davidson-not-converged")
                continue
            ctx.count("equality_checked")
            ctx.cls("tree-equality-checked")
            if algo == "direct":
                ok = abs(e - ev[0]) <= 1e-8 * max(1.0, abs(ev[0])) + 1e-10 * specr
            else:
                ok = float(np.min(np.abs(ev - e))) <= 2e-6 * max(1.0, abs(e))
            if not ctx.check(ok, f"tree|optimize_ttns|{algo}|complete-local-problem-does-not-return-an-eigenvalue", energy=e,
                             exact=ev[:4].tolist(), local_dim=hdim):
                return
    if not ctx.check(len(energies) == len(proc), "tree|optimize_ttns|one-energy-per-sweep", n=len(energies), sweeps=len(proc)):
        return
    # ---- the returned state --------------------------------------------------------------------------------------
    got_q = np.asarray(start.qntot).reshape(-1)
    ctx.check(np.array_equal(got_q, qntot.reshape(-1)), "tree|optimize_ttns|qntot-changed", got=got_q, want=qntot)
    vec = tree_states.dense_of_ttns(start, tm.phys)
    n2 = float(np.linalg.norm(vec))
    leak = float(np.linalg.norm(vec[~mask]))
    ctx.check(leak <= 1e-10 * max(n2, 1e-300), "tree|optimize_ttns|amplitude-outside-sector", leak=leak)
    probs = tree_states.tree_label_problems(start)
    ctx.check(not probs, "tree|optimize_ttns|labels-do-not-describe-nonzero-blocks", problems=probs[:3])
    if full:
        # the last two sweeps keep everything: the state is the normalised eigenvector of the last local problem
        ctx.count("state_consistency_checked")
        ctx.cls("tree-state-consistency-checked")
        ctx.check(abs(n2 - 1.0) <= 1e-8, "tree|optimize_ttns|returned-state-not-normalised", norm=n2, procedure=proc)
        if n2 > 1e-8:
            eh = float(np.real(np.vdot(vec, tm.H @ vec)) / n2 ** 2)
            ctx.close(eh, float(energies[-1]), 1e-7, "tree|optimize_ttns|reported-energy-is-not-the-energy-of-the-returned-state",
                      scale=max(1.0, specr))
            lib_e = ctx.lib(start.expectation, tm.ttno, what="TTNS.expectation")
            ctx.close(float(np.real(lib_e)), eh * n2 ** 2, 1e-8, "tree|expectation-of-optimised-state", scale=max(1.0, specr))
    else:
        # "the returned states are normalised" - also after a truncating last sweep
        ctx.cls("tree-norm-after-truncating-sweep:" + ("1" if abs(n2 - 1.0) <= 1e-8 else "<1"))
        ctx.check(abs(n2 - 1.0) <= 1e-8, "tree|optimize_ttns|returned-state-not-normalised|truncating-schedule", norm=n2, procedure=proc)
    ctx.nontrivial({"tree": trees.tree_shape_key(tree), "sector": qntot.tolist(), "proc": proc, "algo": algo,
                    "h": env.dhash(np.round(Hs, 9))})
