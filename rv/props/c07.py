"""C07 - observables computed from the network equal their dense definitions."""
import numpy as np

from rv import dense, gen, states

ID = "C07"
LEVEL = "exploration"
RULE = ("One case = one model, 1..3 states (real/complex, normalised or not, |coeff| != 1, any gauge; Mps or MpDm) and "
        "one operator list of 1..30 MPOs (single-site operators on different sites sharing identity prefixes/suffixes, "
        "two- and three-site products, exact duplicates, operators differing at one site, complex factors, sums with "
        "larger bond dimension, shuffled): expectation / transition amplitude, expectations(opt=True) vs opt=False vs "
        "dense, e_/ph_occupations repeated and interleaved on states sharing one Model (mpos cache), 1-site / 2-site / "
        "electronic RDMs, 1site/2site/mutual/bond entropies, all against the dense vector. Non-trivial: operator list "
        "in which >= 2 operators share a prefix or suffix (cached environments are used, counted through a wrapper on "
        "_construct_freq_environ) or a complex state for RDMs; distinct by (model, state trace, operator list).")
ASSUMPTIONS = [
    "dense vector = todense() of the tensors: coeff is a separate prefactor by the library's documented convention (BraKetPair multiplies it explicitly)",
    "expectation(O, self_conj=B) = sum_ij B_i O_ij psi_j with B already conjugated (all internal callers pass bra.conj())",
    "RDMs: partial trace of |psi><psi| with the ket index first, un-normalised like the code; entropies from the normalised spectrum (natural log); tolerance 1e-10 relative (1e-8 absolute for entropies)",
    "ph_occupations is requested only for models whose vibrational basis sets support the symbol 'n' (BasisSHO)",
    "prod(d) <= 1024",
]


def plan(tier):
    base = {"case_time_limit": 240,
            "required_classes": ["complex-state", "mpdm", "bra!=ket", "duplicate-operators", "shared-prefix", "shared-suffix",
                                 "complex-operator", "coeff!=1", "unnormalised", "occupations-interleaved", "rdm", "entropy",
                                 "long-chain", "output-ordering-permuted", "own-config-truncating", "bra-ket-pair"],
            "required_counters": {"oracle": 2000, "cached_environments_used": 100}}
    if tier == "quick":
        base.update({"ncases": 256, "min_nontrivial": 100})
    else:
        base.update({"ncases": 4000, "min_nontrivial": 2000,
                     "required_counters": {"oracle": 40000, "cached_environments_used": 2000}})
    return base


_hooked = {"done": False, "n": 0}


def setup(tier):
    from renormalizer.mps import mps as mps_mod
    if _hooked["done"]:
        return
    orig = mps_mod._construct_freq_environ

    def counting(*a, **k):
        res = orig(*a, **k)
        _hooked["n"] += max(0, len(res) - 1)      # cached partial environments beyond the trivial one
        return res

    mps_mod._construct_freq_environ = counting
    _hooked["done"] = True


def operator_list(ctx, gm, model):
    """List of (Mpo, dense, descriptor) with the combinatorics the cached fast path is sensitive to."""
    from renormalizer.mps import Mpo
    rng = ctx.rng
    n = len(gm.basis)
    nops = int(rng.integers(1, 31)) if rng.random() < 0.8 else int(rng.integers(1, 4))
    out = []
    complex_ops = rng.random() < 0.4
    pool_siteops = []
    for _ in range(nops * 3):
        if len(out) >= nops:
            break
        r = rng.random()
        if out and r < 0.15:
            out.append(out[int(rng.integers(0, len(out)))])           # exact duplicate (same Mpo object)
            ctx.cls("duplicate-operators")
            continue
        if pool_siteops and r < 0.35:
            # differs from an existing operator at exactly one site
            base = list(pool_siteops[int(rng.integers(0, len(pool_siteops)))])
            j = int(rng.integers(0, len(base)))
            cat = [so for so in gm.catalog[base[j].site] if complex_ops or not so.is_complex]
            base[j] = cat[int(rng.integers(0, len(cat)))]
            so = base
        else:
            so = gen.random_siteops(rng, gm, max_support=3, allow_complex=complex_ops, interleave=False)
            if so is None:
                continue
        pool_siteops.append(so)
        fac = gen.random_factor(rng, complex_ok=complex_ops, decades=1)
        terms = [gen.make_op(so, fac)]
        if rng.random() < 0.2:
            so2 = gen.random_siteops(rng, gm, max_support=2, allow_complex=complex_ops, interleave=False)
            if so2 is not None:
                terms.append(gen.make_op(so2, gen.random_factor(rng, complex_ok=complex_ops, decades=1)))
        try:
            mpo = Mpo(model, terms)
        except Exception as e:  # noqa: BLE001
            if "Cannot cast" in str(e):
                continue
            raise
        d = dense.op_dense(gm.basis, terms)
        if mpo.is_complex:
            ctx.cls("complex-operator")
        out.append((mpo, d, gen.terms_describe(terms, 3)))
    order = rng.permutation(len(out))
    out = [out[i] for i in order]
    # classes: shared prefix / suffix between two different operators (by dense local content of the first/last site)
    def key(m, i):
        return m[i].array.tobytes() + bytes(str(m[i].shape), "ascii")
    firsts, lasts = {}, {}
    for mpo, _, _ in out:
        firsts.setdefault(key(mpo, 0), set()).add(id(mpo))
        lasts.setdefault(key(mpo, n - 1), set()).add(id(mpo))
    if any(len(v) >= 2 for v in firsts.values()):
        ctx.cls("shared-prefix")
    if any(len(v) >= 2 for v in lasts.values()):
        ctx.cls("shared-suffix")
    return out


def make_state(ctx, gm, model, qntot, as_mpdm):
    from renormalizer.mps import MpDm
    rng = ctx.rng
    mps = ctx.lib(states.random_state, ctx, gm, model, qntot, what="state-constructor", promised=False)
    tr = []
    ctx.lib(states.gauge_history, rng, mps, 3, tr, what="gauge-history")
    if rng.random() < 0.4:
        mps.scale(float(rng.choice([0.3, 2.0, 1.7])), inplace=True)
        ctx.cls("unnormalised")
        tr.append("unnormalised")
    if abs(abs(mps.coeff) - 1) > 1e-12:
        ctx.cls("coeff!=1")
    if rng.random() < 0.4:
        # the state's own compression settings would truncate it (e.g. set for a coming propagation): no observable may
        # depend on them
        from renormalizer.utils import CompressConfig, CompressCriteria
        if rng.random() < 0.5:
            mps.compress_config = CompressConfig(CompressCriteria.fixed, max_bonddim=int(rng.integers(1, 3)))
        else:
            mps.compress_config = CompressConfig(CompressCriteria.threshold, threshold=float(rng.choice([0.3, 0.05])))
        ctx.cls("own-config-truncating")
        tr.append("own-config-truncating")
    if as_mpdm:
        mps = ctx.lib(MpDm.from_mps, mps, what="MpDm.from_mps")
        ctx.cls("mpdm")
        tr.append("MpDm")
    if mps.is_complex and np.linalg.norm(np.imag(mps.todense())) > 1e-6 * np.linalg.norm(mps.todense()):
        ctx.cls("complex-state")
    return mps, tr


def tensor_vec(mp):
    """Tensor-level dense object (no coeff): vector for Mps, (phys x ancilla) matrix for MpDm."""
    return np.asarray(mp.todense())


def real_if_negligible(got, want):
    """`expectation` documents "returns a float if the imaginary part is negligible" and decides with np.isclose(imag, 0), i.e.
    |imag| <= 1e-8 ABSOLUTE: a float result is compared with the real part of the reference whenever the reference's
    imaginary part is within that documented rule (matters for small amplitudes)."""
    if not np.iscomplexobj(got) and abs(np.imag(want)) <= 1e-8:
        return complex(got), complex(np.real(want))
    return complex(got), complex(want)


def expect_ref(mp, O, bra=None):
    t = tensor_vec(mp)
    b = t if bra is None else tensor_vec(bra)
    if mp.is_mps:
        return np.vdot(b, O @ t)
    # purified density operator: <<B| O (x) 1 |A>> = Tr(B^dag O A)
    return np.trace(b.conj().T @ O @ t)


def run_case(ctx):
    rng = ctx.rng
    gm = gen.random_basis_list(rng, nsite=(2, 6), max_dim=1024, min_dim=4,
                               qn_mode=rng.choice(["none", "one", "two"], p=[0.35, 0.5, 0.15]))
    as_mpdm = bool(rng.random() < 0.25)
    if rng.random() < 0.05:
        gm = gen.long_chain(rng, 10, 11)
        as_mpdm = False
        ctx.cls("long-chain")
    if as_mpdm and gm.dim > 64:
        gm = gen.random_basis_list(rng, nsite=(2, 4), max_dim=48, min_dim=4, qn_mode=gm.desc["qn_mode"])
    model = states.model_of(gm)
    n = len(gm.basis)
    out_order = list(gm.basis)
    if n >= 3 and rng.random() < 0.3:
        # the documented `output_ordering`: the order of e_dofs / v_dofs (and of the occupations) differs from the chain order
        from renormalizer.model import Model
        perm = [int(i) for i in rng.permutation(n)]
        model = Model(list(gm.basis), [], output_ordering=[gm.basis[i] for i in perm])
        ctx.cls("output-ordering-permuted")
        out_order = [gm.basis[i] for i in perm]
    qntot = states.pick_sector(rng, gm)
    nstates = int(rng.integers(1, 4))
    sts = [make_state(ctx, gm, model, qntot, as_mpdm) for _ in range(nstates)]
    ops = operator_list(ctx, gm, model)
    ctx.describe({"model": gm.describe(), "sector": qntot.tolist(), "states": [t for _, t in sts],
                  "operators": [d for _, _, d in ops][:12], "n_operators": len(ops)})
    nontrivial = False
    psi, _ = sts[0]
    other = sts[-1][0] if nstates > 1 else None

    # ---- single expectations and transition amplitudes ---------------------------------------------
    for mpo, d, _ in ops[:6]:
        sc = max(float(np.linalg.norm(tensor_vec(psi)) ** 2 * np.linalg.norm(d)), 1e-300)
        got = ctx.lib(psi.expectation, mpo, what="expectation")
        ctx.count("oracle")
        ctx.close(*real_if_negligible(got, expect_ref(psi, d)), 1e-10, "expectation|mismatch", scale=sc)
        if other is not None:
            ctx.cls("bra!=ket")
            got = ctx.lib(psi.expectation, mpo, other.conj(), what="expectation(bra)")
            sc2 = max(float(np.linalg.norm(tensor_vec(psi)) * np.linalg.norm(tensor_vec(other)) * np.linalg.norm(d)), 1e-300)
            ctx.count("oracle")
            ctx.close(*real_if_negligible(got, expect_ref(psi, d, other)), 1e-10, "transition-amplitude|mismatch", scale=sc2)
    if other is not None and ops and psi.is_mps:
        # the correlation-function pair object: <bra| O |ket> of the REPRESENTED states (prefactors included), O optional
        from renormalizer.mps.mps import BraKetPair
        mpo, d, _ = ops[int(rng.integers(0, len(ops)))]
        cb, ck = complex(other.coeff), complex(psi.coeff)
        for with_op in (False, True):
            pair = ctx.lib(BraKetPair, other, psi, mpo if with_op else None, what="BraKetPair")
            want = np.conj(cb) * ck * (expect_ref(psi, d, other) if with_op else np.vdot(tensor_vec(other), tensor_vec(psi)))
            scp = max(float(abs(cb) * abs(ck) * np.linalg.norm(tensor_vec(psi)) * np.linalg.norm(tensor_vec(other))
                            * (np.linalg.norm(d) if with_op else 1.0)), 1e-300)
            ctx.count("oracle")
            ctx.cls("bra-ket-pair")
            ctx.close(complex(pair.ft), complex(want), 1e-10, "BraKetPair|ft-is-not-the-overlap-of-the-represented-states|" +
                      ("with-operator" if with_op else "plain"), scale=scp)

    # ---- batched fast path ------------------------------------------------------------------------
    if ops:
        mpos = [m for m, _, _ in ops]
        for bra in ([None] + ([other] if other is not None else [])):
            before = _hooked["n"]
            kw = {} if bra is None else {"self_conj": bra.conj()}
            fast = np.asarray(ctx.lib(psi.expectations, mpos, what="expectations(opt=True)", **kw))
            used = _hooked["n"] - before
            ctx.count("cached_environments_used", used)
            slow = np.asarray(ctx.lib(psi.expectations, mpos, opt=False, what="expectations(opt=False)", **kw))
            ref = np.array([complex(expect_ref(psi, d, bra)) for _, d, _ in ops])
            nb = np.linalg.norm(tensor_vec(psi)) * (np.linalg.norm(tensor_vec(psi)) if bra is None else np.linalg.norm(tensor_vec(bra)))
            sc = max(float(nb * max(np.linalg.norm(d) for _, d, _ in ops)), 1e-300)
            ctx.count("oracle", 2)
            ctx.close(fast.astype(complex), ref, 1e-10, "expectations-fast-path|differs-from-dense", scale=sc * np.sqrt(len(ops)))
            ctx.close(fast.astype(complex), slow.astype(complex), 1e-10, "expectations-fast-path|differs-from-slow-path",
                      scale=sc * np.sqrt(len(ops)))
            if used > 0 and len(ops) >= 2:
                nontrivial = True

    # ---- occupations with the per-model cache, interleaved between states sharing the Model -------------
    from renormalizer.model import basis as ba, Op
    # the documented order: DoFs in the order of `output_ordering` (taken from the harness's own list, not read back from the model)
    e_dofs = [d for b in out_order if b.is_electron for d in b.dofs]
    v_ok = all(isinstance(b, ba.BasisSHO) for b in gm.basis if b.is_phonon)
    v_dofs = [d for b in out_order if b.is_phonon for d in b.dofs] if v_ok else []
    ctx.check(list(model.e_dofs) == e_dofs and list(model.v_dofs) == [d for b in out_order if b.is_phonon for d in b.dofs],
              "model|e_dofs-or-v_dofs-not-in-output-ordering", e_dofs=[repr(d) for d in model.e_dofs], want=[repr(d) for d in e_dofs])
    if e_dofs or v_dofs:
        share = [s for s, _ in sts]
        for s in share:
            s.model = model           # all states look at one Model object and hence one operator cache
        if len(share) > 1:
            ctx.cls("occupations-interleaved")
        for rep in range(2):
            for s in share:
                t = tensor_vec(s)
                if e_dofs:
                    got = np.asarray(ctx.lib(lambda: s.e_occupations, what="e_occupations"))
                    ref = np.array([expect_ref(s, dense.op_dense(gm.basis, [Op(r"a^\dagger a", dof)])) for dof in e_dofs])
                    ctx.count("oracle")
                    ctx.close(got.astype(complex), ref.astype(complex), 1e-10, "e_occupations|mismatch",
                              scale=max(float(np.linalg.norm(t) ** 2), 1e-300))
                if v_dofs:
                    got = np.asarray(ctx.lib(lambda: s.ph_occupations, what="ph_occupations"))
                    ref = np.array([expect_ref(s, dense.op_dense(gm.basis, [Op("n", dof)])) for dof in v_dofs])
                    ctx.count("oracle")
                    ctx.close(got.astype(complex), ref.astype(complex), 1e-10, "ph_occupations|mismatch",
                              scale=max(float(np.linalg.norm(t) ** 2) * max(b.nbas for b in gm.basis), 1e-300))

    # ---- reduced density matrices and entropies ------------------------------------------------------
    s = sts[int(rng.integers(0, nstates))][0]
    t = tensor_vec(s)
    coeff_before = complex(s.coeff)
    dims = gm.dims
    if s.is_mps:
        vec, vdims = t.reshape(-1), list(dims)
        site_of = list(range(n))
    else:
        # purified form: interleave (physical, ancilla) per site; the RDM of a site traces its ancilla too
        tt = t.reshape(list(dims) + list(dims))
        perm = [x for i in range(n) for x in (i, n + i)]
        vec = tt.transpose(perm).reshape(-1)
        vdims = [d for dd in dims for d in (dd, dd)]
        site_of = [2 * i for i in range(n)]
    nrm2 = max(float(np.linalg.norm(vec) ** 2), 1e-300)
    ctx.cls("rdm")
    rdm1 = ctx.lib(s.calc_1site_rdm, what="calc_1site_rdm")
    for i in range(n):
        ref = dense.partial_trace(vec, vdims, [site_of[i]])
        ctx.count("oracle")
        kind = "complex" if np.iscomplexobj(ref) and np.linalg.norm(ref.imag) > 1e-9 * nrm2 else "real"
        ctx.close(np.asarray(rdm1[i]), ref, 1e-10, f"calc_1site_rdm|differs-from-partial-trace|{kind}-state", scale=nrm2,
                  transposed_matches=bool(np.allclose(np.asarray(rdm1[i]).T, ref, atol=1e-9 * nrm2)))
    if rng.random() < 0.5:
        idx = int(rng.integers(0, n))
        sel = ctx.lib(s.calc_1site_rdm, idx, what="calc_1site_rdm(idx)")
        ctx.check(list(sel.keys()) == [idx] and np.allclose(sel[idx], rdm1[idx]), "calc_1site_rdm(idx)|inconsistent")
    if n >= 2:
        rdm2 = ctx.lib(s.calc_2site_rdm, what="calc_2site_rdm")
        pairs = [(i, j) for i in range(n) for j in range(i + 1, n)]
        ctx.check(sorted(rdm2.keys()) == pairs, "calc_2site_rdm|keys", keys=sorted(rdm2.keys()))
        for (i, j) in pairs:
            if (i, j) not in rdm2:
                continue
            ref = dense.partial_trace(vec, vdims, [site_of[i], site_of[j]])
            ctx.count("oracle")
            kind = "complex" if np.iscomplexobj(ref) and np.linalg.norm(ref.imag) > 1e-9 * nrm2 else "real"
            ctx.close(np.asarray(rdm2[(i, j)]), ref, 1e-10, f"calc_2site_rdm|differs-from-partial-trace|{kind}-state",
                      scale=nrm2, transposed_matches=bool(np.allclose(np.asarray(rdm2[(i, j)]).T, ref, atol=1e-9 * nrm2)))
    if e_dofs and s.is_mps:
        got = ctx.lib(s.calc_edof_rdm, what="calc_edof_rdm", refusals=("is not supported",))
        ref = np.array([[expect_ref(s, dense.op_dense(gm.basis, [Op(r"a^\dagger a", [d1, d2])])) for d2 in e_dofs]
                        for d1 in e_dofs])
        ctx.count("oracle")
        ctx.close(np.asarray(got), ref, 1e-10, "calc_edof_rdm|mismatch", scale=nrm2)
    if s.is_complex:
        nontrivial = True
    # entropies
    ctx.cls("entropy")
    e1 = ctx.lib(s.calc_entropy, "1site", what="calc_entropy(1site)")
    for i in range(n):
        ref = dense.vn_entropy_dm(dense.partial_trace(vec, vdims, [site_of[i]]))
        ctx.count("oracle")
        ctx.check(abs(e1[i] - ref) <= 1e-8, "entropy-1site|mismatch", got=e1[i], want=ref, site=i)
    if n >= 2:
        e2 = ctx.lib(s.calc_entropy, "2site", what="calc_entropy(2site)")
        for (i, j), v in e2.items():
            ref = dense.vn_entropy_dm(dense.partial_trace(vec, vdims, [site_of[i], site_of[j]]))
            ctx.count("oracle")
            ctx.check(abs(v - ref) <= 1e-8, "entropy-2site|mismatch", got=v, want=ref, pair=[i, j])
        mut = ctx.lib(s.calc_entropy, "mutual", what="calc_entropy(mutual)")
        for (i, j), v in e2.items():
            ref = (e1[i] + e1[j] - v) / 2
            ctx.check(abs(mut[i, j] - ref) <= 1e-8 and abs(mut[j, i] - ref) <= 1e-8, "entropy-mutual|mismatch", pair=[i, j])
        if s.is_mps:
            eb = ctx.lib(s.calc_entropy, "bond", what="calc_entropy(bond)")
            ctx.check(len(eb) == n - 1, "entropy-bond|length", got=len(eb))
            for c in range(1, n):
                sv = dense.schmidt(vec, vdims, c)
                ref = dense.vn_entropy_from_probs(sv ** 2)
                ctx.count("oracle")
                if c - 1 < len(eb):
                    ctx.check(abs(eb[c - 1] - ref) <= 1e-8, "entropy-bond|mismatch", got=eb[c - 1], want=ref, cut=c)
    # measuring must not change the state
    ctx.count("oracle")
    ctx.close(tensor_vec(s) * s.coeff, t * coeff_before, 1e-12, "measurement|state-changed",
              scale=max(float(np.linalg.norm(t) * abs(coeff_before)), 1e-300))
    if nontrivial:
        ctx.nontrivial({"model": gm.describe(), "states": [tr for _, tr in sts], "ops": [d for _, _, d in ops]})
