"""Tree cases of C06: sector / label monitors over operation histories of tree tensor network states."""
import numpy as np

from rv import dense, env, gen, states, tree_evolve, tree_states, trees


def sector_leak(tm, vec, qntot):
    mask = dense.sector_mask(tm.phys, qntot)
    return float(np.linalg.norm(np.asarray(vec)[~mask]))


class Watch:
    def __init__(self, ctx, tm):
        self.ctx, self.tm = ctx, tm
        self.trace = []

    def state(self, s, want_qntot, what):
        ctx = self.ctx
        self.trace.append(what)
        want = np.asarray(want_qntot).reshape(-1)
        got = np.asarray(s.qntot).reshape(-1)
        ctx.count("sector_checks")
        ctx.count("tree_sector_checks")
        if not ctx.check(np.array_equal(got, want), f"tree|{what}|qntot-wrong", got=got, want=want, trace=self.trace[-5:]):
            return False
        vec = tree_states.dense_tensor_of_ttns(s, self.tm.phys)
        nrm = float(np.linalg.norm(vec))
        leak = sector_leak(self.tm, vec, want)
        ok = ctx.check(leak <= 1e-10 * max(nrm, 1e-300), f"tree|{what}|amplitude-outside-sector", leak=leak, norm=nrm,
                       trace=self.trace[-5:])
        ctx.count("label_checks")
        probs = tree_states.tree_label_problems(s)
        ok2 = ctx.check(not probs, f"tree|{what}|labels-do-not-describe-nonzero-blocks", problems=probs[:3],
                        trace=self.trace[-5:])
        return ok and ok2


def run_tree_case(ctx):
    from renormalizer.tn import TTNO
    from renormalizer.tn.gs import optimize_ttns
    rng = ctx.rng
    ctx.cls("tree")
    qm = str(rng.choice(["one", "two"], p=[0.7, 0.3]))
    ctx.cls("qn-" + qm)
    em = tree_evolve.hermitian_tree_model(ctx, max_dim=200, nsite=(2, 6), qn_mode=qm)
    kind = trees.ALL_KINDS[int(rng.integers(0, len(trees.ALL_KINDS)))]
    tree, desc, kind = tree_evolve.build_tree(ctx, em, kind)
    tm = tree_evolve.place(ctx, em, tree, desc, kind)
    tree_evolve.classify_tree(ctx, tm)
    gm = em.gm
    # a populated sector (hostile ones are tried first, like in the chain cases)
    from rv.props.c06 import hostile_sector
    qntot, extreme = hostile_sector(rng, gm)
    if (ctx.idx // 6) % 4 == 1:
        # every fourth tree case: the sector whose total label vanishes (with the non-negative labels the tree constructors
        # need that is the state with nothing in it - the smallest sector there is, and the one a "zero means no symmetry"
        # shortcut would get wrong)
        qntot, extreme = np.zeros(gm.qn_size, dtype=int), True
        ctx.cls("tree-sector:total-label-zero")
    if extreme:
        ctx.cls("sector:extreme")
    sdim = int(dense.sector_mask(tm.phys, qntot).sum())
    ctx.describe({"kind": "tree", "tree": tm.desc, "model": gm.describe(), "terms": gen.terms_describe(em.terms, 6),
                  "sector": qntot.tolist(), "sector_dim": sdim})
    w = Watch(ctx, tm)
    pool = []
    for _ in range(int(rng.integers(1, 3))):
        s = ctx.lib(tree_states.random_ttns, ctx, tree, qntot, int(rng.integers(1, 7)), gm, what="tree-state-constructor",
                    promised=False)
        s.compress_config = tree_states.lossless_cfg()
        if not w.state(s, qntot, "constructor"):
            return
        pool.append(s)
    changed = False
    for step in range(int(rng.integers(3, 8))):
        a = pool[int(rng.integers(0, len(pool)))]
        qa = np.asarray(a.qntot).copy()
        op = int(rng.integers(0, 8))
        if op == 0 and len(pool) >= 1:
            same = [p for p in pool if np.array_equal(p.qntot, a.qntot)]
            b = same[int(rng.integers(0, len(same)))]
            ctx.cls("op:add")
            res = ctx.lib(a.add, b.scale(float(rng.normal()) or 1.0), what="tree-add")
            if np.linalg.norm(tree_states.dense_of_ttns(res, tm.phys)) > 1e-8:
                w.state(res, qa, "add")
                pool.append(res)
                changed = True
        elif op == 1:
            cp = a.copy()
            ctx.lib(cp.canonicalise, what="tree-canonicalise")
            w.state(cp, qa, "canonicalise")
            pool.append(cp)
            changed = True
        elif op == 2:
            from renormalizer.utils import CompressConfig, CompressCriteria
            cp = a.copy()
            cp.canonicalise()
            mode = int(rng.integers(0, 3))
            if mode == 0:
                ctx.cls("op:compress-limit-1")
                cp.compress_config = CompressConfig(CompressCriteria.fixed, max_bonddim=1)
            elif mode == 1:
                cp.compress_config = CompressConfig(CompressCriteria.fixed, max_bonddim=max(1, max(cp.bond_dims) // 2))
            else:
                cp.compress_config = CompressConfig(CompressCriteria.threshold, threshold=float(rng.choice([0.5, 0.1, 1e-3])))
            ctx.cls("op:compress-truncating")
            ctx.lib(cp.compress, what="tree-compress")
            w.state(cp, qa, "compress(truncating)")
            cp.compress_config = tree_states.lossless_cfg()
            pool.append(cp)
            changed = True
        elif op == 3:
            ch = [tuple(so.charge.tolist()) for cat in gm.catalog for so in cat if np.any(so.charge != 0)]
            if not ch:
                continue
            charge = np.array(ch[int(rng.integers(0, len(ch)))])
            terms = None
            for _ in range(10):
                t = gen.random_terms(rng, gm, int(rng.integers(1, 4)), target_charge=charge, allow_complex=False,
                                     complex_factors=False, decades=1)
                if t and np.linalg.norm(dense.op_dense(gm.basis, t)) > 1e-8:
                    terms = t
                    break
            if terms is None:
                continue
            d = dense.op_dense(gm.basis, terms)
            ref = d @ tree_states.dense_tensor_of_ttns(a, tm.phys)
            if np.linalg.norm(ref) < 1e-9 * np.linalg.norm(d):
                continue
            o = ctx.lib(TTNO, tree, terms, what="TTNO(charged)", refusals=("complex operator",))
            ctx.cls("op:apply-charged")
            res = ctx.lib(o.apply, a, what="tree-apply(charged)")
            if w.state(res, qa + charge, "apply(charged)"):
                cp = res.copy()
                ctx.lib(cp.canonicalise, what="tree-canonicalise")
                w.state(cp, qa + charge, "apply(charged)+canonicalise")
            pool.append(res)
            changed = True
        elif op == 4:
            if sdim < 2 or not np.array_equal(qa, qntot) or len(tree.node_list) < 2:
                continue
            ctx.cls("op:dmrg-tree")
            start = a.copy()
            start.canonicalise()    # the sweep assumes the centre at the root
            m = int(max(2, min(8, max(start.bond_dims) + 1)))
            env.reseed_global(rng)
            ctx.lib(optimize_ttns, start, tm.ttno, procedure=[[m, 0.4], [m, 0.2], [m, 0.0]], what="optimize_ttns")
            w.state(start, qa, "optimize_ttns")
            changed = True
        else:
            scheme = tree_evolve.SCHEMES[int(rng.integers(0, len(tree_evolve.SCHEMES)))]
            imag = bool(rng.random() < 0.3)
            src = a.copy()
            if scheme != "prop_and_compress_tdrk4":
                # the tree TDVP drivers assert a canonical input
                src.canonicalise()
            if scheme == "tdvp_vmf" and max(src.bond_dims) > 16:
                continue
            if scheme == "prop_and_compress_tdrk4":
                v = tree_states.dense_tensor_of_ttns(src, tm.phys)
                if min(np.linalg.norm(tm.H @ v), np.linalg.norm(tm.H @ (tm.H @ v))) <= 1e-12 * max(np.linalg.norm(v), 1e-300):
                    ctx.cls("observed:state-annihilated-by-H(pc-skipped)")
                    continue
            ctx.cls("op:evolve-imag" if imag else "op:evolve", "tree-scheme:" + scheme)
            src.evolve_config = tree_evolve.make_cfg(scheme)
            src.compress_config = tree_states.lossless_cfg()
            tau = 0.3 * (-1j if imag else 1.0)
            env.reseed_global(rng)
            res = ctx.lib(src.evolve, tm.ttno, tau, what=f"tree-evolve|{scheme}")
            w.state(res, qa, f"evolve|{scheme}|{'imag' if imag else 'real'}")
            if len(pool) < 5 and max(res.bond_dims) <= 24:
                res.compress_config = tree_states.lossless_cfg()
                pool.append(res)
            changed = True
        if ctx.violations:
            break
        if len(pool) > 6:
            pool.pop(int(rng.integers(0, len(pool))))
    if changed and sdim >= 2:
        ctx.nontrivial({"tree": trees.tree_shape_key(tree), "sector": qntot.tolist(), "trace": w.trace})
