"""C19 - integrator coefficient tables have their advertised order (exhaustive over the finite configuration space)."""
import itertools
import math

import numpy as np

ID = "C19"
LEVEL = "exploration"
RULE = ("One case per named Runge-Kutta method (all rows of b, all 17 rooted trees up to order 5, node/row-sum, "
        "metadata, constant-coefficient expansion), per Taylor order 0..40, 60, 100, 170, 175, per EvolveConfig(rk_solver=..) "
        "constructor path, plus behavioural cases: each tableau row integrates non-linear non-autonomous ODEs with "
        "the harness's own stepping loop and the measured order must reach the advertised one. A sub-case is "
        "non-trivial when it evaluates at least one order condition of order >= 2 or a measured convergence ratio; "
        "distinct by (method,row,tree) / (method,row,ode).")
ASSUMPTIONS = [
    "order conditions evaluated in float64 with tolerance 1e-13 (the tableaux are float64 literals)",
    "behavioural order: stepping loop in numpy longdouble; the finest step-halving whose errors lie in [1e-15, 3e-2] "
    "must show log2(e(h)/e(h/2)) >= advertised - 0.35 (calibrated: unchanged tree shows advertised +-0.16)",
]

METHODS = ["Forward_Euler", "midpoint_RK2", "Heun_RK2", "Ralston_RK2", "Kutta_RK3", "C_RK4", "38rule_RK4",
           "Fehlberg5", "RKF45", "Cash-Karp45"]
ADVERTISED = {"Forward_Euler": (1,), "midpoint_RK2": (2,), "Heun_RK2": (2,), "Ralston_RK2": (2,), "Kutta_RK3": (3,),
              "C_RK4": (4,), "38rule_RK4": (4,), "Fehlberg5": (5,), "RKF45": (5, 4), "Cash-Karp45": (5, 4)}
STAGES = {"Forward_Euler": 1, "midpoint_RK2": 2, "Heun_RK2": 2, "Ralston_RK2": 2, "Kutta_RK3": 3, "C_RK4": 4,
          "38rule_RK4": 4, "Fehlberg5": 6, "RKF45": 6, "Cash-Karp45": 6}


# ---- rooted trees (harness's own enumeration) ----------------------------------------------------
def _partitions(n, maxpart=None):
    if maxpart is None:
        maxpart = n
    if n == 0:
        yield ()
        return
    for k in range(min(n, maxpart), 0, -1):
        for rest in _partitions(n - k, k):
            yield (k,) + rest


_TREES = {}


def trees(order):
    """All rooted trees with `order` vertices; a tree is the sorted tuple of its children sub-trees."""
    if order in _TREES:
        return _TREES[order]
    if order == 1:
        res = [()]
    else:
        res = set()
        for part in _partitions(order - 1):
            pools = [trees(k) for k in part]
            for combo in itertools.product(*pools):
                res.add(tuple(sorted(combo)))
        res = sorted(res)
    _TREES[order] = res
    return res


def t_order(t):
    return 1 + sum(t_order(c) for c in t)


def t_gamma(t):
    g = t_order(t)
    for c in t:
        g *= t_gamma(c)
    return g


def elementary_weights(t, a):
    """Phi_i(t) for every stage i."""
    s = a.shape[0]
    if not t:
        return np.ones(s)
    phi = np.ones(s)
    for c in t:
        phi = phi * (a @ elementary_weights(c, a))
    return phi


def plan(tier):
    n = len(METHODS) + 1 + len(METHODS) + len(METHODS)
    return {"ncases": n, "min_nontrivial": 100, "exhaustive": True, "nchunks": 8,
            "required_counters": {"order_conditions": 150, "measured_orders": 12, "taylor_coeffs": 1300}}


def _check_tableau(ctx, method, rk, via):
    a, b, c = rk.tableau
    ctx.count("tableaux_inspected")
    adv = ADVERTISED[method]
    ctx.check(tuple(rk.order) == adv, f"{method}|order-metadata", got=list(rk.order), want=list(adv), via=via)
    ctx.check(rk.stage == STAGES[method] == a.shape[0] == a.shape[1] == c.shape[0] == b.shape[1],
              f"{method}|stage-metadata", stage=rk.stage, a=list(a.shape), b=list(b.shape), c=list(c.shape))
    ctx.check(b.shape[0] == len(adv), f"{method}|rows-vs-orders", rows=b.shape[0], orders=list(adv))
    ctx.check(np.allclose(np.triu(a), 0, atol=0), f"{method}|not-explicit")
    ctx.check(np.allclose(a.sum(axis=1), c, atol=1e-13, rtol=0), f"{method}|node-not-row-sum",
              rowsum=a.sum(axis=1), c=c)
    for irow, p in enumerate(adv[:b.shape[0]]):
        for order in range(1, p + 1):
            for t in trees(order):
                lhs = float(b[irow] @ elementary_weights(t, a))
                rhs = 1.0 / t_gamma(t)
                ctx.count("order_conditions")
                ctx.evaluations += 1
                if order >= 2:
                    ctx.nontrivial(("cond", method, irow, repr(t)))
                ctx.check(abs(lhs - rhs) <= 1e-13, f"{method}|row{irow}|order-condition", tree=repr(t),
                          tree_order=order, lhs=lhs, rhs=rhs, via=via)
    # derived constant-coefficient expansion
    coeff = np.atleast_2d(rk.runge_kutta_ti_coefficient())
    ctx.check(coeff.shape == (b.shape[0], rk.stage + 1), f"{method}|ti-coefficient-shape", shape=list(coeff.shape))
    if coeff.shape == (b.shape[0], rk.stage + 1):
        for irow, p in enumerate(adv[:b.shape[0]]):
            for k in range(0, p + 1):
                ctx.count("ti_coeffs")
                ctx.check(abs(coeff[irow, k] - 1.0 / math.factorial(k)) <= 1e-13, f"{method}|row{irow}|ti-coefficient",
                          k=k, got=coeff[irow, k])
            # independent recomputation of all coefficients: b . A^{k-1} . 1
            v = np.ones(rk.stage)
            for k in range(1, rk.stage + 1):
                ref = float(b[irow] @ v)
                ctx.check(abs(coeff[irow, k] - ref) <= 1e-13, f"{method}|row{irow}|ti-coefficient-recursion", k=k,
                          got=coeff[irow, k], want=ref)
                v = a @ v


FLOOR = 1e-15 if np.finfo(np.longdouble).eps < 1e-18 else 1e-12

ODES = {
    # name: (f(t,y), exact(t), t0)
    "riccati": (lambda t, y: -y * y, lambda t: 1.0 / (1.0 + t), 0.0),
    "nonauto": (lambda t, y: np.cos(t) * y + t * np.exp(np.sin(t)), lambda t: np.exp(np.sin(t)) * (1 + t * t / 2), 0.0),
    "logistic_t": (lambda t, y: (1 + t) * y * (1 - y), lambda t: 1.0 / (1.0 + np.exp(-(t + t * t / 2))), 0.0),
}


def _step(a, brow, c, f, t, y, h):
    ks = []
    for i in range(len(c)):
        yi = y + h * sum(a[i, j] * ks[j] for j in range(i))
        ks.append(f(t + c[i] * h, yi))
    return y + h * sum(brow[i] * ks[i] for i in range(len(c)))


def _measured_order(a, brow, c, ode, T=1.0):
    """Finest usable step-halving ratio, in extended precision so that the asymptotic regime is reached."""
    f, exact, t0 = ODES[ode]
    ld = np.longdouble
    a, brow, c = a.astype(ld), brow.astype(ld), c.astype(ld)
    errs = []
    ns = [2, 4, 8, 16, 32, 64, 128, 256, 512, 1024, 2048]
    for n in ns:
        h = ld(T) / ld(n)
        y, t = ld(exact(ld(t0))), ld(t0)
        for _ in range(n):
            y = _step(a, brow, c, f, t, y, h)
            t += h
        errs.append(float(abs(y - exact(ld(t0) + ld(T)))))
    orders = []
    for i in range(len(ns) - 1):
        if FLOOR < errs[i + 1] and errs[i] < 3e-2:
            orders.append(math.log2(errs[i] / errs[i + 1]))
    best = float(orders[-1]) if orders else None
    return best, errs


def run_case(ctx):
    from renormalizer.utils.rk import RungeKutta, TaylorExpansion, method_list
    from renormalizer.utils.configs import EvolveConfig
    nm = len(METHODS)
    i = ctx.idx
    if i < nm:
        method = METHODS[i]
        ctx.describe({"kind": "tableau", "method": method})
        ctx.cls("tableau")
        ctx.check(method in method_list, f"{method}|missing-from-method_list")
        rk = ctx.lib(RungeKutta, method, what="RungeKutta")
        _check_tableau(ctx, method, rk, "RungeKutta")
    elif i == nm:
        ctx.describe({"kind": "taylor", "orders": "0..40, 60, 100, 170, 175 and EvolveConfig defaults"})
        ctx.cls("taylor")
        ctx.check(sorted(method_list) == sorted(METHODS), "method_list-changed", got=list(method_list))
        from fractions import Fraction
        for n in list(range(0, 41)) + [60, 100, 170, 175]:
            te = ctx.lib(TaylorExpansion, n, what="TaylorExpansion")
            ctx.check(len(te.coeff) == n + 1 and te.order == n, "taylor|length", n=n)
            for k, ck in enumerate(te.coeff):
                ctx.count("taylor_coeffs")
                ctx.evaluations += 1
                ctx.nontrivial(("taylor", n, k))
                want = float(Fraction(1, math.factorial(k)))        # correctly rounded 1/k! (0.0 once it underflows)
                # scipy's factorial is one ulp off for a few k: 4e-15 relative; 1e-300 absolute for the denormal tail
                ctx.check(abs(float(ck) - want) <= 4e-15 * want + 1e-300, "taylor|coefficient", n=n, k=k, got=float(ck), want=want)
        cfg = EvolveConfig(taylor_order=24)
        ctx.check(len(cfg.taylor_config.coeff) == 25 and abs(cfg.taylor_config.coeff[24] * math.factorial(24) - 1) <= 1e-14,
                  "taylor|explicit-order-24")
        for adaptive, want in ((False, 4), (True, 5)):
            cfg = EvolveConfig(adaptive=adaptive)
            ctx.check(cfg.taylor_config.order == want and len(cfg.taylor_config.coeff) == want + 1,
                      "taylor|default-order", adaptive=adaptive, got=cfg.taylor_config.order)
        cfg = EvolveConfig(taylor_order=3)
        ctx.check(len(cfg.taylor_config.coeff) == 4, "taylor|explicit-order")
    elif i < 2 * nm + 1:
        method = METHODS[i - nm - 1]
        ctx.describe({"kind": "tableau-via-EvolveConfig", "method": method})
        ctx.cls("evolve-config-path")
        cfg = ctx.lib(EvolveConfig, rk_solver=method, what="EvolveConfig")
        _check_tableau(ctx, method, cfg.rk_config, "EvolveConfig")
        cfg2 = cfg.copy()
        ctx.check(cfg2.rk_config.method == method, "evolve-config-copy-loses-tableau")
    else:
        method = METHODS[i - 2 * nm - 1]
        ctx.cls("behavioural")
        rk = ctx.lib(RungeKutta, method, what="RungeKutta")
        a, b, c = rk.tableau
        res = {}
        for irow, p in enumerate(ADVERTISED[method][:b.shape[0]]):
            for ode in ODES:
                meas, errs = _measured_order(a, b[irow], c, ode)
                res[f"row{irow}:{ode}"] = meas
                ctx.evaluations += 1
                if meas is None:
                    ctx.note_inconclusive(f"no usable step-size window for {method} row{irow} {ode}")
                    continue
                ctx.count("measured_orders")
                ctx.nontrivial(("behav", method, irow, ode))
                ctx.check(meas >= p - 0.35, f"{method}|row{irow}|measured-order", ode=ode, measured=meas, advertised=p,
                          errors=errs)
        ctx.describe({"kind": "behavioural", "method": method, "measured_orders": res})
