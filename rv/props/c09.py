"""C09 - real-time evolution converges to the exact propagator for every scheme."""
import numpy as np

from rv import dense, env, evolve, gen, states

ID = "C09"
LEVEL = "exploration"
RULE = ("One case = one small model with Hermitian H (||H||=1 after rescaling, dense reference expm(-iHt)), one "
        "sector, one initial state able to hold the result (generic full-rank state of the sector; product / low-rank "
        "states for schemes that grow bonds), and a rotating subset of the 39 scheme variants (Taylor P&C order 1..5, "
        "RK4 P&C, general RK P&C with each tableau, TDVP-PS / PS2 with krylov / RK45 / RK23, VMF with and without matrix "
        "unfolding and overlap forcing, CMF first order / midpoint / trapezoid with both solvers). Oracles: A order "
        "(e(h)/e(h/2) >= 0.7*2^(p+1), e(h) <= 10 (||H||h)^(p+1); exact schemes: error below the local-solver bound), "
        "B solver independence, C adaptive vs requested tolerance, D splitting t = t/2 + t/2, E norm/energy "
        "conservation of TDVP-PS at truncated bonds, F bond limits, TD time-dependent H(t) against DOP853, MpDm "
        "initial states, multi-call histories switching scheme and step, and the hostile class of two states sharing "
        "one EvolveConfig object. Non-trivial: a measured convergence ratio (e(h) > 1e-9) or a truncated manifold in "
        "E; distinct by (scheme variant, model, state class, step).")
ASSUMPTIONS = [
    "bond dimensions sufficient to hold the result: generic full-rank initial state (one-site schemes cannot grow bonds; VMF/CMF need well conditioned Schmidt spectra), compress_config fixed with a limit above the exact ranks, normalize=False",
    "order oracle calibrated on the unchanged tree: ratios equal 2^(p+1) to 3 digits; acceptance 0.7*2^(p+1) lies between 2^p and 2^(p+1); ratio only judged when e(h/2) > 1e-8",
    "exact-at-full-bond schemes: error <= 1e-9 (krylov), 1e-7 (RK45 with rtol 1e-8), 1e-6 (RK23), 1e-7 (VMF) at ||H||h <= 0.5 - each two decades above the calibrated values; with default solver tolerances 50*(ivp_rtol+ivp_atol)",
    "solver independence: pairwise distance <= 2e-5 (the Krylov kernel's own rtol 1e-5) for ||H||h up to 2",
    "adaptive stepping: error <= 100*adaptive_rtol*max(1,||H||t) - the controllers accept sub-steps with local relative error up to 2^order*rtol and local errors accumulate",
    "product / low-rank initial states are used for the P&C family only (TDVP-PS2 is exact only from a state that already has the full bond dimensions)",
    "every state gets a fresh EvolveConfig except in the shared-config class",
    "dim <= 200; matrix-unfolding schemes refuse over-complete bonds (reshape error): not generated",
]


def plan(tier):
    base = {"case_time_limit": 600,
            "required_classes": ["A:order", "A:exact", "B:solver-independence", "C:adaptive", "D:splitting",
                                 "E:conservation", "F:bond-limit", "TD:time-dependent", "TD:adaptive", "mpdm", "history", "shared-config",
                                 "family:pc", "family:ps", "family:ps2", "family:vmf", "family:cmf",
                                 "gauge:non-canonical-complex", "gauge:non-canonical-real", "H:homogeneity", "H:ps2|product-state",
                                 "H:pc|product-state", "H:ps|full-rank-state"],
            "required_counters": {"oracle": 800, "ratios_measured": 100}}
    if tier == "quick":
        base.update({"ncases": 160, "min_nontrivial": 150})
    else:
        base.update({"ncases": 3000, "min_nontrivial": 3000, "required_counters": {"oracle": 15000, "ratios_measured": 2000}})
    return base


def setup(tier):
    try:
        from rv import kernel_contracts
        kernel_contracts.install_krylov_contract(max_dim=300)
    except Exception:  # noqa: BLE001 - the contract is an extra observer, not the deciding oracle
        pass


EXACT_BOUND = {"krylov": 1e-9, "RK45": 1e-7, "RK23": 1e-6, "vmf": 1e-7}


def err(out, ref):
    return float(np.linalg.norm(states.dense_of(out) - ref))


def step_x(order):
    """||H|| h used for a scheme of the given declared order."""
    if order is None:
        return 0.3
    return {1: 0.1, 2: 0.2, 3: 0.3}.get(order, 0.5)


def oracle_A(ctx, sc, em, mps, psi):
    """Order (or exactness) of one step."""
    x = step_x(sc.order) * float(ctx.rng.uniform(0.6, 1.0))
    if sc.family == "cmf" and sc.order == 2:
        x *= 2.0      # the inner site solves of CMF use solve_ivp's default rtol 1e-3: an error floor of ~1e-5
    h = x / em.hnorm
    ctx.cls("family:" + sc.family)
    order = sc.order
    if sc.family == "ps" and not (list(mps.bond_dims) == [int(c) for c in states.exact_bond_caps(em.gm.dims)]
                                  or all(states.sector_complete_cuts(em.gm, mps.qntot, psi))):
        # in a symmetry sector the bond bases of a rank-saturated state need not be complete on either side of a bond:
        # the one-site splitting is then a second-order integrator (local error h^3), not exact
        order = 2
        ctx.cls("ps:sector-limited-bonds")
    if order is None:
        ctx.cls("A:exact")
        out = evolve.run_step(ctx, sc, mps, em.mpo, h)
        e = err(out, evolve.exact(em, psi, h))
        solver = "vmf" if sc.family == "vmf" else sc.name.split("-")[1]
        ctx.count("oracle")
        ctx.metric_max(f"exact_err_over_bound:{sc.family}:{solver}", e / EXACT_BOUND[solver])
        ctx.check(e <= EXACT_BOUND[solver], f"A|{sc.family}|{solver}|not-exact-at-full-bond", err=e, x=x,
                  bound=EXACT_BOUND[solver], bonds=mps.bond_dims)
        return e, None
    ctx.cls("A:order")
    p = order
    while True:
        e1 = err(evolve.run_step(ctx, sc, mps, em.mpo, h), evolve.exact(em, psi, h))
        if e1 <= 1e-2 or x < 0.02:
            break
        x, h = x / 2, h / 2
    e2 = err(evolve.run_step(ctx, sc, mps, em.mpo, h / 2), evolve.exact(em, psi, h / 2))
    ctx.count("oracle")
    ctx.check(e1 <= 10 * x ** (p + 1) + 1e-9, f"A|{sc.name}|error-above-order-bound", e=e1, x=x, p=p)
    # (one-site TDVP in a sector: the h^3 splitting error must dominate the local solver's own error)
    if e2 > {"ps": 1e-6, "cmf": 5e-5}.get(sc.family, 1e-8):
        ratio = e1 / e2
        ctx.count("ratios_measured")
        ctx.metric_max(f"min_ratio_deficit:{sc.family}", (2 ** (p + 1)) / ratio)
        ctx.check(ratio >= 0.7 * 2 ** (p + 1), f"A|{sc.name}|order-lost", ratio=ratio, expected=2 ** (p + 1), e_h=e1,
                  e_half=e2, x=x)
        if e1 > 1e-9:
            ctx.nontrivial(("A", sc.name, ctx.descriptor_key, round(x, 3)))
    return e1, e2


def oracle_B(ctx, family, em, mps, psi):
    """The result must not depend on the local integrator."""
    ctx.cls("B:solver-independence")
    x = float(ctx.rng.choice([0.05, 0.2, 0.5, 1.0, 2.0]))
    h = x / em.hnorm
    variants = [s for s in evolve.scheme_list() if s.family == family]
    if family == "cmf":
        kind = str(ctx.rng.choice(["cmf1", "cmf2", "cmf2trapz"]))
        variants = [s for s in variants if s.name.split("-")[0] == kind]
    outs = {}
    for s in variants:
        outs[s.name] = states.dense_of(evolve.run_step(ctx, s, mps, em.mpo, h))
    names = sorted(outs)
    for i in range(len(names)):
        for j in range(i + 1, len(names)):
            d = float(np.linalg.norm(outs[names[i]] - outs[names[j]]))
            ctx.count("oracle")
            a, b = names[i].split("-")[-1], names[j].split("-")[-1]
            tol = 2e-5 if "RK23" not in (a, b) else 5e-5
            ctx.metric_max(f"solver_distance_over_tol:{family}", d / tol)
            ctx.check(d <= tol, f"B|{family}|{a}-vs-{b}|results-differ", distance=d, x=x, variants=[names[i], names[j]])


def oracle_C(ctx, em, mps, psi, full):
    """Adaptive stepping stays within the requested tolerance of the exact result."""
    from renormalizer.utils import EvolveConfig, EvolveMethod
    rng = ctx.rng
    ctx.cls("C:adaptive")
    rtol = float(rng.choice([1e-3, 1e-4]))
    x = float(rng.choice([0.5, 1.0, 2.0]))
    t = x / em.hnorm
    choices = ["pc-taylor", "pc-tdrk-RKF45", "pc-tdrk-Cash-Karp45"]
    if full:
        choices += ["ps", "ps2", "cmf"]
    kind = str(rng.choice(choices))
    guess = t / float(rng.choice([1, 4, 16]))
    if kind == "pc-taylor":
        cfg = EvolveConfig(EvolveMethod.prop_and_compress, adaptive=True, guess_dt=guess, adaptive_rtol=rtol)
    elif kind.startswith("pc-tdrk-"):
        cfg = EvolveConfig(EvolveMethod.prop_and_compress_tdrk, rk_solver=kind[8:], adaptive=True, guess_dt=guess,
                           adaptive_rtol=rtol)
    elif kind == "ps":
        cfg = EvolveConfig(EvolveMethod.tdvp_ps, adaptive=True, guess_dt=guess, adaptive_rtol=rtol)
    elif kind == "ps2":
        cfg = EvolveConfig(EvolveMethod.tdvp_ps2, adaptive=True, guess_dt=guess, adaptive_rtol=rtol)
    else:
        cfg = EvolveConfig(EvolveMethod.tdvp_mu_cmf, adaptive=True, guess_dt=guess, adaptive_rtol=rtol, ivp_solver="RK45")
    m = mps.copy()
    m.evolve_config = cfg
    out = evolve.guarded_evolve(ctx, m, em.mpo, t, False, f"evolve|adaptive|{kind}", "pc" if kind.startswith("pc") else kind)
    e = err(out, evolve.exact(em, psi, t))
    ctx.count("oracle")
    # the controllers accept a sub-step when p >= 0.5, i.e. a local relative error up to 2^order * rtol (32 rtol for the
    # embedded pairs, 6 rtol for step doubling), and local errors add up over the sub-steps
    bound = 100 * rtol * max(1.0, x)
    ctx.metric_max(f"adaptive_err_over_tol:{kind}", e / bound)
    ctx.check(e <= bound * max(1.0, np.linalg.norm(psi)), f"C|{kind}|adaptive-error-above-requested-tolerance", err=e,
              rtol=rtol, x=x, guess_dt=guess, bound=bound)
    ctx.check(np.allclose(states.dense_of(mps), psi, atol=1e-12), f"C|{kind}|input-changed")


def oracle_D(ctx, sc, em, mps, psi, e_h, e_half):
    """psi(t) vs psi(t/2)(t/2)."""
    ctx.cls("D:splitting")
    x = step_x(sc.order) * 0.8
    h = x / em.hnorm
    one = evolve.run_step(ctx, sc, mps, em.mpo, h)
    half = evolve.run_step(ctx, sc, mps, em.mpo, h / 2)
    two = evolve.run_step(ctx, sc, half, em.mpo, h / 2, cfg=sc.make_cfg())
    ref = evolve.exact(em, psi, h)
    e1, e2 = err(one, ref), err(two, ref)
    eh = err(half, evolve.exact(em, psi, h / 2))
    ctx.count("oracle")
    # two steps accumulate at most the sum of their local errors (unitary exact flow): e2 <= eh + local error of step 2
    bound = 2.5 * eh + (EXACT_BOUND.get(sc.name.split("-")[-1], 1e-7) if sc.order is None else 1e-9)
    ctx.check(e2 <= bound, f"D|{sc.name}|two-half-steps-off", e_two=e2, e_half=eh, e_one=e1, x=x)
    ctx.check(float(np.linalg.norm(states.dense_of(one) - states.dense_of(two))) <= e1 + bound + 1e-12,
              f"D|{sc.name}|t-vs-t/2+t/2-differ", e_one=e1, e_two=e2)


def oracle_E(ctx, em, qntot):
    """TDVP-PS conserves norm and energy at any bond dimension (time-independent H)."""
    from renormalizer.utils import EvolveConfig, EvolveMethod
    rng = ctx.rng
    ctx.cls("E:conservation")
    full = evolve.generic_full_state(ctx, em, qntot)
    if full is None:
        return
    caps = full.bond_dims
    if max(caps) < 2:
        return
    m_lim = int(rng.integers(1, max(caps)))
    tr = full.copy()
    tr.compress_config = evolve.big_cfg(m_lim)
    tr.ensure_right_canonical()
    tr.compress()
    truncated = any(a < b for a, b in zip(tr.bond_dims, caps))
    solver = str(rng.choice(["krylov", "RK45"]))
    x = float(rng.choice([0.1, 0.5, 1.0]))
    def observe(s):
        # norm and energy from the dense vector and the dense Hamiltonian (not the library's own mp_norm / expectation)
        v = np.asarray(states.dense_of(s)).reshape(-1)
        return float(np.linalg.norm(v)), float(np.real(np.vdot(v, em.H @ v)))

    n0, e0 = observe(tr)
    cur = tr
    for k in range(1, 6):
        cur = cur.copy()
        cur.evolve_config = EvolveConfig(EvolveMethod.tdvp_ps, ivp_solver=solver, ivp_rtol=1e-9, ivp_atol=1e-11)
        cur = ctx.lib(cur.evolve, em.mpo, x / em.hnorm, normalize=False, what=f"evolve|ps-{solver}|truncated")
        n1, e1 = observe(cur)
        ctx.count("oracle", 2)
        # ... and the library's own observables agree with the vector it represents
        ctx.check(abs(cur.norm - n1) <= 1e-9 * max(1.0, n1) and abs(complex(cur.expectation(em.mpo)) * abs(cur.coeff) ** 2 - e1) <= 1e-8 * max(1.0, abs(e1)),
                  "E|library-norm-or-expectation-differs-from-the-represented-vector", norm=cur.norm, dense_norm=n1)
        ctx.metric_max("E_norm_drift", abs(n1 - n0) / (1e-6 * k))
        ctx.metric_max("E_energy_drift", abs(e1 - e0) / (1e-6 * k))
        ctx.check(abs(n1 - n0) <= 1e-6 * k * max(1.0, n0), f"E|ps-{solver}|norm-not-conserved", step=k, n0=n0, n1=n1, bonds=cur.bond_dims)
        ctx.check(abs(e1 - e0) <= 1e-6 * k * em.hnorm * max(1.0, n0 ** 2), f"E|ps-{solver}|energy-not-conserved", step=k, e0=e0, e1=e1)
        ctx.check(all(a <= b for a, b in zip(cur.bond_dims, tr.bond_dims)), "F|ps|bond-grew", before=tr.bond_dims, after=cur.bond_dims)
    if truncated:
        ctx.nontrivial(("E", ctx.descriptor_key, m_lim, solver, x))


def oracle_F(ctx, em, mps):
    """No scheme lets bond dimensions exceed the configured limit."""
    rng = ctx.rng
    ctx.cls("F:bond-limit")
    cands = [s for s in evolve.scheme_list() if s.grows_bonds]
    sc = cands[int(rng.integers(0, len(cands)))]
    lim = int(rng.integers(1, max(2, max(mps.bond_dims))))
    m = mps.copy()
    m.compress_config = evolve.big_cfg(lim)
    m.ensure_right_canonical()
    m.compress()
    cur = m
    for _ in range(2):
        cur = cur.copy()
        cur.evolve_config = sc.make_cfg()
        cur.compress_config = evolve.big_cfg(lim)
        cur = evolve.guarded_evolve(ctx, cur, em.mpo, 0.3 / em.hnorm, False, f"evolve|{sc.name}|limited", sc.family)
        ctx.count("oracle")
        ctx.check(max(cur.bond_dims) <= lim, f"F|{sc.family}|bond-exceeds-configured-limit", limit=lim, bonds=cur.bond_dims,
                  scheme=sc.name)


def oracle_TD(ctx, em, mps, psi):
    """Time-dependent Hamiltonian callables against the DOP853 dense reference."""
    from renormalizer.mps import Mpo
    from renormalizer.model import Op
    rng = ctx.rng
    ctx.cls("TD:time-dependent")
    vterms = gen.hermitian_terms(rng, em.gm, 1, max_support=2, allow_complex=em.complex_h, charge_conserving=True)
    if not vterms:
        return
    V = dense.op_dense(em.gm.basis, vterms)
    nv = float(np.linalg.norm(V, 2))
    if nv < 1e-8 or not np.allclose(V, V.conj().T):
        return
    vterms = [Op(t.symbol, t.dofs, t.factor / nv, t.qn_list) for t in vterms]
    V = V / nv
    w = float(rng.uniform(0.5, 3.0))
    ftype = int(rng.integers(0, 2))

    def f(t):
        return np.sin(w * t) + 0.5 if ftype == 0 else 1.0 / (1.0 + t) + t * t

    cache = {}

    def mpo_t(t, *a, **k):
        key = round(float(t), 14)
        if key not in cache:
            try:
                cache[key] = Mpo(em.model, list(em.terms) + [Op(tt.symbol, tt.dofs, tt.factor * f(t), tt.qn_list) for tt in vterms])
            except Exception as e:  # noqa: BLE001 - building H(t) is the harness's business (cast of complex local
                # matrices, H0 + f(t)V cancelling completely at some t): not an evolution failure
                ctx.refuse("H(t) could not be built: " + type(e).__name__)
                from rv.case import CaseAbort
                raise CaseAbort()
        return cache[key]

    cands = [s for s in evolve.scheme_list() if s.time_dependent]
    sc = cands[int(rng.integers(0, len(cands)))]
    x = step_x(sc.order) * 0.6
    h = x / (em.hnorm + 1.5)
    ref = dense.propagate_td(lambda t: em.H + f(t) * V, psi, h)
    ref2 = dense.propagate_td(lambda t: em.H + f(t) * V, psi, h / 2)
    out = evolve.run_step(ctx, sc, mps, mpo_t, h, what=f"evolve|{sc.name}|H(t)")
    e1 = err(out, ref)
    ctx.count("oracle")
    if sc.order is None:
        ctx.check(e1 <= 1e-6, f"TD|{sc.family}|not-exact-for-H(t)", err=e1, x=x)
    else:
        p = sc.order
        ctx.check(e1 <= 20 * (x * 2.5) ** (p + 1) + 1e-9, f"TD|{sc.name}|error-above-order-bound", e=e1, x=x)
        e2 = err(evolve.run_step(ctx, sc, mps, mpo_t, h / 2, what=f"evolve|{sc.name}|H(t)"), ref2)
        if e2 > 1e-8:
            ratio = e1 / e2
            ctx.count("ratios_measured")
            ctx.metric_max("min_ratio_deficit:TD", (2 ** (p + 1)) / ratio)
            ctx.check(ratio >= 0.7 * 2 ** (p + 1), f"TD|{sc.name}|order-lost-for-H(t)", ratio=ratio, expected=2 ** (p + 1), x=x)
            ctx.nontrivial(("TD", sc.name, ctx.descriptor_key))


def oracle_TD_adaptive(ctx, em, mps, psi):
    """Adaptive embedded-pair P&C with a time-dependent Hamiltonian callable and several internal sub-steps: the stage
    times of every sub-step must be measured from the start of the evolve call (seeded change C09-tdrk-adaptive-t0)."""
    from renormalizer.mps import Mpo
    from renormalizer.model import Op
    from renormalizer.utils import EvolveConfig, EvolveMethod
    rng = ctx.rng
    ctx.cls("TD:adaptive")
    vterms = gen.hermitian_terms(rng, em.gm, 1, max_support=2, allow_complex=em.complex_h, charge_conserving=True)
    if not vterms:
        return
    V = dense.op_dense(em.gm.basis, vterms)
    nv = float(np.linalg.norm(V, 2))
    if nv < 1e-8 or not np.allclose(V, V.conj().T):
        return
    vterms = [Op(t.symbol, t.dofs, t.factor / nv, t.qn_list) for t in vterms]
    V = V / nv
    w = float(rng.uniform(1.0, 3.0))

    def f(t):
        return np.cos(w * t) + 0.3 * t

    cache = {}

    def mpo_t(t, *a, **k):
        key = round(float(t), 14)
        if key not in cache:
            try:
                cache[key] = Mpo(em.model, list(em.terms) + [Op(tt.symbol, tt.dofs, tt.factor * f(t), tt.qn_list) for tt in vterms])
            except Exception as e:  # noqa: BLE001 - building H(t) is the harness's business
                ctx.refuse("H(t) could not be built: " + type(e).__name__)
                from rv.case import CaseAbort
                raise CaseAbort()
        return cache[key]

    solver = str(rng.choice(["RKF45", "Cash-Karp45"]))
    rtol = float(rng.choice([1e-4, 1e-5]))
    t = float(rng.uniform(0.8, 2.0)) / (em.hnorm + 1.3)
    nsub = int(rng.choice([3, 5, 8]))
    m = mps.copy()
    m.evolve_config = EvolveConfig(EvolveMethod.prop_and_compress_tdrk, rk_solver=solver, adaptive=True, guess_dt=t / nsub,
                                   adaptive_rtol=rtol)
    out = evolve.guarded_evolve(ctx, m, mpo_t, t, False, f"evolve|adaptive|pc-tdrk-{solver}|H(t)", "pc")
    ref = dense.propagate_td(lambda s_: em.H + f(s_) * V, psi, t)
    e = err(out, ref)
    bound = 100 * rtol * max(1.0, t * (em.hnorm + 1.3))
    ctx.count("oracle")
    ctx.metric_max("adaptive_td_err_over_tol", e / bound)
    ctx.check(e <= bound, f"TD|adaptive|pc-tdrk-{solver}|error-above-requested-tolerance-for-H(t)", err=e, rtol=rtol, substeps=nsub)
    # splitting the same interval into separate calls must give the same answer within the same tolerance
    cur = mps
    t0 = 0.0
    for k in range(2):
        cur = cur.copy()
        cur.evolve_config = EvolveConfig(EvolveMethod.prop_and_compress_tdrk, rk_solver=solver, adaptive=True,
                                         guess_dt=t / nsub, adaptive_rtol=rtol)
        start = t0
        cur = evolve.guarded_evolve(ctx, cur, (lambda s_, *a, _st=start, **kw: mpo_t(_st + s_)), t / 2, False,
                                    f"evolve|adaptive|pc-tdrk-{solver}|H(t)|split", "pc")
        t0 += t / 2
    d = float(np.linalg.norm(states.dense_of(cur) - states.dense_of(out)))
    ctx.count("oracle")
    ctx.check(d <= 2 * bound, f"TD|adaptive|pc-tdrk-{solver}|one-call-vs-two-calls-differ", distance=d, bound=bound)
    ctx.nontrivial(("TDA", solver, ctx.descriptor_key, nsub))


def oracle_mpdm(ctx, em, mps, psi):
    """Density-operator form: exp(-iHt) M."""
    from renormalizer.mps import MpDm
    rng = ctx.rng
    if em.gm.dim > 40:
        return
    ctx.cls("mpdm")
    dm = ctx.lib(MpDm.from_mps, mps, what="MpDm.from_mps")
    dm.compress_config = evolve.big_cfg()
    M0 = states.dense_of(dm)
    # propagation-and-compression grows the bonds as needed; the TDVP schemes are only exact from a state that already
    # has the bond dimensions of the result, which the density-operator form of a pure state does not have
    cands = [s for s in evolve.scheme_list() if s.family == "pc" and not s.name.startswith("pc-tdrk-F")]
    sc = cands[int(rng.integers(0, len(cands)))]
    x = step_x(sc.order) * 0.5
    h = x / em.hnorm
    out = evolve.run_step(ctx, sc, dm, em.mpo, h, what=f"evolve|{sc.name}|MpDm")
    U = evolve.exact(em, np.eye(em.gm.dim), h)
    e = float(np.linalg.norm(states.dense_of(out) - U @ M0))
    ctx.count("oracle")
    if sc.order is None:
        ctx.check(e <= EXACT_BOUND.get(sc.name.split("-")[-1], 1e-7) * 10, f"mpdm|{sc.family}|not-exact", err=e)
    else:
        ctx.check(e <= 10 * x ** (sc.order + 1) * max(1.0, np.linalg.norm(M0)) + 1e-9, f"mpdm|{sc.name}|error-above-order-bound", e=e, x=x)


def oracle_history(ctx, em, mps, psi):
    """2..5 calls switching scheme and step; additive error budget from the single-step bounds."""
    rng = ctx.rng
    ctx.cls("history")
    cur, ref, budget, t = mps, psi.copy(), 0.0, 0.0
    trace = []
    for _ in range(int(rng.integers(2, 6))):
        cands = [s for s in evolve.scheme_list() if s.family != "cmf" or "RK45" in s.name]
        sc = cands[int(rng.integers(0, len(cands)))]
        x = step_x(sc.order) * float(rng.uniform(0.3, 1.0))
        h = x / em.hnorm
        prev = cur
        if sc.family in ("vmf", "cmf") and any(b > c for b, c in zip(cur.bond_dims, mps.bond_dims)):
            # a two-site or P&C step before has padded the bonds with zero-weight directions; the matrix-unfolding schemes
            # refuse redundant bond directions (documented limitation, 8.2): a lossless compression (pure representation
            # change) removes them first
            cur = cur.copy()
            cur.compress_config = evolve.big_cfg()
            cur.ensure_right_canonical()
            cur.compress(temp_m_trunc=[int(b) for b in mps.bond_dims])
            ctx.cls("history:redundant-bonds-removed-before-mu-scheme")
            ctx.close(states.dense_of(cur), states.dense_of(prev), 1e-9, "harness|lossless-compression-changed-the-state", scale=1.0)
        cur = evolve.run_step(ctx, sc, cur, em.mpo, h)
        ref = evolve.exact(em, ref, h)
        order = sc.order
        if sc.family == "ps" and list(prev.bond_dims) != [int(c) for c in states.exact_bond_caps(em.gm.dims)]:
            order = 2
        budget += (10 * x ** (order + 1)) if order is not None else 1e-6
        trace.append((sc.name, round(x, 3)))
        e = err(cur, ref)
        ctx.count("oracle")
        if not ctx.check(e <= budget + 1e-9, "history|error-above-additive-budget", trace=trace, err=e, budget=budget):
            break


def oracle_H(ctx, em, full, low):
    """Without normalisation a step is homogeneous of degree one in the input amplitudes: evolve(mu*psi) = mu*evolve(psi),
    the factor sitting in the TENSORS (Mps.scale).  Environments and effective Hamiltonians are built from the state
    itself, so anything that is only right for normalised tensors shows up here - also where the step is exact.
    (Not asked of the matrix-unfolding schemes: their regularisation of the inverse is an absolute epsilon.)"""
    rng = ctx.rng
    ctx.cls("H:homogeneity")
    # (two-site scheme: only with the Krylov local solver, whose arithmetic rescales exactly with a power of two.  The ODE
    # solvers have an ABSOLUTE tolerance; the 1e-10 difference that makes is enough to turn the noise directions the
    # two-site update keeps for its enlarged bonds, and from a product state the result then moves by the scheme's own
    # projection error, measured 1e-3 .. 8e-3 - run-to-run noise of the method, not an inhomogeneity)
    cands = [s for s in evolve.scheme_list() if s.family in ("pc", "ps") or s.name == "ps2-krylov"]
    cands += [s for s in cands if s.name == "ps2-krylov"] * 4
    sc = cands[int(rng.integers(0, len(cands)))]
    product = bool(rng.random() < 0.5) and sc.family != "ps"
    s0 = low if product else full
    if sc.family == "ps2":
        # (which null-space vectors complete the bond bases of the two-site update is not a continuous function of the
        # two-site tensor - see the tree check: positive powers of two rescale every intermediate exactly)
        mu = [4.0, 0.25, 2.0, 0.5][int(rng.integers(0, 4))]
    else:
        mu = [4.0, 0.25, -3.0, complex(2 * np.exp(0.7j))][int(rng.integers(0, 4))]
    h = float(rng.uniform(0.1, 0.3)) / em.hnorm
    ctx.cls(f"H:{sc.family}|{'product-state' if product else 'full-rank-state'}")
    state = rng.bit_generator.state
    out1 = evolve.run_step(ctx, sc, s0, em.mpo, h, what=f"evolve|{sc.name}|psi")
    after = rng.bit_generator.state
    rng.bit_generator.state = state             # same seed for the library's global RNG in the scaled run
    outm = evolve.run_step(ctx, sc, s0.scale(mu), em.mpo, h, what=f"evolve|{sc.name}|mu*psi")
    rng.bit_generator.state = after
    a, b = states.dense_of(out1), states.dense_of(outm)
    ctx.count("oracle")
    ctx.count("homogeneity_checks")
    # (two-site scheme: a rounding-level difference between the two runs - the local ODE solvers have an ABSOLUTE tolerance -
    # can select other null-space vectors for the enlarged bonds; the results then differ by the scheme's own
    # pre-asymptotic error, measured 1e-5 .. 5e-5 at these steps)
    ctx.close(b, mu * a, 2e-4 if sc.family == "ps2" else 1e-6, f"H|{sc.family}|evolved-state-not-proportional-to-the-input-amplitude|" +
              ("product-state" if product else "full-rank-state"), scale=max(float(np.linalg.norm(mu * a)), 1e-300), mu=mu,
              scheme=sc.name, bonds=list(s0.bond_dims))


def oracle_shared_config(ctx, em, mps, psi):
    """Hostile class: two states share one EvolveConfig object; evolving one must not degrade the other's scheme."""
    from renormalizer.utils import EvolveConfig, EvolveMethod
    ctx.cls("shared-config")
    cfg = EvolveConfig(EvolveMethod.tdvp_mu_cmf, ivp_solver="RK45", ivp_rtol=1e-8, ivp_atol=1e-10)
    a, b = mps.copy(), mps.copy()
    a.evolve_config = cfg
    b.evolve_config = cfg
    x = 0.2
    h = x / em.hnorm
    ctx.lib(a.evolve, em.mpo, h, normalize=False, what="evolve|cmf2|shared-config-first")
    ctx.count("oracle")
    ctx.check(cfg.tdvp_cmf_midpoint is True and cfg.adaptive is False and cfg.tdvp_cmf_c_trapz is False,
              "shared-config|evolve-modified-the-caller's-config", midpoint=cfg.tdvp_cmf_midpoint)
    e1 = err(ctx.lib(b.evolve, em.mpo, h, normalize=False, what="evolve|cmf2|shared-config-second"), evolve.exact(em, psi, h))
    b2 = mps.copy()
    b2.evolve_config = cfg
    e2 = err(ctx.lib(b2.evolve, em.mpo, h / 2, normalize=False, what="evolve|cmf2|shared-config-third"), evolve.exact(em, psi, h / 2))
    if e2 > 1e-8:
        ctx.count("ratios_measured")
        ctx.check(e1 / e2 >= 0.7 * 8, "shared-config|second-order-scheme-degraded-to-first-order", ratio=e1 / e2, e_h=e1, e_half=e2)


def run_case(ctx):
    rng = ctx.rng
    em = evolve.hermitian_model(ctx)
    qntot = None
    for _ in range(10):
        q = states.pick_sector(rng, em.gm)
        if states.sector_dim(em.gm, q) >= 3:
            qntot = q
            break
    if qntot is None:
        ctx.refuse("no sector with >= 3 states")
        return
    full = evolve.generic_full_state(ctx, em, qntot)
    if full is None:
        ctx.refuse("sector-aware random constructor refused")
        return
    psi = states.dense_of(full)
    ctx.descriptor_key = env.dhash({"m": em.gm.describe(), "t": gen.terms_describe(em.terms, 20), "q": qntot.tolist()})
    ctx.describe({"model": em.gm.describe(), "terms": gen.terms_describe(em.terms, 8), "sector": qntot.tolist(),
                  "bond_dims": full.bond_dims, "complex_H": em.complex_h, "complex_state": bool(full.is_complex)})
    all_s = evolve.scheme_list()
    nsel = 6 if ctx.tier == "quick" else 8
    start = (ctx.idx * nsel) % len(all_s)
    chosen = [all_s[(start + k) % len(all_s)] for k in range(nsel)]
    low = evolve.low_rank_state(ctx, em, qntot)
    psi_low = states.dense_of(low)
    if rng.random() < 0.35 and full.site_num >= 2:
        # the same state in a non-canonical (real or complex) gauge: G G^-1 on one to three bonds, random sweep direction
        g = full.copy()
        cplx = bool(rng.random() < 0.6)
        for _ in range(int(rng.integers(1, 4))):
            states.bond_gauge(rng, g, cplx=cplx)
        if rng.random() < 0.5:
            g.to_right = not g.to_right
        ok = ctx.close(states.dense_of(g), psi, 1e-10, "harness|gauge-transformation-changed-the-state", scale=1.0)
        if ok and not states.check_labels(g):
            full = g
            ctx.cls("gauge:non-canonical-complex" if cplx else "gauge:non-canonical-real")
            # the schemes that work with explicit overlap matrices see such a gauge directly: make sure one of them runs
            ov = [s_ for s_ in all_s if s_.family == "vmf" and s_.name.endswith("-ovlp")]
            if ov and not any(s_.family == "vmf" and s_.name.endswith("-ovlp") for s_ in chosen):
                chosen = chosen + [ov[int(rng.integers(0, len(ov)))]]
            ctx.cls("gauge:non-canonical|vmf-with-overlap-matrices|to_right=" + str(bool(full.to_right)))
    first = None
    for sc in chosen:
        if sc.family == "pc" and rng.random() < 0.4:
            ctx.cls("state:low-rank")
            e1, e2 = oracle_A(ctx, sc, em, low, psi_low)
        else:
            e1, e2 = oracle_A(ctx, sc, em, full, psi)
        if first is None:
            first = (sc, e1, e2)
        if ctx.violations:
            break
    kind = ctx.idx % 8
    if kind == 0:
        oracle_B(ctx, ["ps", "ps2", "cmf"][(ctx.idx // 8) % 3], em, full, psi)
    elif kind == 1:
        oracle_C(ctx, em, full, psi, True)
    elif kind == 2:
        oracle_D(ctx, chosen[int(rng.integers(0, len(chosen)))], em, full, psi, None, None)
    elif kind == 3:
        oracle_E(ctx, em, qntot)
    elif kind == 4:
        oracle_F(ctx, em, full)
        oracle_C(ctx, em, low, psi_low, False)
    elif kind == 5:
        oracle_TD(ctx, em, full, psi)
        oracle_TD_adaptive(ctx, em, full, psi)
    elif kind == 6:
        oracle_mpdm(ctx, em, full if em.gm.dim <= 40 else low, psi if em.gm.dim <= 40 else psi_low)
        oracle_history(ctx, em, full, psi)
    else:
        oracle_shared_config(ctx, em, full, psi)
        oracle_B(ctx, "cmf", em, full, psi)
    if ctx.idx % 2 == 0 and not ctx.violations:
        oracle_H(ctx, em, full, low)
    try:
        from rv import kernel_contracts
        obs = kernel_contracts.drain_observations()
        for o in obs:
            if o.get("kind") == "krylov-nonhermitian-map":
                ctx.count("krylov_called_with_nonhermitian_map")
                ctx.cls("observed:krylov-nonhermitian-map@" + str(o.get("where")))
        from rv import monitors
        monitors.drain(ctx, prefix="kernel-contract|")
    except Exception:  # noqa: BLE001
        pass
