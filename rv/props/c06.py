"""C06 - conserved quantum numbers are never violated by any operation (chains; tree cases in c06_tree)."""
import numpy as np

from rv import dense, env, evolve, gen, states

ID = "C06"
LEVEL = "exploration"
RULE = ("One case = one model with one- or two-component quantum numbers, one sector (biased to hostile ones: all sites "
        "occupied, the sectors next to empty ones, sectors with a single state at some cut), and one operation history: "
        "sector-aware constructors (Mps.random, hartree_product_state with any centre), sums, scaling, canonicalisation "
        "in both directions and to any stop site, lossless and truncating compression (incl. limit 1 and thresholds), "
        "application of charged operators built by Mpo(...) (charge q and -q via conj_trans), MpDm forms, one DMRG run "
        "(1- and 2-site, percent > 0), one step of every chain evolution scheme with a conserving Hamiltonian (real and "
        "imaginary time). Monitors after EVERY call: (a) dense amplitudes outside the (shifted) sector <= 1e-10 ||psi||, "
        "(b) qntot bookkeeping, (c) the label invariant: every non-zero block of every site tensor is allowed by the "
        "stored bond labels. Operators: labels of Mpo(...) checked against the charge of the dense operator. Non-trivial: "
        "sector with >= 2 non-empty label blocks at some bond and an operation that changes tensors; distinct by (model, "
        "sector, operation trace).")
ASSUMPTIONS = [
    "label invariant checked only at quiescent points (after a public call returned) and only on objects made by sector-aware constructors (from_dense / exact_propagator / identity deliberately carry all-zero labels)",
    "entry counts as non-zero when |a| > 1e-10 * max|a| of its tensor; leakage threshold 1e-10 * ||psi||",
    "prod(d) <= 400; DMRG and evolution with generated charge-conserving Hermitian Hamiltonians (every term has zero total charge)",
]


def plan(tier):
    base = {"case_time_limit": 180,
            "required_classes": ["qn-one", "qn-two", "sector:extreme", "op:add", "op:compress-truncating", "op:compress-limit-1",
                                 "op:apply-charged", "op:conj_trans-apply", "op:canonicalise-stop", "op:dmrg-1site", "op:dmrg-2site",
                                 "op:evolve", "op:evolve-imag", "op:mpdm", "operator-labels", "tree", "op:dmrg-tree",
                                 "tree-scheme:tdvp_ps2", "tree-scheme:tdvp_vmf", "sector:zero-with-signed-labels", "tree-sector:total-label-zero",
                                 "state:equal-weight-sum-of-basis-states"],
            "required_counters": {"label_checks": 2000, "sector_checks": 1500, "tree_sector_checks": 100}}
    if tier == "quick":
        base.update({"ncases": 240, "min_nontrivial": 50})
    else:
        base.update({"ncases": 4000, "min_nontrivial": 1000, "required_counters": {"label_checks": 30000, "sector_checks": 20000, "tree_sector_checks": 2000}})
    return base


class Watch:
    def __init__(self, ctx, gm):
        self.ctx, self.gm = ctx, gm
        self.qn_states = dense.basis_qn(gm.basis)
        self.trace = []

    def state(self, mp, want_qntot, what):
        """All three monitors on a state (Mps or MpDm) after a call named `what`."""
        ctx = self.ctx
        self.trace.append(what)
        want = np.asarray(want_qntot).reshape(-1)
        ctx.count("sector_checks")
        got = np.asarray(mp.qntot).reshape(-1)
        if not ctx.check(np.array_equal(got, want), f"{what}|qntot-wrong", got=got, want=want, trace=self.trace[-5:]):
            return False
        d = np.asarray(mp.todense())
        mask = np.all(self.qn_states == want.reshape(1, -1), axis=1)
        nrm = float(np.linalg.norm(d))
        if mp.is_mps:
            leak = float(np.linalg.norm(d[~mask]))
        else:
            leak = float(np.linalg.norm(d[~mask, :]))      # physical (row) index carries the charge of a purified state
        ok = ctx.check(leak <= 1e-10 * max(nrm, 1e-300), f"{what}|amplitude-outside-sector", leak=leak, norm=nrm,
                       trace=self.trace[-5:])
        ctx.count("label_checks")
        probs = states.check_labels(mp)
        ok2 = ctx.check(not probs, f"{what}|labels-do-not-describe-nonzero-blocks", problems=probs[:3], qnidx=mp.qnidx,
                        to_right=mp.to_right, trace=self.trace[-5:])
        return ok and ok2

    def operator(self, mpo, dense_op, what):
        ctx = self.ctx
        ctx.count("label_checks")
        q = np.asarray(mpo.qntot).reshape(-1)
        probs = states.check_labels(mpo)
        ctx.check(not probs, f"{what}|operator-labels-do-not-describe-nonzero-blocks", problems=probs[:3])
        mask = dense.op_sector_mask(self.gm.basis, q)
        bad = float(np.linalg.norm(np.where(mask, 0, dense_op)))
        ctx.check(bad <= 1e-10 * max(float(np.linalg.norm(dense_op)), 1e-300), f"{what}|operator-charge-differs-from-qntot",
                  qntot=q, off_sector_norm=bad)


def hostile_sector(rng, gm):
    """Sectors at the edge of the spectrum of the conserved numbers (all occupied / next to empty) or a random one."""
    q = dense.basis_qn(gm.basis)
    uniq, counts = np.unique(q, axis=0, return_counts=True)
    r = rng.random()
    if r < 0.35:
        order = np.lexsort(uniq.T[::-1])
        pick = order[[0, -1, min(1, len(order) - 1), max(len(order) - 2, 0)][int(rng.integers(0, 4))]]
        return uniq[pick].astype(int), True
    if r < 0.5:
        small = np.where(counts <= 2)[0]
        if len(small):
            return uniq[int(small[int(rng.integers(0, len(small)))])].astype(int), True
    return states.pick_sector(rng, gm), False


def lossless(m=10 ** 6):
    from renormalizer.utils import CompressConfig, CompressCriteria
    return CompressConfig(CompressCriteria.fixed, max_bonddim=m)


def charged_operator(ctx, gm, model, w, charge):
    from renormalizer.mps import Mpo
    rng = ctx.rng
    for _ in range(20):
        terms = gen.random_terms(rng, gm, int(rng.integers(1, 5)), target_charge=np.array(charge), allow_complex=False,
                                 complex_factors=False, decades=1)
        if not terms:
            continue
        d = dense.op_dense(gm.basis, terms)
        if np.linalg.norm(d) < 1e-8:
            continue
        mpo = ctx.lib(Mpo, model, terms, algo=["qr", "Hopcroft-Karp", "Hungarian"][int(rng.integers(0, 3))], what="Mpo",
                      refusals=("Cannot cast",))
        mpo.compress_config = lossless()
        ctx.cls("operator-labels")
        w.operator(mpo, d, "Mpo")
        return mpo, d
    return None, None


def run_case(ctx):
    if ctx.idx % 6 == 5:
        from rv.props import c06_tree
        return c06_tree.run_tree_case(ctx)
    from renormalizer.mps import Mpo, MpDm, Mps
    from renormalizer.mps.gs import optimize_mps
    from renormalizer.utils import CompressConfig, CompressCriteria, OptimizeConfig
    rng = ctx.rng
    qm = str(rng.choice(["one", "two"], p=[0.7, 0.3]))
    ctx.cls("qn-" + qm)
    signed = bool(qm == "one" and rng.random() < 0.12)
    if signed:
        em = evolve.hermitian_model(ctx, gm_factory=lambda r: gen.signed_spin_chain(r, nsite=(3, 7)))
    else:
        em = evolve.hermitian_model(ctx, nsite=(2, 6), max_dim=400, min_dim=6, qn_mode=qm)
    gm, model = em.gm, em.model
    qntot, extreme = hostile_sector(rng, gm)
    if signed and gen.zero_sector(gm) is not None and rng.random() < 0.7:
        qntot, extreme = gen.zero_sector(gm), False
        ctx.cls("sector:zero-with-signed-labels")
    if extreme:
        ctx.cls("sector:extreme")
    w = Watch(ctx, gm)
    sdim = states.sector_dim(gm, qntot)
    ctx.describe({"model": gm.describe(), "terms": gen.terms_describe(em.terms, 6), "sector": qntot.tolist(),
                  "sector_dim": sdim})
    w.operator(em.mpo, em.H, "Mpo(H)")
    # ---- constructors ---------------------------------------------------------------------------------
    pool = []
    for _ in range(int(rng.integers(1, 4))):
        mps = ctx.lib(states.random_state, ctx, gm, model, qntot, what="state-constructor", promised=False)
        mps.compress_config = lossless()
        if not w.state(mps, qntot, "constructor"):
            return
        pool.append(mps)
    if rng.random() < 0.3:
        # equal-weight sum of two basis states of the sector: Schmidt values that are bitwise equal in DIFFERENT symmetry
        # blocks (a Bell pair across the bonds where the two product states differ), then a lossless compression
        pa = ctx.lib(states.product_mps, rng, gm, model, qntot, superpose=False, what="product-state", promised=False)
        pb = ctx.lib(states.product_mps, rng, gm, model, qntot, superpose=False, what="product-state", promised=False)
        pb.move_qnidx(pa.qnidx)
        pb.to_right = pa.to_right
        bell = ctx.lib(pa.add, pb, what="add")
        if np.linalg.norm(bell.todense()) > 1e-8:
            bell.compress_config = lossless()
            ctx.cls("state:equal-weight-sum-of-basis-states")
            if w.state(bell, qntot, "add(equal-weights)"):
                cp = bell.copy()
                ctx.lib(cp.ensure_right_canonical if rng.random() < 0.5 else cp.ensure_left_canonical, what="ensure_canonical")
                w.state(cp, qntot, "ensure_canonical(equal-weights)")
                ctx.lib(cp.compress, what="compress(lossless)")
                w.state(cp, qntot, "compress(lossless,equal-weights)")
                ctx.close(states.dense_of(cp), states.dense_of(bell), 1e-10, "compress(lossless,equal-weights)|object-changed",
                          scale=max(float(np.linalg.norm(states.dense_of(bell))), 1e-300))
            pool.append(bell)
    nblocks = max(len({tuple(x) for x in np.asarray(q).tolist()}) for q in pool[0].qn)
    changed = False
    zero = np.zeros(gm.qn_size, dtype=int)
    nsteps = int(rng.integers(4, 10))
    for step in range(nsteps):
        a = pool[int(rng.integers(0, len(pool)))]
        qa = np.asarray(a.qntot).copy()
        op = int(rng.integers(0, 12))
        if op == 0:
            same = [p for p in pool if np.array_equal(p.qntot, a.qntot) and p.is_mps == a.is_mps]
            b = same[int(rng.integers(0, len(same)))]
            ctx.cls("op:add")
            res = ctx.lib(lambda: a + b.scale(float(rng.normal()) or 1.0), what="add")
            if np.linalg.norm(res.todense()) > 1e-8:
                w.state(res, qa, "add")
                pool.append(res)
                changed = True
        elif op == 1:
            k = int(rng.integers(0, a.site_num))
            cp = a.copy()
            cp.ensure_right_canonical() if rng.random() < 0.5 else cp.ensure_left_canonical()
            w.state(cp, qa, "ensure_canonical")
            if (cp.to_right and k >= cp.qnidx) or ((not cp.to_right) and k <= cp.qnidx):
                ctx.cls("op:canonicalise-stop")
                ctx.lib(cp.canonicalise, stop_idx=k, what="canonicalise(stop_idx)")
                w.state(cp, qa, "canonicalise(stop_idx)")
            pool.append(cp)
            changed = True
        elif op == 2:
            cp = a.copy()
            cp.ensure_right_canonical() if rng.random() < 0.5 else cp.ensure_left_canonical()
            mode = int(rng.integers(0, 4))
            if mode == 0:
                ctx.cls("op:compress-limit-1")
                cp.compress_config = lossless(1)
            elif mode == 1:
                cp.compress_config = lossless(max(1, max(cp.bond_dims) // 2))
            elif mode == 2:
                cp.compress_config = CompressConfig(CompressCriteria.threshold, threshold=float(rng.choice([0.5, 0.1, 1e-3])))
            else:
                cp.compress_config = CompressConfig(CompressCriteria.both, threshold=0.05, max_bonddim=max(1, max(cp.bond_dims) - 1))
            ctx.cls("op:compress-truncating")
            ctx.lib(cp.compress, what="compress")
            w.state(cp, qa, "compress(truncating)")
            cp.compress_config = lossless()
            pool.append(cp)
            changed = True
        elif op in (3, 4):
            ch = [tuple(so.charge.tolist()) for cat in gm.catalog for so in cat if np.any(so.charge != 0)]
            if not ch:
                continue
            charge = np.array(ch[int(rng.integers(0, len(ch)))])
            o, d = charged_operator(ctx, gm, model, w, charge)
            if o is None:
                continue
            if op == 4:
                ctx.cls("op:conj_trans-apply")
                o = ctx.lib(o.conj_trans, what="conj_trans")
                d = d.conj().T
                w.operator(o, d, "conj_trans")
                charge = -charge
            target = a
            if not a.is_mps:
                continue
            ref = d @ np.asarray(a.todense())
            if np.linalg.norm(ref) < 1e-9 * np.linalg.norm(d) * max(np.linalg.norm(a.todense()), 1e-300):
                continue
            ctx.cls("op:apply-charged")
            if rng.random() < 0.5:
                # the operator in another gauge (centre not on the last site, one or two sweeps, complex dtype ...)
                tr = []
                ctx.lib(states.gauge_history, rng, o, 2, tr, allow_coeff=False, what="gauge-history-mpo")
                ctx.cls("op:operator-gauge-changed")
                w.operator(o, d, "Mpo+gauge")
            res = ctx.lib(o.apply, target, what="apply(charged)")
            if w.state(res, qa + charge, "apply(charged)"):
                cp = res.copy()
                cp.ensure_left_canonical()
                w.state(cp, qa + charge, "apply(charged)+canonicalise")
            pool.append(res)
            changed = True
        elif op == 5:
            if not a.is_mps or gm.dim > 64:
                continue
            ctx.cls("op:mpdm")
            dm = ctx.lib(MpDm.from_mps, a, what="MpDm.from_mps")
            dm.compress_config = lossless()
            w.state(dm, qa, "MpDm.from_mps")
            res = ctx.lib(em.mpo.apply, dm, what="Mpo.apply(MpDm)")
            if np.linalg.norm(res.todense()) > 1e-8:
                w.state(res, qa, "Mpo.apply(MpDm)")
                cp = res.copy()
                cp.ensure_right_canonical()
                w.state(cp, qa, "Mpo.apply(MpDm)+canonicalise")
        elif op in (6, 7):
            if not a.is_mps or not np.array_equal(qa, qntot) or sdim < 2:
                continue
            method = "1site" if op == 6 else "2site"
            ctx.cls("op:dmrg-" + method)
            start = a.copy()
            if em.mpo.is_complex:
                start.to_complex(inplace=True)      # (a real guess with a complex Hamiltonian is C08's business)
            m = int(max(2, min(8, max(start.bond_dims) + 1)))
            start.optimize_config = OptimizeConfig(procedure=[[m, 0.4], [m, 0.2], [m, 0.0]])
            start.optimize_config.method = method
            start.compress_config = lossless(m)
            env.reseed_global(rng)
            energies, gs = ctx.lib(optimize_mps, start, em.mpo, what=f"optimize_mps|{method}")
            w.state(gs, qa, f"optimize_mps|{method}")
            changed = True
        else:
            if not a.is_mps:
                continue
            sc = evolve.scheme_list()[int(rng.integers(0, len(evolve.scheme_list())))]
            imag = bool(rng.random() < 0.3 and sc.imag_ok and not sc.name.startswith("pc-tdrk-"))
            src = a
            if sc.family in ("vmf", "cmf"):
                # the matrix-unfolding schemes invert overlap matrices: redundant (zero-weight) bond directions, as sums
                # leave them, are a documented limitation (8.2) - removed by a lossless compression to the Schmidt ranks
                src = a.copy()
                src.compress_config = lossless()
                src.ensure_right_canonical()
                vec = np.asarray(states.dense_of(src)).reshape(-1)
                ranks = [1] + [max(1, dense.schmidt_rank(vec, gm.dims, c, rtol=1e-10)) for c in range(1, len(gm.dims))] + [1]
                src.compress(temp_m_trunc=ranks)
                src.canonicalise()
                if max(src.bond_dims) > 24:
                    continue
            if sc.family == "pc":
                v = np.asarray(src.todense())
                if min(np.linalg.norm(em.H @ v), np.linalg.norm(em.H @ (em.H @ v))) <= 1e-12 * max(np.linalg.norm(v), 1e-300):
                    # the zero state cannot be canonicalised: open finding of C09, not re-observed here
                    ctx.cls("observed:state-annihilated-by-H(pc-skipped)")
                    continue
            ctx.cls("op:evolve-imag" if imag else "op:evolve", "family:" + sc.family)
            dt = (0.3 / em.hnorm) * (-1j if imag else 1.0)
            res = evolve.run_step(ctx, sc, src, em.mpo, dt, normalize=bool(rng.random() < 0.5), what=f"evolve|{sc.family}")
            w.state(res, qa, f"evolve|{sc.family}|{'imag' if imag else 'real'}")
            if len(pool) < 6 and max(res.bond_dims) <= 32:
                res.compress_config = lossless()
                pool.append(res)
            changed = True
        if ctx.violations:
            break
        if len(pool) > 7:
            pool.pop(int(rng.integers(0, len(pool))))
    if nblocks >= 2 and changed:
        ctx.nontrivial({"model": gm.describe(), "sector": qntot.tolist(), "trace": w.trace})
