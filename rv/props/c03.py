"""C03 - state and operator arithmetic agrees with dense linear algebra in any gauge."""
import numpy as np

from rv import dense, gen, states

ID = "C03"
LEVEL = "exploration"
RULE = ("One case = one history of 4..12 arithmetic operations over a pool of 2..4 states of one symmetry sector "
        "(Mps.random / product states / sums, each with its own gauge history: canonicalised left/right/twice, "
        "lossless compress, centre moved to any site, complex phase rotation, scalar prefactor) and 1..3 operators "
        "built by Mpo(...) with definite charge (zero and non-zero). Operations: add, sub, scale (real, negative, "
        "complex), conj, copy, Mpo.apply / @ on Mps, Mpo and MpDm, MpDm.apply, Mpo.contract (lossless), "
        "conj_trans, dot, angle, distance, mp_norm, norm, expectation. After every state-producing step the result "
        "is compared with the same operation on the dense operands, immediately and again after a copy of it has "
        "been canonicalised / compressed without truncation. Non-trivial: history with a binary operation whose "
        "operands differ in centre or sweep direction, or that involves a charged operator; distinct by hash of "
        "the model + operation/gauge trace.")
ASSUMPTIONS = [
    "dense reference = todense() * coeff for states, todense() for operators; relative tolerance 1e-10 * (product of operand norms)",
    "dot, angle, mp_norm, expectation are tensor-level quantities (coeff is a separate prefactor); norm = |coeff| * mp_norm; "
    "distance folds differing prefactors into the tensors, and with equal prefactors is the tensor-level distance (1e-7 absolute slack for cancellation)",
    "prod(d) <= 400; operators restricted to definite charge so that the stored total charge is meaningful",
    "operands of add/sub are taken from the same sector (the library asserts equal qntot)",
]


def plan(tier):
    base = {"case_time_limit": 180,
            "required_classes": ["add:centres-differ", "add:direction-differs", "apply:charged-operator",
                                 "conj_trans:charged-then-apply", "add:coeffs-differ", "distance:coeffs-differ",
                                 "complex-with-real", "mpdm", "post:canonicalised", "long-chain",
                                 "sector:zero-with-signed-labels", "amplitude:tiny", "amplitude:huge",
                                 "prefactors:tiny-and-different", "distance:equal-prefactors-not-one",
                                 "normalize:mps_only", "normalize:mps_and_coeff", "normalize:mps_norm_to_coeff", "matrix-object"],
            "required_counters": {"oracle": 2000}}
    if tier == "quick":
        base.update({"ncases": 320, "min_nontrivial": 120})
    else:
        base.update({"ncases": 25000, "min_nontrivial": 12000, "required_counters": {"oracle": 200000}})
    return base


class Obj:
    __slots__ = ("mp", "ref", "kind", "trace", "scale")

    def __init__(self, mp, ref, kind, trace):
        self.mp, self.ref, self.kind, self.trace = mp, np.asarray(ref), kind, trace
        self.scale = None      # norm scale of the operands the object was computed from (set by compare)


def lossless_cfg():
    from renormalizer.utils import CompressConfig, CompressCriteria
    return CompressConfig(CompressCriteria.fixed, max_bonddim=10 ** 6)


def charged_choices(gm):
    out = {tuple([0] * gm.qn_size)}
    for cat in gm.catalog:
        for so in cat:
            out.add(tuple(so.charge.tolist()))
    return sorted(out)


def make_operator(ctx, gm, model, charge=None):
    from renormalizer.mps import Mpo
    rng = ctx.rng
    if charge is None:
        ch = charged_choices(gm)
        charge = ch[int(rng.integers(0, len(ch)))] if rng.random() < 0.5 else tuple([0] * gm.qn_size)
    complex_factors = rng.random() < 0.3
    for _ in range(20):
        terms = gen.random_terms(rng, gm, int(rng.integers(1, 7)), target_charge=np.array(charge),
                                 allow_complex=complex_factors, complex_factors=complex_factors, decades=1)
        if not terms:
            continue
        ref = dense.op_dense(gm.basis, terms)
        if np.linalg.norm(ref) < 1e-8:
            continue
        algo = ["qr", "Hopcroft-Karp", "Hungarian"][int(rng.integers(0, 3))]
        mpo = ctx.lib(Mpo, model, terms, algo=algo, what="Mpo", refusals=("Cannot cast",))
        mpo.compress_config = lossless_cfg()
        tr = [f"Mpo(charge={list(charge)},algo={algo},nterms={len(terms)})"]
        return Obj(mpo, ref, "mpo", tr), gen.terms_describe(terms, 6)
    return None, None


def rep_floor(mp):
    """Rounding floor of the REPRESENTATION: products of site tensors are evaluated in floating point, so anything computed
    from the object carries an error of order eps * prod ||T_i|| * |coeff| - far below 1e-10 of its norm for a well
    conditioned representation, but not for a difference of nearly equal states (tensors O(1), represented norm 1e-13)."""
    p = 1.0
    for i in range(mp.site_num):
        p *= max(float(np.linalg.norm(np.asarray(mp[i].array))), 1e-300)
    return 1e4 * np.finfo(float).eps * p * abs(complex(getattr(mp, "coeff", 1.0)))


def escale(o):
    """Error scale a pool member carries: its own norm, or the scale of the operands it was computed from when that is
    larger (a product that nearly annihilates, a sum that cancels): rounding errors of everything derived from it are
    relative to this scale, not to its norm."""
    return max(float(np.linalg.norm(o.ref)), float(o.scale or 0.0))


def post_check(ctx, obj, what):
    """The result must stay correct when a copy of it is canonicalised / compressed without truncation."""
    rng = ctx.rng
    cp = obj.mp.copy()
    cp.compress_config = lossless_cfg()
    op = ["ensure_left", "ensure_right", "canonicalise_twice", "lossless_compress"][int(rng.integers(0, 4))]
    ctx.lib(states.apply_gauge, rng, cp, op, what=f"{what}|post-{op}")
    ctx.cls("post:canonicalised")
    ctx.count("oracle")
    scale = max(float(np.linalg.norm(obj.ref)), obj.scale or 0.0, 1e-300, 1e10 * rep_floor(obj.mp))
    ctx.close(states.dense_of(cp), obj.ref, 1e-10, f"{what}|wrong-after-canonicalise", scale=scale, post=op,
              trace=obj.trace[-6:])


def compare(ctx, obj, what, scale=None):
    ctx.count("oracle")
    if scale is None:
        scale = max(float(np.linalg.norm(obj.ref)), obj.scale or 0.0, 1e-300)
    obj.scale = max(scale, obj.scale or 0.0)
    scale = max(scale, 1e10 * rep_floor(obj.mp))
    return ctx.close(states.dense_of(obj.mp), obj.ref, 1e-10, f"{what}|dense-mismatch", scale=scale,
                     trace=obj.trace[-6:])


def documented_real_if_negligible(got, want):
    """`expectation` documents: "returns a float if the imaginary part is negligible" and decides with
    np.isclose(imag, 0), i.e. |imag| <= 1e-8 ABSOLUTE.  A float result is therefore compared with the real part of the
    reference whenever the reference's imaginary part is within that documented rule (matters for tiny amplitudes)."""
    if not np.iscomplexobj(got) and abs(np.imag(want)) <= 1e-8:
        return complex(got), complex(np.real(want))
    return complex(got), complex(want)


def matrix_case(ctx):
    """The site-tensor wrapper by itself (every MatrixProduct operation goes through it): arithmetic, reshapes and helpers
    against plain numpy on the same data; results own their data where the wrapper promises a copy."""
    from renormalizer.mps import matrix as M
    rng = ctx.rng
    ctx.cls("matrix-object")
    shape = tuple(int(x) for x in rng.integers(1, 5, size=int(rng.choice([3, 4]))))
    cplx = bool(rng.random() < 0.5)

    def rnd(sh):
        a = rng.normal(size=sh)
        return a + 1j * rng.normal(size=sh) if cplx else a
    a, b = rnd(shape), rnd(shape)
    A, B = M.Matrix(a.copy()), M.Matrix(b.copy())
    c = complex(0.3, -1.2) if rng.random() < 0.5 else -0.7

    def same(got, want, what):
        ctx.count("oracle")
        g = np.asarray(got.array if isinstance(got, M.Matrix) else got)
        ok = g.shape == np.asarray(want).shape and np.allclose(g, want, rtol=1e-14, atol=1e-14)
        ctx.check(ok, "Matrix|" + what + "|differs-from-numpy", shape=list(shape), complex=cplx)
    same(ctx.lib(lambda: A + B, what="Matrix.__add__"), a + b, "add")
    same(ctx.lib(lambda: a + B, what="Matrix.__radd__") if False else ctx.lib(lambda: 2.0 + B, what="Matrix.__radd__"), 2.0 + b, "radd")
    same(ctx.lib(lambda: A * B, what="Matrix.__mul__"), a * b, "mul")
    same(ctx.lib(lambda: A * c, what="Matrix.__mul__"), a * c, "mul-scalar")
    same(ctx.lib(lambda: c * A, what="Matrix.__rmul__"), c * a, "rmul-scalar")
    same(ctx.lib(lambda: A / 3.0, what="Matrix.__truediv__"), a / 3.0, "div")
    same(ctx.lib(A.abs, what="Matrix.abs"), np.abs(a), "abs")
    same(ctx.lib(A.conj, what="Matrix.conj"), a.conj(), "conj")
    same(ctx.lib(A.norm, what="Matrix.norm"), np.linalg.norm(a.ravel()), "norm")
    same(ctx.lib(A.l_combine, what="Matrix.l_combine"), a.reshape(-1, shape[-1]), "l_combine")
    same(ctx.lib(A.r_combine, what="Matrix.r_combine"), a.reshape(shape[0], -1), "r_combine")
    ctx.count("oracle", 4)
    ctx.check(tuple(A.pdim) == shape[1:-1] and tuple(A.bond_dim) == (shape[0], shape[-1]) and int(A.pdim_prod) == int(np.prod(shape[1:-1])),
              "Matrix|shape-accessors")
    ctx.check(bool(M.zeros(shape).nearly_zero()) and not bool(A.nearly_zero()) and not bool(M.Matrix(np.full(shape, 1e-9)).nearly_zero()),
              "Matrix|nearly_zero")
    ctx.check(hash(A) == hash(M.Matrix(a.copy())) and hash(A) != hash(B), "Matrix|hash-is-not-a-function-of-the-data")
    axes = [int(x) for x in rng.permutation(len(shape))]
    same(ctx.lib(M.moveaxis, A, list(range(len(shape))), axes, what="matrix.moveaxis"), np.moveaxis(a, list(range(len(shape))), axes), "moveaxis")
    same(ctx.lib(M.tensordot, A, M.Matrix(b.T.copy()) if False else B, ([0], [0]), what="matrix.tensordot"), np.tensordot(a, b, ([0], [0])), "tensordot")
    same(ctx.lib(M.einsum, "i...,i...->...", A, B, what="matrix.einsum"), np.einsum("i...,i...->...", a, b), "einsum")
    a2, b2 = rnd((2, 3)), rnd((4, 3))
    same(ctx.lib(M.vstack, [M.Matrix(a2), M.Matrix(b2)], what="matrix.vstack"), np.vstack([a2, b2]), "vstack")
    for name, fn, ref in (("zeros", M.zeros, np.zeros), ("ones", M.ones, np.ones)):
        z = ctx.lib(fn, shape, what="matrix." + name)
        same(z, ref(shape), name)
    same(ctx.lib(M.eye, 3, 4, what="matrix.eye"), np.eye(3, 4), "eye")
    # copies own their data
    cp = ctx.lib(A.copy, what="Matrix.copy")
    tc = ctx.lib(A.to_complex, what="Matrix.to_complex")
    cp.array[...] = 0
    np.asarray(tc)[...] = 0
    same(A, a, "copy-or-to_complex-shares-memory-with-the-original")
    ctx.nontrivial(("matrix", shape, cplx))


def run_case(ctx):
    if ctx.idx % 40 == 13:
        return matrix_case(ctx)
    from renormalizer.mps import MpDm
    rng = ctx.rng
    gm = gen.random_basis_list(rng, nsite=(2, 6), max_dim=400, qn_mode=rng.choice(["none", "one", "two"], p=[0.25, 0.55, 0.2]),
                               min_dim=4)
    if rng.random() < 0.05:
        gm = gen.long_chain(rng, 10, 10)
        ctx.cls("long-chain")
    if rng.random() < 0.06:
        gm = gen.signed_spin_chain(rng, nsite=(3, 7))
    model = states.model_of(gm)
    qntot = states.pick_sector(rng, gm)
    if gm.desc.get("signed") and gen.zero_sector(gm) is not None:
        qntot = gen.zero_sector(gm)
        ctx.cls("sector:zero-with-signed-labels")
    ctx.cls("qn-" + gm.desc["qn_mode"])
    pool = []
    full_trace = []
    amp = 1.0
    if rng.random() < 0.15:
        # tiny / huge amplitudes carried by the tensors (every tolerance of the check is relative to the operands)
        amp = float(rng.choice([1e-6, 1e-4, 1e5]))
        ctx.cls("amplitude:tiny" if amp < 1 else "amplitude:huge")
    tiny_coeff = bool(rng.random() < 0.08)
    if tiny_coeff:
        ctx.cls("prefactors:tiny-and-different")
    for _ in range(int(rng.integers(2, 5))):
        mps = ctx.lib(states.random_state, ctx, gm, model, qntot, what="state-constructor", promised=False)
        mps.compress_config = lossless_cfg()
        if amp != 1.0:
            mps.scale(amp, inplace=True)
        if tiny_coeff:
            mps.coeff = mps.coeff * float(rng.choice([1e-9, 3e-9, 5e-9]))
        ref = states.dense_of(mps)
        tr = ["state"]
        f = ctx.lib(states.gauge_history, rng, mps, 4, tr, what="gauge-history")
        o = Obj(mps, ref * f, "mps", tr)
        if not compare(ctx, o, "gauge-history"):
            return
        pool.append(o)
    ops = []
    op_desc = []
    for _ in range(int(rng.integers(1, 4))):
        o, d = make_operator(ctx, gm, model)
        if o is not None:
            if amp != 1.0 and rng.random() < 0.5:
                o.mp.scale(amp, inplace=True)
                o.ref = o.ref * amp
                o.trace.append(f"scale({amp})")
            if rng.random() < 0.5:
                f = ctx.lib(states.gauge_history, rng, o.mp, 2, o.trace, allow_coeff=False, what="gauge-history-mpo")
                if not compare(ctx, o, "gauge-history-mpo"):
                    return
            ops.append(o)
            op_desc.append(d)
    ctx.describe({"model": gm.describe(), "sector": qntot.tolist(), "operators": op_desc,
                  "initial": [o.trace for o in pool]})
    nontrivial = False
    nsteps = int(rng.integers(4, 13))
    menu = ["add", "sub", "scale", "conj", "copy", "apply", "matmul", "contract", "scalars", "conj_trans", "mpo_mpo",
            "mpdm", "gauge", "mpo_add", "normalize"]
    for step in range(nsteps):
        kind = menu[int(rng.integers(0, len(menu)))]
        states_pool = [o for o in pool if o.kind == "mps"]
        if not states_pool:
            break
        a = states_pool[int(rng.integers(0, len(states_pool)))]
        new = None
        what = kind
        if kind in ("add", "sub"):
            same = [o for o in states_pool if np.array_equal(o.mp.qntot, a.mp.qntot)]
            b = same[int(rng.integers(0, len(same)))]
            if b is a:
                b = Obj(a.mp.copy(), a.ref.copy(), "mps", a.trace + ["copy"])
                states.gauge_history(rng, b.mp, 2, b.trace, allow_coeff=True) if False else None
            if a.mp.qnidx != b.mp.qnidx:
                ctx.cls("add:centres-differ")
                nontrivial = True
            if a.mp.to_right != b.mp.to_right:
                ctx.cls("add:direction-differs")
                nontrivial = True
            if not np.allclose(a.mp.coeff, b.mp.coeff):
                ctx.cls("add:coeffs-differ")
            if a.mp.is_complex != b.mp.is_complex:
                ctx.cls("complex-with-real")
            if kind == "add":
                res = ctx.lib(lambda: a.mp + b.mp if rng.random() < 0.5 else a.mp.add(b.mp), what="add")
                ref = a.ref + b.ref
            else:
                res = ctx.lib(lambda: a.mp - b.mp, what="sub")
                ref = a.ref - b.ref
            new = Obj(res, ref, "mps", [f"{kind}(c{a.mp.qnidx}{'R' if a.mp.to_right else 'L'},c{b.mp.qnidx}{'R' if b.mp.to_right else 'L'})"])
            # operands keep representing the same vectors (prefactor folding is a gauge change)
            for o in (a, b):
                compare(ctx, o, f"{kind}|operand-changed")
            scale = max(np.linalg.norm(a.ref) + np.linalg.norm(b.ref), escale(a), escale(b), 1e-300)
            ok = compare(ctx, new, kind, scale=scale)
            if np.linalg.norm(ref) < 1e-9 * scale:
                new = None     # complete cancellation: nothing to canonicalise
            elif ok:
                new.trace = a.trace[-2:] + b.trace[-2:] + new.trace
        elif kind == "scale":
            val = [2.5, -0.7, complex(0.3, -1.1), 1.0, np.float64(0.5), -1.0][int(rng.integers(0, 6))]
            target = a if rng.random() < 0.7 or not ops else ops[int(rng.integers(0, len(ops)))]
            if rng.random() < 0.5 and isinstance(val, (float, complex)) and not isinstance(val, np.floating):
                res = ctx.lib(lambda: val * target.mp if rng.random() < 0.5 else target.mp * val, what="scale-operator")
            else:
                res = ctx.lib(target.mp.scale, val, what="scale")
            new = Obj(res, target.ref * val, target.kind, target.trace[-3:] + [f"scale({val})"])
            compare(ctx, target, "scale|operand-changed")
            compare(ctx, new, "scale", scale=max(abs(val) * escale(target), 1e-300))
        elif kind == "conj":
            res = ctx.lib(a.mp.conj, what="conj")
            new = Obj(res, a.ref.conj(), "mps", a.trace[-3:] + ["conj"])
            compare(ctx, new, "conj", scale=max(escale(a), 1e-300))
        elif kind == "copy":
            res = ctx.lib(a.mp.copy, what="copy")
            new = Obj(res, a.ref.copy(), "mps", a.trace[-3:] + ["copy"])
            compare(ctx, new, "copy", scale=max(escale(a), 1e-300))
            ctx.check(np.array_equal(res.qntot, a.mp.qntot) and res.qnidx == a.mp.qnidx and res.to_right == a.mp.to_right,
                      "copy|metadata-differs")
        elif kind in ("apply", "matmul", "contract") and ops:
            o = ops[int(rng.integers(0, len(ops)))]
            charged = bool(np.any(np.asarray(o.mp.qntot) != 0))
            if charged:
                ctx.cls("apply:charged-operator")
                nontrivial = True
            if o.mp.qnidx != a.mp.qnidx:
                ctx.cls("apply:centres-differ")
                nontrivial = True
            if any("conj_trans" in t for t in o.trace) and charged:
                ctx.cls("conj_trans:charged-then-apply")
            if o.mp.is_complex != a.mp.is_complex:
                ctx.cls("complex-with-real")
            ref = o.ref @ a.ref
            scale = max(float(np.linalg.norm(o.ref) * escale(a)), 1e-300)
            if np.linalg.norm(ref) < 1e-9 * float(np.linalg.norm(o.ref) * np.linalg.norm(a.ref)):
                ctx.cls("apply:annihilated")
                continue
            # (canonicalise() moves the centre to the start of its sweep itself since the repair 81e9b69: contract and
            # apply(canonicalise=True) are requested for operands with the centre anywhere)
            at_boundary = (a.mp.to_right and a.mp.qnidx == 0) or ((not a.mp.to_right) and a.mp.qnidx == a.mp.site_num - 1)
            if not at_boundary and kind in ("contract", "apply"):
                ctx.cls(kind + ":centre-inside-the-chain")
            if kind == "apply":
                res = ctx.lib(o.mp.apply, a.mp, canonicalise=bool(rng.random() < 0.4), what="Mpo.apply")
            elif kind == "matmul":
                res = ctx.lib(lambda: o.mp @ a.mp, what="Mpo.__matmul__")
            else:
                res = ctx.lib(o.mp.contract, a.mp, what="Mpo.contract")
            new = Obj(res, ref, "mps", a.trace[-2:] + o.trace[-2:] + [kind])
            want_q = np.asarray(a.mp.qntot) + np.asarray(o.mp.qntot)
            ctx.check(np.array_equal(np.asarray(res.qntot), want_q), f"{kind}|total-charge-not-added",
                      got=np.asarray(res.qntot), want=want_q, operator_trace=o.trace[-3:])
            compare(ctx, a, f"{kind}|operand-changed")
            # the canonicalisation inside contract / apply(canonicalise=True) works on the operand's REPRESENTATION: a sum of
            # states whose tiny prefactors were folded into different sites has tensors of order one for a vector of 1e-9,
            # and its QR loses those digits (rounding floor of the operand times the norms of the operator tensors)
            p_o = 1.0
            for i in range(o.mp.site_num):
                p_o *= max(float(np.linalg.norm(np.asarray(o.mp[i].array))), 1e-300)
            compare(ctx, new, kind, scale=max(scale, 1e10 * rep_floor(a.mp) * p_o))
        elif kind == "scalars":
            same = [o for o in states_pool if np.array_equal(o.mp.qntot, a.mp.qntot)]
            b = same[int(rng.integers(0, len(same)))]
            ta = np.asarray(a.mp.todense())
            tb = np.asarray(b.mp.todense())
            kappa = max(rep_floor(x.mp) / (1e4 * np.finfo(float).eps) / max(float(np.linalg.norm(x.ref)), 1e-300) for x in (a, b))
            if kappa > 1e6:
                # a difference of nearly equal states: tensors of order one represent a vector that is smaller by > 1e6; every
                # contraction of such an object loses that many digits - an input the harness made, not a library matter
                ctx.cls("ill-conditioned-representation:scalars-skipped")
                continue
            fa = 1e10 * rep_floor(a.mp) / max(abs(complex(a.mp.coeff)), 1e-300)      # tensor-level rounding floors
            fb = 1e10 * rep_floor(b.mp) / max(abs(complex(b.mp.coeff)), 1e-300)
            na = max(float(np.linalg.norm(ta)), fa, float(a.scale or 0.0) / max(abs(complex(a.mp.coeff)), 1e-300))
            nb = max(float(np.linalg.norm(tb)), fb, float(b.scale or 0.0) / max(abs(complex(b.mp.coeff)), 1e-300))
            sc = max(na * nb, 1e-300)
            ctx.count("oracle", 4)
            ctx.close(ctx.lib(a.mp.dot, b.mp, what="dot"), np.sum(ta * tb), 1e-10, "dot|mismatch", scale=sc)
            ctx.close(ctx.lib(a.mp.angle, b.mp, what="angle"), abs(np.vdot(ta, tb)), 1e-10, "angle|mismatch", scale=sc)
            # (the norm is the square root of a contraction: its floor is the geometric mean of the floor and the value)
            ctx.close(a.mp.mp_norm, np.linalg.norm(ta), 1e-10, "mp_norm|mismatch", scale=max(na, 1e-300))
            ctx.close(a.mp.norm, abs(a.mp.coeff) * np.linalg.norm(ta), 1e-10, "norm|mismatch",
                      scale=max(abs(a.mp.coeff) * na, 1e-300))
            if b is not a:
                differ = not np.allclose(a.mp.coeff, b.mp.coeff)
                if differ:
                    ctx.cls("distance:coeffs-differ")
                elif abs(abs(complex(a.mp.coeff)) - 1) > 1e-6:
                    ctx.cls("distance:equal-prefactors-not-one")
                # the distance of the represented vectors (prefactors included), whatever the library does internally
                want = np.linalg.norm(a.ref - b.ref)
                got = ctx.lib(a.mp.distance, b.mp, what="distance")
                ctx.count("oracle")
                # (scaled by the represented vectors only: how the library splits a state into tensors and prefactor must not
                # enter the tolerance - with prefactors of 1e-9 the tensor norms would make the check vacuous)
                nrm = max(np.linalg.norm(a.ref), np.linalg.norm(b.ref), float(a.scale or 0.0), float(b.scale or 0.0))
                # dis^2 is computed as l1 + l2 - 2 Re<a|b>: absolute error ~ eps * nrm^2 on the square
                tol = 1e-7 * nrm
                ctx.check(abs(got - want) <= tol or abs(got ** 2 - want ** 2) <= 1e-12 * nrm ** 2, "distance|mismatch",
                          got=got, want=want, coeffs_differ=differ)
                for o in (a, b):
                    compare(ctx, o, "distance|operand-changed")
            if ops:
                o = ops[int(rng.integers(0, len(ops)))]
                # distance() may have folded the prefactors into the tensors: tensor-level vectors are re-read
                ta = np.asarray(a.mp.todense())
                tb = np.asarray(b.mp.todense())
                # (bilinear contractions of the representations: their rounding floors - rep_floor, below the condition gate of
                # 1e6 - and the error scales the operands inherited enter like in dot / mp_norm above)
                ca, cb = max(abs(complex(a.mp.coeff)), 1e-300), max(abs(complex(b.mp.coeff)), 1e-300)
                na2 = max(float(np.linalg.norm(ta)), 1e10 * rep_floor(a.mp) / ca, float(a.scale or 0.0) / ca)
                nb2 = max(float(np.linalg.norm(tb)), 1e10 * rep_floor(b.mp) / cb, float(b.scale or 0.0) / cb)
                sc = max(na2 * nb2, 1e-300)
                if True:
                    got = ctx.lib(a.mp.expectation, o.mp, what="expectation")
                    want = np.vdot(ta, o.ref @ ta)
                    ctx.count("oracle")
                    ctx.close(*documented_real_if_negligible(got, want), 1e-10,
                              "expectation|mismatch", scale=max(float(na2 ** 2 * np.linalg.norm(o.ref)), 1e-300))
                    got2 = ctx.lib(a.mp.expectation, o.mp, b.mp.conj(), what="expectation(bra)")
                    want2 = np.vdot(tb, o.ref @ ta)
                    ctx.count("oracle")
                    ctx.close(*documented_real_if_negligible(got2, want2), 1e-10, "transition-amplitude|mismatch", scale=sc * max(float(np.linalg.norm(o.ref)), 1e-300))
            continue
        elif kind == "conj_trans" and ops:
            o = ops[int(rng.integers(0, len(ops)))]
            res = ctx.lib(o.mp.conj_trans, what="conj_trans")
            newo = Obj(res, o.ref.conj().T, "mpo", o.trace[-3:] + ["conj_trans"])
            compare(ctx, newo, "conj_trans")
            if np.any(np.asarray(o.mp.qntot) != 0):
                nontrivial = True
                ctx.cls("conj_trans:charged")
            ctx.check(np.array_equal(np.asarray(res.qntot), -np.asarray(o.mp.qntot)), "conj_trans|total-charge-not-negated",
                      got=np.asarray(res.qntot), want=-np.asarray(o.mp.qntot))
            ops.append(newo)
            if rng.random() < 0.6:
                post_check(ctx, newo, "conj_trans")
            continue
        elif kind == "mpo_mpo" and len(ops) >= 1:
            o1 = ops[int(rng.integers(0, len(ops)))]
            o2 = ops[int(rng.integers(0, len(ops)))]
            ref = o1.ref @ o2.ref
            scale = max(float(np.linalg.norm(o1.ref) * np.linalg.norm(o2.ref)), 1e-300)
            if np.linalg.norm(ref) < 1e-9 * scale or max(o1.mp.bond_dims) * max(o2.mp.bond_dims) > 200:
                continue
            res = ctx.lib(lambda: o1.mp @ o2.mp, what="Mpo@Mpo")
            newo = Obj(res, ref, "mpo", o1.trace[-2:] + o2.trace[-2:] + ["mpo@mpo"])
            if np.any(np.asarray(o1.mp.qntot) != 0) or np.any(np.asarray(o2.mp.qntot) != 0):
                nontrivial = True
            ctx.check(np.array_equal(np.asarray(res.qntot), np.asarray(o1.mp.qntot) + np.asarray(o2.mp.qntot)),
                      "mpo@mpo|total-charge-not-added")
            compare(ctx, newo, "mpo@mpo", scale=scale)
            if len(ops) < 6:
                ops.append(newo)
            if rng.random() < 0.6:
                post_check(ctx, newo, "mpo@mpo")
            continue
        elif kind == "mpo_add" and len(ops) >= 2:
            o1 = ops[int(rng.integers(0, len(ops)))]
            same = [o for o in ops if np.array_equal(o.mp.qntot, o1.mp.qntot)]
            o2 = same[int(rng.integers(0, len(same)))]
            ref = o1.ref + o2.ref
            scale = max(float(np.linalg.norm(o1.ref) + np.linalg.norm(o2.ref)), 1e-300)
            if np.linalg.norm(ref) < 1e-9 * scale:
                continue
            if o1.mp.qnidx != o2.mp.qnidx:
                ctx.cls("add:centres-differ")
                nontrivial = True
            res = ctx.lib(o1.mp.add, o2.mp, what="Mpo.add")
            newo = Obj(res, ref, "mpo", o1.trace[-2:] + o2.trace[-2:] + ["mpo+mpo"])
            compare(ctx, newo, "mpo+mpo", scale=scale)
            if len(ops) < 6:
                ops.append(newo)
            if rng.random() < 0.6:
                post_check(ctx, newo, "mpo+mpo")
            continue
        elif kind == "mpdm":
            ctx.cls("mpdm")
            dm = ctx.lib(MpDm.from_mps, a.mp, what="MpDm.from_mps")
            d = Obj(dm, np.diag(a.ref), "mpdm", a.trace[-2:] + ["MpDm.from_mps"])
            compare(ctx, d, "MpDm.from_mps")
            zero_ops = [o for o in ops]
            if zero_ops:
                o = zero_ops[int(rng.integers(0, len(zero_ops)))]
                sc = max(float(np.linalg.norm(o.ref) * np.linalg.norm(d.ref)), 1e-300)
                if rng.random() < 0.5:
                    ref = o.ref @ d.ref
                    if np.linalg.norm(ref) > 1e-9 * sc:
                        res = ctx.lib(o.mp.apply, dm, what="Mpo.apply(MpDm)")
                        nd = Obj(res, ref, "mpdm", d.trace[-2:] + ["O@rho"])
                        compare(ctx, nd, "Mpo.apply(MpDm)", scale=sc)
                        ctx.check(np.array_equal(np.asarray(res.qntot), np.asarray(a.mp.qntot) + np.asarray(o.mp.qntot)),
                                  "Mpo.apply(MpDm)|total-charge-not-added")
                        if rng.random() < 0.7:
                            post_check(ctx, nd, "Mpo.apply(MpDm)")
                elif not np.any(np.asarray(o.mp.qntot) != 0):
                    ref = d.ref @ o.ref
                    if np.linalg.norm(ref) > 1e-9 * sc:
                        res = ctx.lib(dm.apply, o.mp, what="MpDm.apply")
                        nd = Obj(res, ref, "mpdm", d.trace[-2:] + ["rho@O"])
                        compare(ctx, nd, "MpDm.apply", scale=sc)
                        if rng.random() < 0.7:
                            post_check(ctx, nd, "MpDm.apply")
            continue
        elif kind == "normalize":
            # the three documented ways to split the norm between the tensors and the prefactor
            nk = ["mps_only", "mps_and_coeff", "mps_norm_to_coeff"][int(rng.integers(0, 3))]
            cp = a.mp.copy()
            c0 = complex(cp.coeff)
            n0 = float(np.linalg.norm(a.ref))
            if n0 <= 1e-200 or abs(c0) <= 1e-200:
                continue
            if rep_floor(a.mp) / (1e4 * np.finfo(float).eps) / n0 > 1e6:
                # (as for the scalars below: the norm is a contraction of the representation, and tensors of order one that
                # represent a vector smaller by > 1e6 - a harness-made difference of nearly equal states, or a gauge that mixes
                # summands of very different weight - leave it no digits)
                ctx.cls("ill-conditioned-representation:normalize-skipped")
                continue
            res = ctx.lib(cp.normalize, nk, what="normalize|" + nk)
            ctx.cls("normalize:" + nk)
            ctx.check(res is cp, "normalize|does-not-return-self", kind=nk)
            if nk == "mps_only":
                ref = a.ref * (abs(c0) / n0)
                want_c = c0
            elif nk == "mps_and_coeff":
                ref = a.ref / n0
                want_c = c0 / abs(c0)
            else:
                ref = a.ref.copy()
                want_c = c0 * (n0 / abs(c0))
            new = Obj(cp, ref, "mps", a.trace[-3:] + [f"normalize({nk})"])
            ctx.count("oracle")
            ctx.check(abs(complex(cp.coeff) - want_c) <= (1e-9 + (rep_floor(a.mp) + 1e-10 * escale(a)) / n0) * abs(want_c), "normalize|prefactor-differs-from-documented|" + nk,
                      got=complex(cp.coeff), want=want_c)
            # (the norm is computed from the representation: its rounding floor, rescaled like the vector, enters the tolerance)
            nref = max(float(np.linalg.norm(ref)), 1e-300)
            if compare(ctx, new, "normalize|" + nk, scale=max(nref, 1e10 * rep_floor(a.mp) * nref / n0, escale(a) * nref / n0)):
                # the norm is a quadratic contraction: its relative rounding error is eps * (condition of the representation)^2,
                # up to 1e-4 below the gate above.  The object has been judged with that allowance; what is derived from it
                # later is judged against what it actually represents
                new.ref = np.array(states.dense_of(new.mp), copy=True)
            compare(ctx, a, "normalize|source-of-the-copy-changed")
        elif kind == "gauge":
            f = ctx.lib(states.apply_gauge, rng, a.mp, None, a.trace, what="gauge")
            a.ref = a.ref * f
            compare(ctx, a, "gauge")
            continue
        else:
            continue
        if new is None:
            continue
        full_trace.append(new.trace[-1])
        if new.kind == "mps" and rng.random() < 0.75:
            post_check(ctx, new, kind)
        if new.kind == "mps":
            if len(pool) < 6:
                pool.append(new)
            else:
                pool[int(rng.integers(0, len(pool)))] = new
        if ctx.violations:
            break
    if nontrivial:
        ctx.nontrivial({"model": gm.describe(), "sector": qntot.tolist(), "initial": [o.trace for o in pool[:4]],
                        "trace": full_trace, "ops": op_desc})
