"""C13 - operations return new objects and never disturb the state of their inputs (alias monitor)."""
import os
import shutil
import tempfile

import numpy as np

from rv import dense, env, evolve, gen, states

ID = "C13"
LEVEL = "exploration"
RULE = ("One case = one history over a pool of live objects (Mps / MpDm states with bond dimensions below AND above their "
        "own compress_config limit, real/complex, prefactors != 1; operators; tree states where available). Phase 1: "
        "5..12 public calls drawn from the catalogue (copy, conj, conj_trans, to_complex, scale, add, sub, apply, @, "
        "contract, dot, distance, norms, expectation(s), occupations, RDMs, entropies, calc_bond_singular_values, evolve "
        "with every scheme in real and imaginary time with zero and non-zero offset, evolve_exact, variational_compress, "
        "expand_bond_dimension, MpDm.from_mps, dump); before every call the alias monitor fingerprints todense()*coeff of "
        "ALL live objects and afterwards re-computes them: any object other than a documented in-place target must be "
        "unchanged. Phase 2: derive b from a, mutate one of them through the public in-place API (scale(inplace=True), "
        "normalize, canonicalise, lossy compress, obj[i] = array, obj[i].array[...] = values, coeff assignment), observe the "
        "other. Non-trivial: history with >= 1 state-producing call and >= 1 in-place mutation; distinct by call trace.")
ASSUMPTIONS = [
    "fingerprint = todense()*coeff (operators: todense()): gauge changes of an input (ensure_left_canonical inside VMF/CMF, prefactor folding in Mps.add/distance, lossless canonicalisation) are invisible by construction and allowed",
    "documented exemptions: the Hamiltonian operator with on-the-fly swapping enabled (not generated here), the initial guess of optimize_mps / the `guess` of variational_compress",
    "relative tolerance 1e-10 on fingerprints (changes through aliasing are O(1)); prod(d) <= 120",
    "np.shares_memory between tensors of distinct objects is recorded as a diagnostic counter, never a verdict",
]


def plan(tier):
    base = {"case_time_limit": 600,
            "required_classes": ["call:evolve", "call:evolve-imag", "call:add", "call:apply", "call:contract", "call:measure",
                                 "call:evolve_exact", "call:variational_compress", "call:expand_bond_dimension", "call:dump",
                                 "imag-complex-history", "imag-time-complex-H:ps2", "imag-time-complex-H:ps", "imag-time-complex-H:cmf",
                                 "imag-time-complex-H:vmf", "imag-time-complex-H:pc", "imag-time-complex-H:real-state",
                                 "mutate:scale-inplace", "mutate:setitem", "mutate:array-slice", "mutate:compress-lossy",
                                 "bond-above-own-limit", "mpdm", "offset!=0", "tree", "call:tree-evolve-imag", "call:tree-evolve",
                                 "call:tree-apply", "call:tree-add", "tree-mutate:array-slice", "tree-mutate:compress-lossy",
                                 "ofs-history:sites-reordered"],
            "required_counters": {"fingerprints_compared": 3000, "calls": 600, "tree_fingerprints_compared": 300}}
    if tier == "quick":
        base.update({"ncases": 200, "min_nontrivial": 120})
    else:
        base.update({"ncases": 3500, "min_nontrivial": 2500, "required_counters": {"fingerprints_compared": 60000, "calls": 12000, "tree_fingerprints_compared": 6000}})
    return base


class Live:
    __slots__ = ("mp", "name", "fp", "kind", "derived_by", "parents")

    def __init__(self, mp, name, kind):
        self.mp, self.name, self.kind = mp, name, kind
        self.fp = None
        self.derived_by = None      # name of the call that produced the object
        self.parents = ()           # live objects it was derived from


def fingerprint(mp):
    return np.array(states.dense_of(mp), dtype=complex)


class Monitor:
    def __init__(self, ctx):
        self.ctx = ctx
        self.pool = []
        self.trace = []

    def add(self, mp, name, kind):
        lv = Live(mp, name, kind)
        self.pool.append(lv)
        return lv

    def snapshot(self):
        for lv in self.pool:
            lv.fp = fingerprint(lv.mp)

    def verify(self, call, exempt=(), mutated=None):
        ctx = self.ctx
        for lv in self.pool:
            if lv in exempt or lv.fp is None:
                continue
            now = fingerprint(lv.mp)
            ctx.count("fingerprints_compared")
            scale = max(float(np.linalg.norm(lv.fp)), 1e-300)
            if now.shape != lv.fp.shape or not np.all(np.isfinite(now)) or np.linalg.norm(now - lv.fp) > 1e-10 * scale:
                d = float(np.linalg.norm(now - lv.fp)) if now.shape == lv.fp.shape else -1.0
                sig = f"{call}|changes-{lv.kind}-it-was-not-asked-to-modify"
                if mutated is not None:
                    # an in-place change of `mutated` leaked into `lv`: name the call(s) that tie the two objects together
                    ops = self.derivation_path(mutated, lv)
                    if ops:
                        sig = f"result-of-{'+'.join(sorted(set(ops)))}-aliases-its-input|{call}"
                ctx.violate(sig, object=lv.name, distance=d, scale=scale, trace=self.trace[-6:])

    def derivation_path(self, x, y):
        """Names of the calls along the (undirected) derivation path between two live objects, [] if unrelated."""
        adj = {}
        for lv in self.pool:
            for p in lv.parents:
                adj.setdefault(id(lv), []).append((p, lv.derived_by))
                adj.setdefault(id(p), []).append((lv, lv.derived_by))
        seen, stack = {id(x)}, [(x, [])]
        while stack:
            node, ops = stack.pop()
            if node is y:
                return ops
            for nxt, opname in adj.get(id(node), []):
                if id(nxt) not in seen:
                    seen.add(id(nxt))
                    stack.append((nxt, ops + [opname]))
        return []

    def call(self, name, fn, *args, exempt=(), promised=True, refusals=(), **kw):
        """Run one public call under the alias monitor."""
        self.snapshot()
        self.trace.append(name)
        self.ctx.count("calls")
        try:
            res = self.ctx.lib(fn, *args, what=name, promised=promised, refusals=refusals, **kw)
        finally:
            pass
        self.verify(name, exempt)
        return res

    def shares(self, a, b):
        try:
            for i in range(a.site_num):
                x, y = a._mp[i], b._mp[i]
                if hasattr(x, "array") and hasattr(y, "array") and np.shares_memory(x.array, y.array):
                    return True
        except Exception:  # noqa: BLE001
            pass
        return False


def lossless(m=10 ** 6):
    from renormalizer.utils import CompressConfig, CompressCriteria
    return CompressConfig(CompressCriteria.fixed, max_bonddim=m)


def run_case(ctx):
    from renormalizer.mps import Mpo, MpDm, Mps
    from renormalizer.utils import EvolveConfig, EvolveMethod, Quantity, CompressConfig, CompressCriteria
    rng = ctx.rng
    if ctx.idx % 5 == 4:
        from rv.props import c13_tree
        return c13_tree.run_tree_case(ctx)
    if ctx.idx % 10 == 7:
        return ofs_history(ctx)
    if ctx.idx % 10 == 3:
        return imag_complex_history(ctx)
    em = evolve.hermitian_model(ctx, nsite=(2, 5), max_dim=120, min_dim=6)
    gm, model = em.gm, em.model
    qntot = None
    for _ in range(10):
        q = states.pick_sector(rng, gm)
        if states.sector_dim(gm, q) >= 3:
            qntot = q
            break
    if qntot is None:
        ctx.refuse("no sector with >= 3 states")
        return
    mon = Monitor(ctx)
    # ---- the pool ------------------------------------------------------------------------------------
    for k in range(int(rng.integers(2, 4))):
        mps = evolve.generic_full_state(ctx, em, qntot) if rng.random() < 0.6 else None
        if mps is None:
            mps = ctx.lib(states.random_state, ctx, gm, model, qntot, what="state-constructor", promised=False)
        if rng.random() < 0.5 and max(mps.bond_dims) >= 2:
            # bond dimensions ABOVE the object's own limit: an accidental in-place compression would be lossy and visible
            mps.compress_config = lossless(max(1, max(mps.bond_dims) - 1 - int(rng.integers(0, 2))))
            ctx.cls("bond-above-own-limit")
        else:
            mps.compress_config = lossless(int(max(mps.bond_dims) + rng.integers(0, 4)))
        if rng.random() < 0.4:
            mps.coeff = mps.coeff * [2.0, -0.5, np.exp(0.7j)][int(rng.integers(0, 3))]
            if isinstance(mps.coeff, complex):
                mps.to_complex(inplace=True)
        mon.add(mps, f"psi{k}", "state")
    offset = float(rng.choice([0.0, 0.0, 0.8, -1.1]))
    if offset != 0:
        ctx.cls("offset!=0")
    hmpo = ctx.lib(Mpo, model, em.terms, offset=Quantity(offset), what="Mpo", refusals=("Cannot cast",))
    hmpo.compress_config = lossless()
    mon.add(hmpo, "H", "operator")
    Hd = em.H - offset * np.eye(em.H.shape[0])
    ctx.describe({"model": gm.describe(), "terms": gen.terms_describe(em.terms, 6), "sector": qntot.tolist(),
                  "offset": offset, "pool": [(lv.name, lv.mp.bond_dims, int(lv.mp.compress_config.bond_dim_max_value)) for lv in mon.pool]})
    produced = 0
    tmpdir = None
    sts = [lv for lv in mon.pool if lv.kind == "state"]
    all_schemes = evolve.scheme_list()
    ncalls = int(rng.integers(5, 13))
    for step in range(ncalls):
        sts = [lv for lv in mon.pool if lv.kind == "state"]
        a = sts[int(rng.integers(0, len(sts)))]
        b = sts[int(rng.integers(0, len(sts)))]
        op = int(rng.integers(0, 17))
        new = None
        if op == 0:
            ctx.cls("call:copy")
            new = mon.call("copy", a.mp.copy)
        elif op == 1:
            new = mon.call("conj", a.mp.conj)
        elif op == 2:
            new = mon.call("to_complex", a.mp.to_complex)
        elif op == 3:
            new = mon.call("scale", a.mp.scale, [2.0, -1.5, 0.3 + 0.4j][int(rng.integers(0, 3))])
        elif op == 4:
            ctx.cls("call:add")
            if np.array_equal(a.mp.qntot, b.mp.qntot) and a.mp.is_mps == b.mp.is_mps:
                new = mon.call("add" if rng.random() < 0.5 else "sub", (lambda: a.mp + b.mp) if rng.random() < 0.5 else (lambda: a.mp - b.mp))
                if new is not None and np.linalg.norm(states.dense_of(new)) < 1e-8:
                    new = None
        elif op in (5, 6) and float(np.linalg.norm(Hd @ states.dense_of(a.mp))) <= 1e-8 * float(np.linalg.norm(states.dense_of(a.mp))):
            ctx.cls("observed:operator-annihilates-state")     # the zero state cannot be canonicalised (see C09's finding)
            continue
        elif op == 5:
            ctx.cls("call:apply")
            new = mon.call("Mpo.apply", hmpo.apply, a.mp, canonicalise=bool(rng.random() < 0.4))
            if new is not None and np.linalg.norm(states.dense_of(new)) < 1e-8:
                new = None
        elif op == 6:
            ctx.cls("call:contract")
            new = mon.call("Mpo.contract", hmpo.contract, a.mp)
            if new is not None and np.linalg.norm(states.dense_of(new)) < 1e-8:
                new = None
        elif op == 7:
            ctx.cls("call:measure")
            if np.array_equal(a.mp.qntot, b.mp.qntot) and a.mp.is_mps == b.mp.is_mps:
                mon.call("dot", a.mp.dot, b.mp)
                mon.call("distance", a.mp.distance, b.mp)
                mon.call("angle", a.mp.angle, b.mp)
            mon.call("norm", lambda: (a.mp.norm, a.mp.mp_norm))
            mon.call("expectation", a.mp.expectation, hmpo)
            mon.call("expectations", a.mp.expectations, [hmpo, hmpo])
        elif op == 8:
            ctx.cls("call:measure")
            mon.call("calc_1site_rdm", a.mp.calc_1site_rdm)
            mon.call("calc_2site_rdm", a.mp.calc_2site_rdm)
            mon.call("calc_entropy", a.mp.calc_entropy, "1site")
            if a.mp.is_mps:
                mon.call("calc_entropy(bond)", a.mp.calc_entropy, "bond")
                mon.call("calc_bond_singular_values", a.mp.calc_bond_singular_values)
            if model.e_dofs:
                mon.call("e_occupations", lambda: a.mp.e_occupations)
        elif op in (9, 10, 11):
            sc = all_schemes[int(rng.integers(0, len(all_schemes)))]
            imag = bool(op == 11 and sc.imag_ok and not sc.name.startswith("pc-tdrk-"))
            ctx.cls("call:evolve-imag" if imag else "call:evolve", "family:" + sc.family)
            if sc.family in ("vmf", "cmf"):
                caps = states.exact_bond_caps(gm.dims)
                # the matrix-unfolding schemes refuse over-complete bonds (reshape error): documented limitation
                if not a.mp.is_mps or max(a.mp.bond_dims) > 24:
                    continue
                # two canonicalisation sweeps (a pure gauge change of the pool object) remove bond directions that
                # are redundant or incompatible with the sector
                a.mp.ensure_right_canonical()
                a.mp.canonicalise()
            if imag and hmpo.is_complex:
                # (whether the RESULT is right is C10's business; here the call is watched for what it does to its input -
                # each scheme has its own copy / to_complex branch for exactly this combination)
                ctx.cls("imag-time-complex-H:" + sc.family)
                if not a.mp.is_complex:
                    ctx.cls("imag-time-complex-H:real-state")
            dt = (0.2 / em.hnorm) * (-1j if imag else 1.0)
            a.mp.evolve_config = sc.make_cfg()
            env.reseed_global(rng)
            mon.snapshot()
            mon.trace.append(f"evolve[{sc.name}{',imag' if imag else ''}]")
            ctx.count("calls")
            try:
                new = evolve.guarded_evolve(ctx, a.mp, hmpo, dt, bool(rng.random() < 0.5), f"evolve|{sc.family}", sc.family)
            finally:
                pass
            mon.verify(f"evolve|{sc.family}|{'imag' if imag else 'real'}")
            ctx.check(new is not a.mp, f"evolve|{sc.family}|returns-its-input-object")
        elif op == 12:
            ctx.cls("call:evolve_exact")
            # needs a Holstein model: done in a separate sub-history below
            holstein_history(ctx)
        elif op == 13:
            ctx.cls("call:variational_compress")
            if a.mp.is_mps and max(a.mp.bond_dims) <= 30:
                src = a.mp
                old_cfg = src.compress_config
                m = int(max(states.exact_bond_caps(gm.dims)))
                src.compress_config = CompressConfig(CompressCriteria.fixed, max_bonddim=m, vguess_m=(max(5, max(hmpo.bond_dims)), 5))
                env.reseed_global(rng)
                new = mon.call("variational_compress", src.variational_compress, hmpo, promised=False)
                src.compress_config = old_cfg
        elif op == 14:
            ctx.cls("call:expand_bond_dimension")
            if a.mp.is_mps and gm.qn_size == 1 and all(np.all(np.asarray(bb.sigmaqn) >= 0) for bb in gm.basis):
                old_cfg = a.mp.compress_config
                a.mp.compress_config = lossless(int(max(a.mp.bond_dims) + 2))
                env.reseed_global(rng)
                new = mon.call("expand_bond_dimension", a.mp.expand_bond_dimension, hmpo if rng.random() < 0.5 else None,
                               include_ex=False, promised=False)
                a.mp.compress_config = old_cfg
        elif op == 15:
            ctx.cls("mpdm")
            if a.mp.is_mps and gm.dim <= 40:
                dm = mon.call("MpDm.from_mps", MpDm.from_mps, a.mp)
                if dm is not None:
                    dm.compress_config = lossless()
                    lv = mon.add(dm, f"rho{len(mon.pool)}", "state")
                    produced += 1
                    # mutate the density operator, observe the state it was built from
                    mon.snapshot()
                    dm.scale(3.0, inplace=True)
                    mon.trace.append("rho.scale(inplace)")
                    mon.verify("MpDm.from_mps|result-aliases-its-input", exempt=(lv,))
        else:
            ctx.cls("call:dump")
            tmpdir = tmpdir or tempfile.mkdtemp(prefix="rv_c13_")
            mon.call("dump", a.mp.dump, os.path.join(tmpdir, f"s{step}.npz"))
        if new is not None and hasattr(new, "todense"):
            produced += 1
            if any(new is lv.mp for lv in mon.pool):
                # "operations return new objects": a state-producing call handed back one of the live objects
                ctx.violate(f"{mon.trace[-1].split('[')[0]}|returns-one-of-its-inputs-instead-of-a-new-object", trace=mon.trace[-4:])
                continue
            if any(mon.shares(new, lv.mp) for lv in mon.pool):
                ctx.count("results_sharing_memory_with_an_input")
            if len(mon.pool) < 8:
                new_lv = mon.add(new, f"r{len(mon.pool)}", "state" if not new.is_mpo else "operator")
                new_lv.derived_by = mon.trace[-1].split("[")[0]
                hlv = [lv for lv in mon.pool if lv.mp is hmpo]
                par = {"add": (a, b), "sub": (a, b), "Mpo.apply": (a,) + tuple(hlv), "Mpo.contract": (a,) + tuple(hlv),
                       "variational_compress": (a,) + tuple(hlv)}.get(new_lv.derived_by, (a,))
                new_lv.parents = tuple(x for x in par if x.mp is not new)
                # ---- phase 2: mutate one of (result, inputs) in place, observe the others --------------------
                target = new_lv if rng.random() < 0.6 else a
                mutate(ctx, mon, target)
        if ctx.violations:
            break
    if tmpdir:
        shutil.rmtree(tmpdir, ignore_errors=True)
    if produced and ctx.counters.get("mutations", 0):
        ctx.nontrivial({"model": gm.describe(), "trace": mon.trace})


def mutate(ctx, mon, target):
    """In-place modification of `target` through the public API; every other live object must keep its fingerprint."""
    rng = ctx.rng
    mp = target.mp
    k = int(rng.integers(0, 7))
    mon.snapshot()
    name = None
    try:
        if k == 0:
            name = "scale-inplace"
            mp.scale(-2.0, inplace=True)
        elif k == 1 and hasattr(mp, "normalize") and not mp.is_mpo:
            name = "normalize"
            mp.normalize("mps_and_coeff")
        elif k == 2:
            name = "canonicalise"
            mp.ensure_right_canonical()
            mp.canonicalise()
        elif k == 3:
            name = "compress-lossy"
            mp.ensure_right_canonical()
            mp.compress(temp_m_trunc=max(1, max(mp.bond_dims) // 2))
        elif k == 4:
            name = "setitem"
            i = int(rng.integers(0, mp.site_num))
            mp[i] = np.array(mp[i].array) * 1.5
        elif k == 5:
            name = "array-slice"
            i = int(rng.integers(0, mp.site_num))
            arr = mp[i].array
            arr[...] = arr * 0.5
        else:
            name = "coeff-assign"
            if hasattr(mp, "coeff") and not mp.is_mpo:
                mp.coeff = mp.coeff * 3.0
            else:
                name = "scale-inplace"
                mp.scale(-2.0, inplace=True)
    except Exception as e:  # noqa: BLE001 - a refused mutation (e.g. compressing a zero state) is not what is observed here
        ctx.refuse(f"mutation {name} refused: {type(e).__name__}")
        return
    if name is None:
        return
    ctx.cls("mutate:" + name)
    ctx.count("mutations")
    mon.trace.append(f"{target.name}.{name}")
    mon.verify(f"in-place-{name}", exempt=(target,), mutated=target)


def imag_complex_history(ctx):
    """Imaginary-time steps with a COMPLEX Hermitian Hamiltonian, scheme by scheme: every scheme has its own branch that
    decides between copying and converting the input for exactly this combination.  The input (real or complex, with a
    prefactor) must be what it was, and the result must be another object that shares no tensor memory with it."""
    rng = ctx.rng
    ctx.cls("imag-complex-history")
    em = None
    for _ in range(30):
        cand = evolve.hermitian_model(ctx, nsite=(2, 5), max_dim=100, min_dim=6)
        if cand.complex_h:
            em = cand
            break
    if em is None:
        ctx.refuse("no complex Hermitian Hamiltonian generated")
        return
    gm = em.gm
    qntot = None
    for _ in range(10):
        q = states.pick_sector(rng, gm)
        if states.sector_dim(gm, q) >= 3:
            qntot = q
            break
    if qntot is None:
        ctx.refuse("no sector with >= 3 states")
        return
    reps = {}
    for sc in evolve.scheme_list():
        if sc.imag_ok and not sc.name.startswith("pc-tdrk-"):
            reps.setdefault((sc.family, sc.name.split("-")[-1] if sc.family in ("ps", "ps2", "cmf") else ""), sc)
    todo = list(reps.values())
    rng.shuffle(todo)
    for sc in todo[:int(rng.integers(3, 7))]:
        a = evolve.generic_full_state(ctx, em, qntot)
        if a is None:
            ctx.refuse("constructor refused")
            return
        real_state = bool(rng.random() < 0.5)
        if not real_state:
            states.complexify(rng, a)
        if rng.random() < 0.5:
            a.coeff = a.coeff * (2.0 if real_state else complex(0.6, 0.8))
        if sc.family in ("vmf", "cmf"):
            a.ensure_right_canonical()
            a.canonicalise()
        a.evolve_config = sc.make_cfg()
        fp = fingerprint(a)
        dtypes = [np.asarray(a[i].array).dtype for i in range(a.site_num)]
        ctx.cls("imag-time-complex-H:" + sc.family, "imag-time-complex-H:" + ("real-state" if real_state else "complex-state"))
        ctx.count("calls")
        new = evolve.guarded_evolve(ctx, a, em.mpo, -0.2j / em.hnorm, bool(rng.random() < 0.5), f"evolve|{sc.family}|imag|complex-H", sc.family)
        ctx.count("fingerprints_compared")
        ctx.check(new is not a, f"imag-complex-H|evolve|{sc.family}|returns-its-input-object")
        ctx.close(fingerprint(a), fp, 1e-10, f"imag-complex-H|evolve|{sc.family}|changes-state-it-was-not-asked-to-modify",
                  scale=max(float(np.linalg.norm(fp)), 1e-300), scheme=sc.name, real_state=real_state)
        ctx.check([np.asarray(a[i].array).dtype for i in range(a.site_num)] == dtypes, f"imag-complex-H|evolve|{sc.family}|input-dtype-changed")
        if new is not a:
            shared = [i for i in range(min(a.site_num, new.site_num)) if np.shares_memory(np.asarray(a[i].array), np.asarray(new[i].array))]
            ctx.check(not shared, f"imag-complex-H|evolve|{sc.family}|result-shares-tensor-memory-with-its-input", sites=shared)
        ctx.nontrivial(("imag-complex-H", sc.name, real_state, env.dhash(gm.describe())))


def ofs_history(ctx):
    """On-the-fly site swapping: the derived state lives on a re-ordered chain and owns a re-ordered Model.  Exempt by
    documentation is only the Hamiltonian operator handed to evolve; the INPUT state - its vector and what it reports
    through the per-model operator cache (e_occupations) - must stay what it was, whichever of the two is measured first."""
    from renormalizer.model import Model, Op
    from renormalizer.mps import Mpo
    from renormalizer.utils import EvolveConfig, EvolveMethod, CompressConfig, CompressCriteria
    from renormalizer.utils.configs import OFS
    rng = ctx.rng
    ctx.cls("ofs-history")
    em = evolve.hermitian_model(ctx, nsite=(3, 5), max_dim=64, min_dim=8, qn_mode="one", kinds=["elec", "elec", "elec", "spin0"],
                                allow_complex=False)
    gm = em.gm
    e_basis = [b for b in gm.basis if b.is_electron]
    if len(e_basis) < 2:
        ctx.refuse("fewer than two electronic sites")
        return
    qntot = None
    for _ in range(10):
        q = states.pick_sector(rng, gm)
        if states.sector_dim(gm, q) >= 3:
            qntot = q
            break
    if qntot is None:
        ctx.refuse("no sector with >= 3 states")
        return
    model = Model(list(gm.basis), list(em.terms))
    a = evolve.generic_full_state(ctx, em, qntot)
    if a is None:
        ctx.refuse("constructor refused")
        return
    a.model = model
    M = int(max(states.exact_bond_caps(gm.dims)))
    ofs = [OFS.ofs_s, OFS.ofs_ds][int(rng.integers(0, 2))]
    a.compress_config = CompressConfig(CompressCriteria.fixed, max_bonddim=M, ofs=ofs)
    a.evolve_config = EvolveConfig(EvolveMethod.tdvp_ps2)
    mpo = ctx.lib(Mpo, Model(list(gm.basis), list(em.terms)), what="Mpo")

    def occ_ref(s):
        v = np.asarray(states.dense_of(s)).reshape(-1)
        return np.array([np.real(np.vdot(v, dense.op_dense(s.model.basis, [Op(r"a^\dagger a", d)]) @ v)) for d in s.model.e_dofs])

    order_a = [tuple(b.dofs) for b in a.model.basis]
    fp_a = fingerprint(a)
    first_measures_input = bool(rng.random() < 0.5)
    occ_a0 = None
    if first_measures_input:
        occ_a0 = np.asarray(ctx.lib(lambda: a.e_occupations, what="e_occupations"))
        ctx.close(occ_a0, occ_ref(a), 1e-10, "ofs|e_occupations-of-the-input-before", scale=1.0)
    b = a
    swapped = False
    for _ in range(int(rng.integers(2, 6))):
        env.reseed_global(rng)
        b = ctx.lib(b.evolve, mpo, 0.4, what="evolve|ps2|ofs")
        if [tuple(x.dofs) for x in b.model.basis] != order_a:
            swapped = True
            break
    ctx.count("calls")
    if swapped:
        ctx.cls("ofs-history:sites-reordered")
    # the derived state reports its own occupations in the order of ITS model's e_dofs
    occ_b = np.asarray(ctx.lib(lambda: b.e_occupations, what="e_occupations"))
    ctx.count("fingerprints_compared", 3)
    ctx.close(occ_b, occ_ref(b), 1e-10, "ofs|e_occupations-of-the-derived-state", scale=1.0)
    # ... and the input is what it was: site order, vector, and what it reports
    ctx.check([tuple(x.dofs) for x in a.model.basis] == order_a, "ofs|evolve-reordered-the-sites-of-its-input")
    ctx.close(fingerprint(a), fp_a, 1e-10, "ofs|evolve|changes-state-it-was-not-asked-to-modify", scale=max(float(np.linalg.norm(fp_a)), 1e-300))
    occ_a1 = np.asarray(ctx.lib(lambda: a.e_occupations, what="e_occupations"))
    ctx.close(occ_a1, occ_ref(a), 1e-10, "ofs|measuring-the-derived-state-changes-what-the-input-reports", scale=1.0,
              swapped=swapped, input_measured_first=first_measures_input)
    if occ_a0 is not None:
        ctx.close(occ_a1, occ_a0, 1e-10, "ofs|e_occupations-of-the-input-differ-before-and-after", scale=1.0)
    if swapped:
        ctx.count("mutations")
        ctx.nontrivial(("ofs", gm.describe(), qntot.tolist(), str(ofs), first_measures_input))


def holstein_history(ctx):
    """evolve_exact and thermal helpers need a HolsteinModel: a short separate history with its own pool."""
    from rv.props import c10
    from renormalizer.mps import Mpo, Mps, MpDm
    from renormalizer.utils import Quantity
    rng = ctx.rng
    model, desc = c10.holstein(ctx, max_dim=200)
    mon = Monitor(ctx)
    space = str(rng.choice(["GS", "EX"]))
    nexc = 1 if space == "EX" else 0
    env.reseed_global(rng)
    mps = Mps.random(model, nexc, 4, percent=1.0)
    mps.coeff = 2.0
    dm = MpDm.max_entangled_ex(model) if nexc else MpDm.max_entangled_gs(model)
    offset = float(rng.choice([0.0, 0.9]))
    if offset != 0:
        ctx.cls("offset!=0")
    h = Mpo(model, offset=Quantity(offset))
    mon.add(mps, "psi", "state")
    mon.add(dm, "rho", "state")
    mon.add(h, "H", "operator")
    r1 = mon.call("Mps.evolve_exact", mps.evolve_exact, h, 0.3, space)
    r2 = mon.call("MpDm.evolve_exact", dm.evolve_exact, h, 0.3, space)
    for r in (r1, r2):
        if r is not None:
            lv = mon.add(r, f"r{len(mon.pool)}", "state")
            lv.derived_by = "evolve_exact"
            lv.parents = tuple(x for x in mon.pool[:2])
            mutate(ctx, mon, lv)
