"""C08 - ground- and excited-state searches are variational and consistent (chains; trees in c08_tree cases)."""
import numpy as np

from rv import dense, env, gen, states

ID = "C08"
LEVEL = "exploration"
RULE = ("One chain case = one run of optimize_mps on a Hermitian Hamiltonian with a dense reference (prod(d) <= 4096): "
        "random electron-phonon models (SimpleElectron + SHO, any exciton number), XXZ-type spin chains with and "
        "without conserved magnetisation, generic Hermitian term tables on generated basis lists with none/one/two "
        "quantum numbers, qc_model of 1..3 spatial orbitals (plain and stacked); real and complex H; a sector; a start "
        "state (Mps.random with bond 1..over-complete, product state; real or complex); a random procedure of >= 2 "
        "sweeps [bond limit 1..exact ranks..over-complete, percent 0..0.5; integer, threshold-CompressConfig or "
        "OFS-CompressConfig entries]; method 1site/2site; algo davidson/direct/arpack; nroots 1..4; optional omega; "
        "optional inverse=-1; optional StackedMpo (H = H1 + H2); optional on-the-fly site swapping. With A = "
        "inverse*(H or (H-omega)^2) restricted to the sector and a_k its exact eigenvalues: every energy of every "
        "micro-iteration (recorded by wrappers on eigh_direct/eigh_iterative/single_sweep) and of every sweep (root k, "
        "sorted) >= a_k; the sweep energy is the minimum of its micro-iterations; returned states normalised, inside "
        "the sector, with valid labels, <A> >= a_0 and expectation(mpo) == dense <H>; when the last sweep cannot "
        "discard weight the returned state's <A> equals the energy of the micro-iteration it was copied from; "
        "whenever the local eigenproblem of a micro-iteration has the dimension of the whole sector (complete "
        "renormalised bases, measured at run time) the direct solver's energies equal the exact lowest ones, that "
        "sweep's reported energy equals a_0, Davidson values flagged converged lie in the spectrum of A, and states "
        "returned losslessly from such a micro-iteration are eigenstates. Davidson kernel cases: davidson/davidson1 "
        "on random real-symmetric / complex-Hermitian matrices (dim 5..300; degenerate, clustered, block-diagonal with "
        "the guess in an invariant subspace, diagonally dominant, nearly diagonal with the diagonal preconditioner), "
        "with the Gram matrix of the trial vectors monitored through the callback hook. Non-trivial chain run: >= 1 executed truncating "
        "sweep (bond limit below the generic rank of the sector at some cut) AND the last executed sweep not "
        "truncating, sector with >= 2 states; distinct by (model, terms, sector, schedule, method, solver).")
ASSUMPTIONS = [
    "lower bounds are theorems (Ritz values of A projected on an orthonormal set; Cauchy interlacing for root k, compared after sorting); slack 1e-9*max(1,|a_k|) + 1e-11*||A||",
    "equality with exact diagonalisation is only demanded where it is a theorem: a micro-iteration whose local problem (count of True entries of qn_mask, read by the solver wrapper) has the dimension of the sector diagonalises A itself. Merely allowing the exact ranks does NOT guarantee convergence: after truncating sweeps the one-site update cannot re-create lost symmetry blocks and the two-site update can be trapped too (3-electron Holstein chain, procedure [[2,.4],[4,.2],[64,0]x3], ends 0.07 above E_0); such runs are counted (classes full-M-incomplete*) and only bounded from below",
    "direct solver at a complete micro-iteration: the k lowest exact eigenvalues, 1e-8 relative + 1e-10*||A||. Davidson at a complete micro-iteration: only when davidson1 flagged every root converged (|de| < 1e-12, |r| < 1e-6) and then only 'each value within 2e-6*max(1,|e|) of SOME eigenvalue of A': a Krylov space started in an invariant subspace of a Hamiltonian with undeclared symmetries never leaves it, so converged values need not be the lowest ones (observed: generic model, prod(d)=1600, misses E_0 and E_2 for two sweeps). eigh_iterative stops Davidson after 100 cycles without telling: unconverged calls are counted (complete-iterative:davidson-not-converged), frequent with omega",
    "returned-state consistency (<A> of returned root k == energy k of the micro-iteration it was copied from, 1e-7 relative) is demanded only when the last executed sweep is lossless: integer bond limit >= prod(d), or (no site swapping) percent == 0 and limit >= the generic rank at every cut",
    "omega: the reported numbers are Ritz values of (H-omega)^2 (the optimiser squares the shifted MPO), inverse=-1: of -H; both are handled by taking A = inverse*(H-omega)^2 / inverse*H as the reference operator",
    "complex H (and real H whose MPO tensors are complex) is run from a complex start state (a real Mps cannot hold complex tensors: Matrix asserts); StackedMpo and site swapping are never combined with omega; site swapping only for 2site, general Model, fixed criterion, no Jordan-Wigner strings, requested through CompressConfig entries of the procedure",
    "LAPACK failure is not judged: scipy.linalg.eigh (driver dsyevr) raises LinAlgError('Internal Error.') for a finite symmetric 208x208 local matrix whose lowest eigenvalue is ~200-fold degenerate (omega targeting) under the single-threaded OpenBLAS the checks run with, while the same call succeeds multi-threaded and with every other driver: counted as a refusal (seen once in 3000 thorough cases)",
    "procedures have >= 2 sweeps (with one sweep optimize_mps has no state to return and trips its own assert)",
    "Davidson kernel: Ritz values >= exact (slack 1e-9*max(1,||A||)); returned vectors normalised to 1e-6; value == Rayleigh quotient of its vector (1e-8*||A||); a pair flagged converged by davidson1 has true residual <= 10*sqrt(tol) + 1e-9*||A|| (the code's own criterion is |de| < tol and |r| < sqrt(tol)) and lies within that residual of an exact eigenvalue; all guesses of one call share a dtype (as in gs.single_sweep). The Gram matrix of the trial vectors is read through the documented callback hook after every cycle; when a run fails any of these checks and the Gram error exceeded 1e-9 all failures are reported under the one signature trial-subspace-loses-orthonormality",
    "reference matrix assembled like rv.dense.op_dense (own grouping by site, basis.op_mat local matrices) but with scipy.sparse Kronecker products; Hermiticity and sector conservation verified per case; forced direct solver only for prod(d) <= 400; omega with prod(d) > 600 keeps bond limits <= rank + 2 (two-layer environments)",
]

HUGE = 10 ** 5


def plan(tier):
    base = {"case_time_limit": 600,
            "required_classes": ["method:1site", "method:2site", "solver:direct", "solver:iterative", "nroots:1",
                                 "nroots:2", "nroots:3", "nroots:4", "two-component-label:several-roots", "omega", "stacked", "complex-H", "qn:none",
                                 "qn:one", "qn:two", "schedule:truncating-then-full", "schedule:full-perturbed-to-the-end", "inverse:-1", "model:holstein",
                                 "model:xxz", "model:generic", "model:qc", "ofs", "equality-checked:direct",
                                 "equality-checked:iterative-converged", "equality-checked:sweep-energy",
                                 "equality-checked:returned-eigenstate", "state-consistency-checked", "davidson-kernel",
                                 "tree", "tree-solver:davidson", "tree-solver:direct", "tree-equality-checked",
                                 "tree-state-consistency-checked", "tree-qn:two"],
            "max_refused_frac": 0.2}
    # thresholds leave room for the tree cases (every 5th index) once rv.props.c08_tree exists
    if tier == "quick":
        base.update({"ncases": 160, "min_nontrivial": 20,
                     "required_counters": {"oracle": 2500, "eigh_direct_calls": 1000, "eigh_iterative_calls": 100,
                                           "runs_with_iterative_solver": 15, "equality_checked": 150,
                                           "state_consistency_checked": 60, "davidson_kernel_runs": 40,
                                           "optimize_runs": 80, "tree_optimize_runs": 20, "tree_micro_energies": 300}})
    else:
        base["required_classes"] = base["required_classes"] + ["ofs:sites-reordered"]
        base.update({"ncases": 3000, "min_nontrivial": 500,
                     "required_counters": {"oracle": 50000, "eigh_direct_calls": 20000, "eigh_iterative_calls": 2000,
                                           "runs_with_iterative_solver": 350, "equality_checked": 3500,
                                           "state_consistency_checked": 1200, "davidson_kernel_runs": 1000,
                                           "optimize_runs": 1700, "tree_optimize_runs": 400, "tree_micro_energies": 6000}})
    return base


# ------------------------------------------------------------------------------------------- instrumentation
TRACE = {"calls": [], "sweeps": [], "installed": False, "last_conv": None}


def setup(tier):
    """Counting/recording wrappers on the solver entry points of renormalizer.mps.gs (rebinding only)."""
    if TRACE["installed"]:
        return
    from renormalizer.mps import gs

    def wrap_solver(name):
        orig = getattr(gs, name)

        def wrapper(mps, qn_mask, *args, **kwargs):
            TRACE["last_conv"] = None
            e, c = orig(mps, qn_mask, *args, **kwargs)
            conv = TRACE["last_conv"]
            TRACE["calls"].append({"solver": name, "local_dim": int(np.sum(qn_mask)),
                                   "cshape_prod": int(np.prod(qn_mask.shape)),
                                   "e": np.array(e, dtype=float).reshape(-1).copy(),
                                   # Davidson's own convergence flags (None for the direct solver)
                                   "conv": None if conv is None else [bool(x) for x in conv]})
            return e, c

        wrapper.__name__ = name
        wrapper.__wrapped__ = orig
        setattr(gs, name, wrapper)

    wrap_solver("eigh_direct")
    wrap_solver("eigh_iterative")
    # davidson() drops the convergence flags of davidson1: keep them for the record of the enclosing solver call
    from renormalizer.lib.davidson import davidson as dmod
    orig_d1 = dmod.davidson1

    def davidson1(*args, **kwargs):
        out = orig_d1(*args, **kwargs)
        TRACE["last_conv"] = np.asarray(out[0]).reshape(-1).tolist()
        return out

    davidson1.__wrapped__ = orig_d1
    dmod.davidson1 = davidson1
    orig_sweep = gs.single_sweep

    def single_sweep(mps, mpo, environ, omega, percent, last_opt_e_idx):
        first = len(TRACE["calls"])
        rec = {"first": first, "last": first, "percent": percent, "last_opt_e_idx": last_opt_e_idx, "cidx": None,
               "config": mps.compress_config}
        TRACE["sweeps"].append(rec)
        try:
            out = orig_sweep(mps, mpo, environ, omega, percent, last_opt_e_idx)
            rec["cidx"] = [list(c) for _, c in out[0]]
            rec["returned_state"] = out[1] is not None
            return out
        finally:
            rec["last"] = len(TRACE["calls"])

    single_sweep.__wrapped__ = orig_sweep
    gs.single_sweep = single_sweep
    TRACE["installed"] = True


# --------------------------------------------------------------------------------------------------- models
def sop(gm, site, symbol):
    for so in gm.catalog[site]:
        if so.symbol.replace(r"b^\dagger+b", r"b^\dagger + b") == symbol:
            return so
    raise KeyError((site, symbol))


def model_holstein(rng, max_dim, cplx, big=False):
    from renormalizer.model import basis as ba
    for _ in range(100):
        ne = int(rng.integers(2, 5))
        nmode = [int(rng.integers(1, 3)) for _ in range(ne)]
        nbas = [[int(rng.integers(2, 5)) for _ in range(k)] for k in nmode]
        dim = int(np.prod([2] * ne + [b for row in nbas for b in row]))
        if dim <= max_dim and dim >= max_dim // (2 if big else 6):
            break
    else:
        ne, nbas = 2, [[2], [2]]
    basis, desc, esite, vsite = [], [], [], []
    for i in range(ne):
        esite.append(len(basis))
        basis.append(ba.BasisSimpleElectron(f"e{i}"))
        desc.append(("SimpleElectron", f"e{i}"))
        row = []
        for j, nb in enumerate(nbas[i]):
            row.append(len(basis))
            om = float(rng.choice([0.3, 0.7, 1.0, 1.6]))
            basis.append(ba.BasisSHO(f"v{i}_{j}", om, nb))
            desc.append(("SHO", f"v{i}_{j}", om, nb))
        vsite.append(row)
    gm = gen.GenModel(basis, {"kind": "holstein", "qn_mode": "one", "basis": desc})
    terms = []
    for i in range(ne):
        terms.append(gen.make_op([sop(gm, esite[i], r"a^\dagger a")], float(rng.uniform(-1, 1))))
        for v in vsite[i]:
            terms.append(gen.make_op([sop(gm, v, r"b^\dagger b")], float(basis[v].omega)))
            g = float(rng.uniform(0.1, 1.2)) * (-1 if rng.random() < 0.5 else 1)
            terms.append(gen.make_op([sop(gm, esite[i], r"a^\dagger a"), sop(gm, v, "x")], g))
            if rng.random() < 0.25:
                terms.append(gen.make_op([sop(gm, esite[i], r"a^\dagger a"), sop(gm, v, "x^2")], float(rng.uniform(-0.2, 0.3))))
    pairs = [(i, i + 1) for i in range(ne - 1)] + [(i, i + 2) for i in range(ne - 2) if rng.random() < 0.6]
    for i, j in pairs:
        c = float(rng.uniform(0.2, 1.0)) * (-1 if rng.random() < 0.5 else 1)
        if cplx:
            c = c * np.exp(1j * rng.uniform(0.2, 2.9))
        terms.append(gen.make_op([sop(gm, esite[i], r"a^\dagger"), sop(gm, esite[j], "a")], c))
        terms.append(gen.make_op([sop(gm, esite[j], r"a^\dagger"), sop(gm, esite[i], "a")], np.conj(c)))
    return gm, terms


def model_two_flavour(rng):
    """Two particle species on alternating sites, one conserved number each (a two-component label), a few sites per
    species, on-site energies that put the sectors with more particles lower, hopping within a species and
    density-density coupling between them."""
    from renormalizer.model import basis as ba
    n = int(rng.integers(5, 8))
    basis, fl = [], []
    for i in range(n):
        f = i % 2
        fl.append(f)
        basis.append(ba.BasisSimpleElectron(f"f{i}", sigmaqn=[[0, 0], [1, 0]] if f == 0 else [[0, 0], [0, 1]]))
    gm = gen.GenModel(basis, {"kind": "two-flavour", "qn_mode": "two", "n": n})
    terms = []
    for i in range(n):
        terms.append(gen.make_op([sop(gm, i, r"a^\dagger a")], -float(rng.uniform(0.3, 1.5))))
    for i in range(n):
        for j in range(i + 1, n):
            if fl[i] == fl[j] and (j - i == 2 or rng.random() < 0.4):
                c = float(rng.uniform(0.2, 1.0)) * (-1 if rng.random() < 0.5 else 1)
                terms.append(gen.make_op([sop(gm, i, r"a^\dagger"), sop(gm, j, "a")], c))
                terms.append(gen.make_op([sop(gm, j, r"a^\dagger"), sop(gm, i, "a")], c))
            elif fl[i] != fl[j] and rng.random() < 0.6:
                terms.append(gen.make_op([sop(gm, i, r"a^\dagger a"), sop(gm, j, r"a^\dagger a")], float(rng.normal() * 0.5)))
    return gm, terms


def model_xxz(rng, max_dim, cplx, qn, big=False):
    from renormalizer.model import basis as ba
    nmax = int(np.floor(np.log2(max_dim)))
    n = int(rng.integers(max(3, nmax - (1 if big else 3)), nmax + 1))
    if qn:
        sq = [[1, 0], [0, 1], [1, -1]][int(rng.choice(3, p=[0.45, 0.35, 0.2]))]
    else:
        sq = None
    basis = [ba.BasisHalfSpin(f"s{i}", sigmaqn=sq) for i in range(n)]
    gm = gen.GenModel(basis, {"kind": "xxz", "qn_mode": "one" if qn else "none", "n": n, "sigmaqn": sq})
    terms = []
    delta = float(rng.uniform(-1.5, 1.5))
    j1 = float(rng.uniform(0.3, 1.2)) * (-1 if rng.random() < 0.5 else 1)
    j2 = float(rng.uniform(0.1, 0.8)) if rng.random() < 0.6 else 0.0
    disorder = rng.random() < 0.5
    for d, jj in ((1, j1), (2, j2)):
        if jj == 0:
            continue
        for i in range(n - d):
            c = jj * (float(rng.uniform(0.5, 1.5)) if disorder else 1.0)
            if cplx:
                c = c * np.exp(1j * rng.uniform(0.2, 2.9))
            terms.append(gen.make_op([sop(gm, i, "sigma_+"), sop(gm, i + d, "sigma_-")], c))
            terms.append(gen.make_op([sop(gm, i, "sigma_-"), sop(gm, i + d, "sigma_+")], np.conj(c)))
            if d == 1:
                terms.append(gen.make_op([sop(gm, i, "sigma_z"), sop(gm, i + d, "sigma_z")], delta))
    for i in range(n):
        if rng.random() < 0.6:
            terms.append(gen.make_op([sop(gm, i, "sigma_z")], float(rng.uniform(-0.8, 0.8))))
    if not qn:
        hx = float(rng.uniform(0.2, 1.0))
        for i in range(n):
            if rng.random() < 0.8:
                terms.append(gen.make_op([sop(gm, i, "sigma_x")], hx))
            if cplx and rng.random() < 0.4:
                terms.append(gen.make_op([sop(gm, i, "sigma_y")], float(rng.uniform(-0.7, 0.7))))
    return gm, terms


def model_generic(rng, max_dim, cplx, qn_mode, big=False):
    for _ in range(40):
        try:
            gm = gen.random_basis_list(rng, nsite=(3, 7) if big else (2, 7), max_dim=max_dim,
                                       min_dim=max(4, max_dim // (3 if big else 8)), qn_mode=qn_mode)
        except RuntimeError:
            continue
        gm.desc["kind"] = "generic"
        terms = gen.hermitian_terms(rng, gm, int(rng.integers(3, 14)), max_support=3, allow_complex=cplx,
                                    charge_conserving=True)
        if len(terms) >= 2:
            return gm, terms
    return None, None


def model_qc(rng, cplx):
    from renormalizer.model import h_qc
    norb = int(rng.choice([1, 2, 3], p=[0.15, 0.45, 0.4]))
    h = rng.normal(size=(norb, norb))
    h = (h + h.T) / 2
    nl = int(rng.integers(1, 4))
    ls = rng.normal(size=(nl, norb, norb)) * 0.6
    ls = (ls + ls.transpose(0, 2, 1)) / 2
    eri = np.einsum("kpq,krs->pqrs", ls, ls)
    sh, aseri = h_qc.int_to_h(h, eri)
    stacked = rng.random() < 0.35
    basis, terms = h_qc.qc_model(sh, aseri, stacked=stacked)
    gm = gen.GenModel(basis, {"kind": "qc", "qn_mode": "two", "norb": norb, "h1": h, "nl": nl})
    if stacked:
        parts = [list(t) for t in terms if len(t)]
        return gm, [op for p in parts for op in p], parts
    return gm, list(terms), None


def sparse_op(basis, terms):
    """The dense reference of rv.dense.op_dense (own grouping of symbols by site, local matrices from basis.op_mat,
    Kronecker product over the site order, sum over terms) assembled with scipy.sparse so that prod(d) = 4096 is cheap."""
    import scipy.sparse as sp
    dof2site = dense.dof_site_map(basis)
    dim = int(np.prod([b.nbas for b in basis]))
    acc = sp.csr_matrix((dim, dim), dtype=complex)
    for op in terms:
        groups = dense.site_groups(op, dof2site)
        m = sp.identity(1, format="csr", dtype=complex)
        for i, b in enumerate(basis):
            if i in groups:
                loc = sp.csr_matrix(np.asarray(dense.local_matrix(b, groups[i]), dtype=complex))
            else:
                loc = sp.identity(b.nbas, format="csr", dtype=complex)
            m = sp.kron(m, loc, format="csr")
        acc = acc + m * complex(op.factor)
    return acc


def build_model(ctx, big):
    """Returns (gm, terms, parts, H, kind) with H the verified Hermitian reference matrix (scipy.sparse); parts = term
    lists of a stacked split.  big: size the model so that the local problems can reach the iterative solver."""
    rng = ctx.rng
    for _ in range(30):
        r = rng.random()
        size = 1.0 if big else rng.random()
        if size < 0.25:
            max_dim = int(rng.choice([16, 32, 64, 128, 256]))
        elif size < 0.4:
            max_dim = int(rng.choice([512, 900]))
        else:
            max_dim = int(rng.choice([1100, 1600, 2048]))
        cplx = bool(rng.random() < 0.25)
        parts = None
        if r < 0.27:
            if max_dim >= 1100 and (big or rng.random() < 0.6):
                max_dim = 4096          # the sectors of an electron-phonon model are much smaller than prod(d)
            gm, terms = model_holstein(rng, max_dim, cplx, big)
            kind = "holstein"
        elif r < 0.54:
            qn = bool(rng.random() < 0.6)
            if qn and max_dim >= 1100 and (big or rng.random() < 0.6):
                max_dim = 4096
            elif big:
                max_dim = 2048
            gm, terms = model_xxz(rng, max_dim, cplx, qn, big)
            kind = "xxz"
        elif r < (0.92 if big else 0.86):
            qn_mode = str(rng.choice(["none", "one", "two"], p=[0.4, 0.4, 0.2]))
            if big:
                max_dim = 2048 if qn_mode == "none" else 4096
            gm, terms = model_generic(rng, max_dim, cplx, qn_mode, big)
            kind = "generic"
            if gm is None:
                continue
        else:
            gm, terms, parts = model_qc(rng, cplx)
            kind = "qc"
        if gm.dim > 4096 or len(gm.basis) < 2:
            continue
        import scipy.sparse.linalg as spl
        H = sparse_op(gm.basis, terms)
        nrm = float(spl.norm(H))
        if not np.isfinite(nrm) or nrm < 1e-6:
            continue
        if float(spl.norm(H - H.getH())) > 1e-12 * nrm:
            ctx.count("generator_rejected_nonhermitian")
            continue
        return gm, terms, parts, H, kind
    raise RuntimeError("no Hermitian model generated")


def generic_ranks(basis, qntot):
    """Generic Schmidt rank of a state of sector qntot at every cut: sum_q min(nL(q), nR(qntot - q))."""
    n = len(basis)
    qntot = np.asarray(qntot).reshape(-1)
    out = [1]
    for j in range(1, n):
        lq = dense.basis_qn(basis[:j])
        rq = dense.basis_qn(basis[j:])
        ul, cl = np.unique(lq, axis=0, return_counts=True)
        ur, cr = np.unique(rq, axis=0, return_counts=True)
        rd = {tuple(q.tolist()): int(c) for q, c in zip(ur, cr)}
        out.append(sum(min(int(c), rd.get(tuple((qntot - q).tolist()), 0)) for q, c in zip(ul, cl)))
    out.append(1)
    return out


# ------------------------------------------------------------------------------------------------ schedules
def make_schedule(rng, ranks, dim, want_equality, big=False, force_perturbed=False):
    """Procedure [[M, percent], ...] with >= 2 sweeps.  Returns (procedure, kind)."""
    rmax = max(max(ranks), 1)
    r = rng.random()

    def trunc_m():
        if rmax <= 1:
            return 1
        if big and rmax > 4 and rng.random() < 0.7:
            return int(rng.integers(rmax // 2, rmax))
        return int(rng.integers(1, rmax))

    def full_m():
        c = rng.random()
        if c < 0.45:
            return HUGE
        if c < 0.6:
            return int(dim)
        return int(rmax + int(rng.integers(0, 3)))

    def pct():
        return float(rng.choice([0.0, 0.1, 0.2, 0.4, 0.5]))

    import os as _os
    if force_perturbed or rng.random() < (1.0 if _os.environ.get('C08_FORCE_PERTURBED') else 0.2):
        # unlimited bonds but a perturbation up to the very last sweep (the returned state is assembled with it):
        # nothing is discarded, so the returned state must still be the eigenvector of the last local problem
        p = float(rng.choice([0.5, 0.8, 0.8, 0.9]))
        proc = [[HUGE if rng.random() < 0.5 else int(dim), p] for _ in range(int(rng.integers(3, 6)))]
        return proc, "full-perturbed-to-the-end"
    if want_equality or r < 0.5:
        ntr = int(rng.integers(1, 4)) if rmax > 1 and rng.random() < 0.75 else 0
        # truncating sweeps mostly carry a perturbation (the optimiser tests convergence only after percent == 0 sweeps)
        proc = [[trunc_m(), (pct() if rng.random() < 0.3 else float(rng.choice([0.1, 0.2, 0.4, 0.5])))] for _ in range(ntr)]
        if ntr > 1 and rng.random() < 0.5:
            proc.sort(key=lambda x: x[0])
        m = full_m()
        nfull = int(rng.integers(3, 6))
        npert = int(rng.integers(0, 2))
        proc += [[m, pct()] for _ in range(npert)]
        proc += [[m, 0.0] for _ in range(nfull)]
        kind = "truncating-then-full" if ntr else "full-only"
    elif r < 0.8:
        proc = [[trunc_m(), pct()] for _ in range(int(rng.integers(2, 6)))]
        kind = "truncating-only" if rmax > 1 else "full-only"
    else:
        # anything goes, including limits that shrink again
        proc = [[(trunc_m() if rng.random() < 0.5 else full_m()), pct()] for _ in range(int(rng.integers(2, 7)))]
        kind = "mixed"
    return proc, kind


# ------------------------------------------------------------------------------------------------ one run
def run_case(ctx):
    if ctx.idx % 5 == 4:
        from rv.props import c08_tree
        return c08_tree.run_tree_case(ctx)
    if ctx.idx % 10 == 3:
        return run_kernel_case(ctx)
    return run_chain_case(ctx)


def slack_of(x, specr):
    return 1e-9 * max(1.0, abs(float(x))) + 1e-11 * specr


def run_chain_case(ctx):
    from renormalizer.mps import Mpo, StackedMpo, gs
    from renormalizer.utils import CompressConfig, CompressCriteria
    rng = ctx.rng
    setup(ctx.tier)
    # 40% of the runs are laid out for the iterative solver (prod(cshape) >= 1000 needs prod(d) >= 1000, bonds near the
    # exact ranks and a start state that already has them)
    big = bool(rng.random() < 0.45)
    # by case index: several roots in a sector of a two-component label whose components stay below the largest block label
    two_flavour = ctx.idx % 20 == 6
    if two_flavour:
        big = False
    for _attempt in range(8):
        if two_flavour:
            gm, terms = model_two_flavour(rng)
            parts, H, kind = None, sparse_op(gm.basis, terms), "two-flavour"
        else:
            gm, terms, parts, H, kind = build_model(ctx, big)
        basis = gm.basis
        # ---- sector -----------------------------------------------------------------------------------
        for _ in range(6):
            qntot = np.array([1, 1]) if two_flavour else states.pick_sector(rng, gm)
            mask = dense.sector_mask(basis, qntot)
            ds = int(mask.sum())
            if ds >= 2:
                break
        if ds <= 2100:          # dense diagonalisation of the sector stays within a few seconds
            break
    n = len(basis)
    h_is_complex = bool(H.nnz and np.any(H.data.imag != 0))
    ctx.cls("model:" + kind, "qn:" + gm.desc["qn_mode"], "complex-H" if h_is_complex else "real-H")
    idx = np.where(mask)[0]
    Hs = H[idx][:, idx].toarray()
    if not h_is_complex:
        Hs = Hs.real.copy()
    # the sector must be invariant under H for the restricted spectrum to be the reference (true by construction)
    if ds < gm.dim:
        off = H[np.where(~mask)[0]][:, idx]
        if off.nnz and float(abs(off).max()) > 1e-12:
            ctx.refuse("generated Hamiltonian does not conserve the sector")
            return
    ranks = generic_ranks(basis, qntot)

    # ---- configuration --------------------------------------------------------------------------------
    nroots = int(rng.choice([1, 2, 3, 4], p=[0.5, 0.2, 0.15, 0.15]))
    if two_flavour:
        nroots = 2 + (ctx.idx // 20) % 2
        ctx.cls("two-component-label:several-roots")
    nroots = max(1, min(nroots, ds))
    method = "2site" if rng.random() < 0.55 else "1site"
    ra = rng.random()
    if ra < 0.12 and gm.dim <= 400:
        algo = "direct"
    elif ra < 0.15:
        algo = "arpack"
    else:
        algo = "davidson"
    inverse = -1.0 if rng.random() < 0.1 else 1.0
    stacked = parts is not None or rng.random() < 0.15
    omega = None
    if not stacked and rng.random() < 0.2:
        ev = np.linalg.eigvalsh(Hs)
        if rng.random() < 0.6:
            k = int(rng.integers(0, len(ev)))
            omega = float(ev[k] + rng.normal() * 0.05 * max(1e-3, (ev[-1] - ev[0]) / max(1, len(ev))))
        else:
            omega = float(rng.uniform(ev[0] - 0.1, ev[-1] + 0.1))
    if omega is None:
        A = Hs * inverse
    else:
        Sh = Hs - omega * np.eye(ds)
        A = (Sh @ Sh) * inverse
    a = np.linalg.eigvalsh(A)
    hfro = float(np.linalg.norm(Hs))
    specr = float(max(abs(a[0]), abs(a[-1]), 1e-300))

    want_equality = big or rng.random() < 0.5
    proc, sched_kind = make_schedule(rng, ranks, gm.dim, want_equality, big, force_perturbed=(ctx.idx % 4 == 1))
    rmax = max(ranks)
    if omega is not None and gm.dim > 600:
        # two-layer environments are (M, w, w, M): keep them small
        for e in proc:
            if e[0] > rmax + 2:
                e[0] = int(rmax + 2)
    # on-the-fly site swapping: two-site update of a general Model with the fixed criterion; the setting must travel inside
    # the CompressConfig entries of the procedure (integer entries make optimize_mps build fresh configs without it)
    ofs = None
    if method == "2site" and not stacked and omega is None and kind != "qc" and rng.random() < 0.14:
        from renormalizer.utils.configs import OFS
        ofs = [OFS.ofs_s, OFS.ofs_d, OFS.ofs_ds][int(rng.integers(0, 3))]
        ctx.cls("ofs")
    if ofs is None and rng.random() < 0.08:
        # a CompressConfig instead of an integer in one of the sweeps (threshold criterion)
        j = int(rng.integers(0, len(proc)))
        proc[j][0] = CompressConfig(CompressCriteria.threshold, threshold=float(10 ** rng.uniform(-6, -1)))
        ctx.cls("procedure:CompressConfig-threshold")

    def limit_of(entry):
        return entry[0] if isinstance(entry[0], int) else None

    truncating = [limit_of(e) is None or limit_of(e) < rmax for e in proc]
    model = states.model_of(gm, terms)
    mpo_full = ctx.lib(Mpo, model, what="Mpo", promised=False)
    # a real H may still have complex operator tensors (e.g. "p" on two sites): the optimiser then needs a complex state
    is_complex = h_is_complex or bool(np.iscomplexobj(np.zeros(1, dtype=mpo_full.dtype)))
    if is_complex and not h_is_complex:
        ctx.cls("real-H-with-complex-operator-tensors")

    # ---- start state ------------------------------------------------------------------------------------
    rs = rng.random()
    start = None
    if rs < (0.95 if big else 0.8):
        if big:
            mmax = int(rng.choice([rmax, rmax, gm.dim, 16]))
        elif gm.dim >= 1000:
            mmax = int(rng.choice([2, 4, 8, 16, rmax, rmax, gm.dim]))
        else:
            mmax = int(rng.choice([1, 2, 3, 4, 8, 16, rmax, gm.dim]))
        start = states.random_mps(rng, gm, model, qntot, mmax, percent=float(rng.choice([0.5, 1.0])))
        start_desc = {"random": mmax}
    if start is None:
        start = ctx.lib(states.product_mps, rng, gm, model, qntot, what="start-state", promised=False)
        start_desc = {"product": True}
        ctx.cls("start:product")
    else:
        ctx.cls("start:random")
    if is_complex or rng.random() < 0.15:
        if rng.random() < 0.5:
            states.complexify(rng, start)
        else:
            start.to_complex(inplace=True)
        ctx.cls("start:complex")
    if ofs is not None:
        lib_proc = [[CompressConfig(CompressCriteria.fixed, max_bonddim=int(e[0]), ofs=ofs), e[1]] for e in proc]
    else:
        lib_proc = proc
    start.optimize_config.procedure = lib_proc
    start.optimize_config.method = method
    start.optimize_config.algo = algo
    start.optimize_config.nroots = nroots
    start.optimize_config.inverse = inverse
    if rng.random() < 0.3:
        start.optimize_config.e_rtol = 1e-9
        start.optimize_config.e_atol = 1e-11

    # ---- operators ----------------------------------------------------------------------------------------
    if stacked:
        if parts is None:
            perm = rng.permutation(len(terms))
            cut = int(rng.integers(1, len(terms))) if len(terms) > 1 else 1
            parts = [[terms[i] for i in perm[:cut]], [terms[i] for i in perm[cut:]]]
            parts = [p for p in parts if p]
        mpo_run = StackedMpo([ctx.lib(Mpo, model, p, what="Mpo(part)", promised=False) for p in parts])
        ctx.cls("stacked")
    elif ofs is not None:
        mpo_run = ctx.lib(Mpo, model, what="Mpo", promised=False)      # swapped in place by the optimiser
    else:
        mpo_run = mpo_full

    desc = {"model": gm.describe(), "terms": gen.terms_describe(terms, 8), "nterms": len(terms), "dim": gm.dim,
            "sector": np.asarray(qntot).tolist(), "sector_dim": ds, "generic_ranks": ranks,
            "procedure": [[(e[0] if isinstance(e[0], int) else "threshold"), e[1]] for e in proc], "method": method,
            "algo": algo, "nroots": nroots, "omega": omega, "inverse": inverse, "stacked": bool(stacked),
            "start": start_desc, "ofs": None if ofs is None else str(ofs)}
    ctx.describe(desc)
    ctx.cls("method:" + method, "algo:" + algo, f"nroots:{nroots}", "schedule:" + sched_kind)
    if omega is not None:
        ctx.cls("omega")
    if inverse < 0:
        ctx.cls("inverse:-1")

    # ---- run --------------------------------------------------------------------------------------------
    TRACE["calls"].clear()
    TRACE["sweeps"].clear()
    env.reseed_global(rng)
    tag = f"{method}|{algo}"
    def _optimize(*a, **k):
        # `algo="arpack"` is listed in the OptimizeConfig documentation but the branch is `assert False`: give that
        # mechanism its own signature (it is recorded as an open finding) so that any OTHER assertion of the iterative
        # solver is still reported under the generic crash signature
        try:
            return gs.optimize_mps(*a, **k)
        except AssertionError as e:
            import traceback as _tb
            last = _tb.extract_tb(e.__traceback__)[-1]
            if algo == "arpack" and last.name == "eigh_iterative" and "assert False" in (last.line or ""):
                from rv.case import CaseAbort
                ctx.violate("optimize_mps|algo=arpack|documented-option-not-implemented", message="assert False in eigh_iterative")
                raise CaseAbort() from e
            raise

    try:
        energies, res = ctx.lib(_optimize, start, mpo_run, omega=omega, what="optimize_mps",
                                refusals=("primme", "LinAlgError: Internal Error"))
    finally:
        calls = list(TRACE["calls"])
        sweeps = [dict(s) for s in TRACE["sweeps"]]
        ndirect = sum(1 for c in calls if c["solver"] == "eigh_direct")
        niter = len(calls) - ndirect
        ctx.count("eigh_direct_calls", ndirect)
        ctx.count("eigh_iterative_calls", niter)
    ctx.count("optimize_runs")
    if ndirect:
        ctx.cls("solver:direct")
    if niter:
        ctx.cls("solver:iterative")
        ctx.count("runs_with_iterative_solver")
    solver_used = ("direct" if ndirect else "") + ("+iterative" if niter else "")

    # ---- (a) variational bound: every micro-iteration, every sweep, every root ------------------------------
    ctx.count("oracle")
    ctx.check(len(energies) == len(sweeps) and 2 <= len(energies) <= len(proc), "energies|one-entry-per-executed-sweep",
              reported=len(energies), executed=len(sweeps), procedure=len(proc))
    worst = 0.0
    for c in calls:
        e = np.sort(c["e"])
        ctx.count("oracle")
        if not ctx.check(len(e) <= max(nroots, 1) and len(e) >= 1 and bool(np.all(np.isfinite(e))),
                         f"micro-energy|malformed|{tag}", e=e):
            break
        bad = [k for k in range(len(e)) if e[k] < a[k] - slack_of(a[k], specr)]
        worst = max(worst, max((a[k] - e[k]) / slack_of(a[k], specr) for k in range(len(e))))
        if bad:
            ctx.violate(f"energy-below-exact|{tag}|{c['solver']}|micro-iteration" + ("|omega" if omega is not None else "")
                        + ("|inverse" if inverse < 0 else "") + ("|stacked" if stacked else ""),
                        root=bad[0], got=e, exact=a[:len(e)], local_dim=c["local_dim"], sector_dim=ds)
            break
    ctx.metric_max("max_(exact-reported)/slack", worst)
    for s, en in enumerate(energies):
        e = np.sort(np.array(en, dtype=float).reshape(-1))
        ctx.count("oracle")
        bad = [k for k in range(len(e)) if e[k] < a[k] - slack_of(a[k], specr)]
        if bad:
            ctx.violate(f"energy-below-exact|{tag}|sweep" + ("|omega" if omega is not None else "")
                        + ("|inverse" if inverse < 0 else "") + ("|stacked" if stacked else ""),
                        sweep=s, root=bad[0], got=e, exact=a[:len(e)])
            break
        # the reported sweep energy is the minimum over the sweep's micro-iterations
        sl = calls[sweeps[s]["first"]:sweeps[s]["last"]] if s < len(sweeps) else []
        if sl:
            m0 = min(float(c["e"][0]) for c in sl)
            ctx.check(abs(m0 - float(np.array(en, dtype=float).reshape(-1)[0])) <= 1e-12 * max(1.0, abs(m0)),
                      "sweep-energy|not-the-minimum-of-its-micro-iterations", sweep=s, reported=en, minimum=m0)

    # ---- (c)/(d) equality wherever the local problem is the whole sector ------------------------------------------
    def settled(c):
        """The solver call returned eigenpairs, not merely Ritz pairs: direct solver, or Davidson flagged convergence."""
        return c["solver"] == "eigh_direct" or (c["conv"] is not None and all(c["conv"]))

    sfx = ("|omega" if omega is not None else "") + ("|inverse" if inverse < 0 else "") + ("|stacked" if stacked else "")
    complete_sweeps = []
    nexec = len(sweeps)
    stop = False
    for s, sw in enumerate(sweeps):
        sl = calls[sw["first"]:sw["last"]]
        comp = [c for c in sl if c["local_dim"] == ds]
        if comp:
            complete_sweeps.append(s)
        for c in comp:
            e = np.sort(c["e"])
            want = a[:len(e)]
            if c["solver"] == "eigh_direct":
                # the local matrix is A in another orthonormal basis: its lowest eigenvalues are the exact ones
                ctx.count("oracle")
                ctx.count("equality_checked")
                ctx.cls("equality-checked", "equality-checked:direct")
                err = float(np.max(np.abs(e - want) / (1e-8 * np.maximum(1.0, np.abs(want)) + 1e-10 * specr)))
                ctx.metric_max("complete-direct-err/tol", err)
                if err > 1:
                    ctx.violate(f"complete-local-problem|energy-differs-from-exact|{method}|direct" + sfx,
                                sweep=s, got=e, exact=want)
                    stop = True
                    break
            elif settled(c):
                # Davidson flagged |de| < 1e-12 and |r| < 1e-6 for every root: each value lies within |r| of an eigenvalue
                # of A (it need not be the lowest one: a Krylov space started inside an invariant subspace of a
                # Hamiltonian with undeclared symmetries never leaves it)
                ctx.count("oracle")
                ctx.count("equality_checked")
                ctx.cls("equality-checked", "equality-checked:iterative-converged")
                dist = np.array([np.min(np.abs(a - x)) for x in e])
                err = float(np.max(dist / (2e-6 * np.maximum(1.0, np.abs(e)) + 1e-10 * specr)))
                ctx.metric_max("complete-iterative-dist-to-spectrum/tol", err)
                if err > 1:
                    ctx.violate(f"complete-local-problem|converged-davidson-value-not-in-spectrum|{method}" + sfx,
                                sweep=s, got=e, lowest_exact=want, dist=dist)
                    stop = True
                    break
                # several roots: distinct eigenpairs, i.e. a one-to-one assignment to eigenvalues of A (with multiplicity)
                if len(e) > 1:
                    avail = list(a)
                    unmatched = []
                    for xval in e:
                        tol = 4e-6 * max(1.0, abs(xval)) + 2e-10 * specr
                        j = int(np.argmin([abs(y - xval) for y in avail])) if avail else -1
                        if j >= 0 and abs(avail[j] - xval) <= tol:
                            avail.pop(j)
                        else:
                            unmatched.append(float(xval))
                    if unmatched:
                        ctx.violate(f"complete-local-problem|converged-roots-are-not-distinct-eigenvalues|{method}" + sfx,
                                    sweep=s, got=e, unmatched=unmatched, lowest_exact=a[:len(e) + 2])
                        stop = True
                        break
                ctx.cls("complete-iterative:lowest-found" if np.all(np.abs(e - want) <= 2e-6 * np.maximum(1.0, np.abs(want))
                                                                  + 1e-10 * specr) else "complete-iterative:higher-eigenvalues-found")
            else:
                ctx.cls("complete-iterative:davidson-not-converged" + ("|omega" if omega is not None else ""))
                ctx.metric_max("complete-iterative-unconverged-relerr",
                               float(np.max(np.abs(e - want) / np.maximum(1.0, np.abs(want)))))
        if stop:
            break
        # a sweep that contains a directly solved complete micro-iteration reports the exact lowest eigenvalue
        if any(c["solver"] == "eigh_direct" for c in comp) and s < len(energies):
            got0 = float(np.array(energies[s], dtype=float).reshape(-1)[0])
            ctx.count("oracle")
            ctx.count("equality_checked")
            ctx.cls("equality-checked:sweep-energy")
            ctx.check(abs(got0 - a[0]) <= 1e-8 * max(1.0, abs(a[0])) + 1e-10 * specr,
                      f"full-bond-dimension|sweep-energy-differs-from-exact|{method}|direct" + sfx, sweep=s, got=got0, exact=a[0])
    full_sweeps = [s for s in range(nexec) if not truncating[s]]
    if full_sweeps and not complete_sweeps:
        ctx.cls("full-M-incomplete")
    # informative only (NOT an oracle): how often the usual "bond limit >= exact ranks, >= 3 final sweeps at percent 0"
    # regime ends at the exact energies although no micro-iteration spanned the whole sector
    if (not stop and nexec >= 3 and not complete_sweeps and len(energies) == nexec
            and all((not truncating[s]) and proc[s][1] == 0 for s in range(nexec - 3, nexec))):
        last = np.sort(np.array(energies[-1], dtype=float).reshape(-1))
        err = float(np.max(np.abs(last - a[:len(last)]) / np.maximum(1.0, np.abs(a[:len(last)]))))
        ctx.cls("full-M-incomplete:final-energy-exact" if err <= 1e-6 else f"full-M-incomplete:final-energy-above-exact|{method}")

    # ---- (b) returned states ------------------------------------------------------------------------------------
    rlist = res if isinstance(res, list) else [res]
    ctx.check((isinstance(res, list)) == (nroots > 1), "returned|list-iff-nroots>1", type=type(res).__name__)
    if len(rlist) != nroots:
        ctx.cls("fewer-states-than-nroots")
        ctx.check(1 <= len(rlist) <= nroots, "returned|number-of-states", got=len(rlist), nroots=nroots)
    # the micro-iteration the returned states were copied from
    last_sw = sweeps[-1] if sweeps else None
    src = None
    if last_sw is not None and last_sw["cidx"] is not None and last_sw["last_opt_e_idx"] is not None:
        for j, cidx in enumerate(last_sw["cidx"]):
            if cidx == list(last_sw["last_opt_e_idx"]):
                src = calls[last_sw["first"] + j]
    last_entry = proc[nexec - 1] if 1 <= nexec <= len(proc) else None
    lossless = (last_entry is not None and isinstance(last_entry[0], int)
                and (last_entry[0] >= gm.dim or (ofs is None and last_entry[1] == 0 and last_entry[0] >= rmax)))
    dof2site = dense.dof_site_map(basis)

    def dense_original_order(st):
        """Dense vector of a returned state in the ORIGINAL site order (on-the-fly swapping reorders st.model.basis)."""
        psi = states.dense_of(st)
        order = [dof2site[b.dofs[0]] for b in st.model.basis]          # new site k = original site order[k]
        if order == list(range(n)):
            return psi, False
        new_dims = [b.nbas for b in st.model.basis]
        pos = [order.index(j) for j in range(n)]
        return psi.reshape(new_dims).transpose(pos).reshape(-1), True

    for k, st in enumerate(rlist):
        psi, reordered = dense_original_order(st)
        if reordered:
            ctx.cls("ofs:sites-reordered")
        ctx.count("oracle")
        if not ctx.check(bool(np.all(np.isfinite(psi))), "returned-state|non-finite", root=k):
            break
        nrm = float(np.linalg.norm(psi))
        ctx.check(abs(nrm - 1) <= 1e-8, "returned-state|not-normalised", root=k, norm=nrm)
        leak = float(np.linalg.norm(psi[~mask]))
        ctx.check(leak <= 1e-10 * max(nrm, 1e-300), "returned-state|leaks-out-of-sector", root=k, leak=leak)
        ctx.check(np.array_equal(np.asarray(st.qntot).reshape(-1), np.asarray(qntot).reshape(-1)),
                  "returned-state|qntot-changed", got=np.asarray(st.qntot).tolist())
        probs = states.check_labels(st)
        ctx.check(not probs, "returned-state|labels-invalid", problems=probs[:3])
        if nrm < 1e-6:
            continue
        ps = psi[idx] / nrm
        hval = complex(np.vdot(ps, Hs @ ps))
        if omega is None:
            aval = inverse * hval.real
        else:
            v = Hs @ ps - omega * ps
            aval = inverse * float(np.vdot(v, v).real)
        ctx.count("oracle")
        ctx.check(aval >= a[0] - slack_of(a[0], specr), f"returned-state|energy-below-exact-lowest|{tag}", root=k, got=aval,
                  exact=a[0])
        ctx.count("oracle")
        # after a reordering the operator has to be rebuilt from the returned state's model (optimize_mps docstring)
        got = ctx.lib(st.expectation, ctx.lib(Mpo, st.model, what="Mpo(reordered model)") if reordered else mpo_full,
                      what="expectation")
        hscale = max(1.0, abs(hval))
        ctx.metric_max("expectation_vs_dense", abs(complex(got) - hval * nrm ** 2) / hscale)
        ctx.check(abs(complex(got) - hval * nrm ** 2) <= 1e-9 * hscale + 1e-13 * hfro,
                  "returned-state|expectation-differs-from-dense", root=k, got=got, want=hval)
        if src is not None and lossless and k < len(src["e"]):
            ctx.count("oracle")
            ctx.count("state_consistency_checked")
            ctx.cls("state-consistency-checked")
            want = float(src["e"][k])
            err = abs(aval - want) / max(1.0, abs(want))
            ctx.metric_max("returned-state-vs-its-micro-iteration", err)
            # (signature = mechanism: which solver delivered the vector, one- or two-layer operator)
            ctx.check(err <= 1e-7 + 1e-10 * specr,
                      f"returned-state|energy-differs-from-its-micro-iteration|{src['solver']}"
                      + ("|omega" if omega is not None else ""),
                      root=k, state_value=aval, reported=want, method=method, nroots=nroots,
                      state_dtype=str(psi.dtype), complex_H=h_is_complex)
    # returned states copied losslessly from a complete micro-iteration that delivered eigenpairs are eigenstates of A
    if lossless and src is not None and src["local_dim"] == ds and settled(src) and len(rlist) <= len(src["e"]):
        for k, st in enumerate(rlist):
            psi = dense_original_order(st)[0]
            ps = psi[idx] / max(np.linalg.norm(psi), 1e-300)
            if omega is None:
                av = inverse * (Hs @ ps)
            else:
                v = Hs @ ps - omega * ps
                av = inverse * (Hs @ v - omega * v)
            aval = float(np.vdot(ps, av).real)
            resid = float(np.linalg.norm(av - aval * ps))
            ctx.count("oracle")
            ctx.count("equality_checked")
            ctx.cls("equality-checked:returned-eigenstate")
            ctx.metric_max("returned-eigenstate-residual/tol", resid / (1e-5 + 1e-9 * specr))
            # Davidson's own residual criterion is 1e-6 (sqrt of tol 1e-12); the direct solver is exact to round-off
            ctx.check(resid <= 1e-5 + 1e-9 * specr,
                      f"full-bond-dimension|returned-state-is-not-an-eigenstate|{method}|{src['solver']}"
                      + ("|omega" if omega is not None else "") + ("|nroots>1" if nroots > 1 else ""),
                      root=k, residual=resid, value=aval)
            if src["solver"] == "eigh_direct":
                ctx.count("oracle")
                ctx.check(abs(aval - a[k]) <= 1e-8 * max(1.0, abs(a[k])) + 1e-10 * specr,
                          f"full-bond-dimension|returned-state-energy-differs-from-exact|{method}|direct"
                          + ("|omega" if omega is not None else "") + ("|nroots>1" if nroots > 1 else ""),
                          root=k, got=aval, exact=a[k])

    # ---- non-triviality ------------------------------------------------------------------------------------
    executed_trunc = [truncating[s] for s in range(min(nexec, len(proc)))]
    if ds >= 2 and any(executed_trunc) and executed_trunc and not executed_trunc[-1]:
        ctx.nontrivial({"model": gm.describe(), "terms": gen.terms_describe(terms, 40), "sector": np.asarray(qntot).tolist(),
                        "procedure": desc["procedure"], "solver": solver_used, "method": method})


# ---------------------------------------------------------------------------------------- Davidson kernel
def kernel_matrix(rng):
    n = int(rng.choice([5, 8, 13, 30, 60, 120, 200, 300]))
    cplx = bool(rng.random() < 0.4)
    kind = str(rng.choice(["goe", "degenerate", "clustered", "diag-dominant", "nearly-diagonal", "block"],
                          p=[0.15, 0.15, 0.15, 0.15, 0.28, 0.12]))
    if kind == "nearly-diagonal":
        n = int(rng.integers(5, 41))

    def rand_unitary(m):
        x = rng.normal(size=(m, m))
        if cplx:
            x = x + 1j * rng.normal(size=(m, m))
        q, _ = np.linalg.qr(x)
        return q

    if kind == "goe":
        x = rng.normal(size=(n, n))
        if cplx:
            x = x + 1j * rng.normal(size=(n, n))
        mat = (x + x.conj().T) / 2
    elif kind in ("degenerate", "clustered"):
        ev = np.sort(rng.normal(size=n)) * float(rng.choice([1.0, 10.0]))
        g = int(rng.integers(2, min(5, n) + 1))
        k0 = int(rng.integers(0, max(1, min(3, n - g))))
        if kind == "degenerate":
            ev[k0:k0 + g] = ev[k0]
        else:
            ev[k0:k0 + g] = ev[k0] + np.arange(g) * float(10 ** rng.uniform(-7, -3))
        q = rand_unitary(n)
        mat = (q * ev) @ q.conj().T
        mat = (mat + mat.conj().T) / 2
    elif kind in ("diag-dominant", "nearly-diagonal"):
        d = np.sort(rng.uniform(0, 10, size=n))
        x = rng.normal(size=(n, n)) * (0.01 if kind == "nearly-diagonal" else float(rng.choice([0.01, 0.1, 0.3])))
        if cplx:
            x = x + 1j * rng.normal(size=(n, n)) * 0.05
        mat = np.diag(d) + (x + x.conj().T) / 2
    else:
        n1 = max(2, n // 3)
        x1 = rng.normal(size=(n1, n1))
        x2 = rng.normal(size=(n - n1, n - n1))
        if cplx:
            x1 = x1 + 1j * rng.normal(size=x1.shape)
            x2 = x2 + 1j * rng.normal(size=x2.shape)
        mat = np.zeros((n, n), dtype=complex if cplx else float)
        mat[:n1, :n1] = (x1 + x1.conj().T) / 2 + 3.0          # the start vector will live in the upper block
        mat[n1:, n1:] = (x2 + x2.conj().T) / 2
    return mat, kind, cplx


def run_kernel_case(ctx):
    from renormalizer.lib import davidson as davidson_pub
    from renormalizer.lib.davidson.davidson import davidson1
    rng = ctx.rng
    ctx.cls("davidson-kernel")
    descs = []
    for rep in range(int(rng.integers(5, 9))):
        mat, kind, cplx = kernel_matrix(rng)
        n = mat.shape[0]
        exact = np.linalg.eigvalsh(mat)
        anorm = float(max(abs(exact[0]), abs(exact[-1]), 1e-300))
        nroots = int(rng.integers(1, min(4, n) + 1))
        if kind == "nearly-diagonal" and rng.random() < 0.6:
            nroots = 1            # the regime of the optimiser's ground-state searches: almost exact diagonal preconditioner
        tol = float(10 ** rng.uniform(-12, -6))
        max_cycle = int(rng.choice([50, 100, 200]))
        diag = np.real(np.diag(mat)).copy()
        pre = rng.random()
        if pre < 0.5:
            precond = lambda x, e, *args: x / (diag - e + 1e-4)    # noqa: E731 - the form used by gs.eigh_iterative
        else:
            precond = diag
        nguess = int(rng.integers(1, nroots + 1)) if rng.random() < 0.3 else nroots
        guesses = []
        cguess = cplx and rng.random() < 0.5       # all guesses share one dtype (as in gs.single_sweep)
        for g in range(nguess):
            v = rng.random(n) - 0.5
            if cguess:
                v = v + 1j * (rng.random(n) - 0.5)
            if kind == "block":
                v[max(2, n // 3):] = 0          # inside an invariant subspace that does not hold the lowest states
            guesses.append(v)
        if kind == "block" and np.linalg.matrix_rank(np.array(guesses)) < len(guesses):
            guesses = guesses[:1]
        use1 = rng.random() < 0.5
        d = {"n": n, "kind": kind, "complex": cplx, "nroots": nroots, "tol": tol, "max_cycle": max_cycle,
             "entry": "davidson1" if use1 else "davidson", "nguess": len(guesses),
             "precond": "function" if pre < 0.5 else "diagonal-array"}
        descs.append(d)
        ctx.cls("kernel:" + kind, "kernel:complex" if cplx else "kernel:real", f"kernel:nroots{nroots}")
        # monitor of the kernel's own invariant ("the basis of subspace xs must be orthogonal"): Gram matrix of the trial
        # vectors at the end of every cycle, through the documented callback hook
        mon = {"gram": 0.0}

        def gram_of(xs_list, mon=mon):
            xs = np.array([np.asarray(v) for v in xs_list])
            if len(xs):
                g = xs.conj() @ xs.T
                mon["gram"] = max(mon["gram"], float(np.abs(g - np.eye(len(g))).max()))

        def callback(envs, mon=mon):
            mon["xs"] = envs["xs"]       # the list object itself: the final cycle appends to it without calling back
            gram_of(envs["xs"])

        def guarded():
            try:
                if use1:
                    return davidson1(lambda vs: [mat @ v for v in vs], [g.copy() for g in guesses], precond, tol=tol,
                                     max_cycle=max_cycle, nroots=nroots, verbose=0, callback=callback)
                e_, x_ = davidson_pub(lambda x: mat @ x, [g.copy() for g in guesses], precond, tol=tol,
                                      max_cycle=max_cycle, nroots=nroots, verbose=0, callback=callback)
                if nroots == 1:
                    e_, x_ = [e_], [x_]
                return None, e_, x_
            except Exception as exc:  # noqa: BLE001 - attributed below when the subspace had lost orthonormality
                if mon.get("xs") is not None:
                    gram_of(mon["xs"])
                if mon["gram"] > 1e-9:
                    return exc
                raise

        env.reseed_global(rng)
        out = ctx.lib(guarded, what=d["entry"])
        ctx.count("davidson_kernel_runs")
        if mon.get("xs") is not None:
            gram_of(mon["xs"])
        ctx.metric_max("kernel-max-gram-error", mon["gram"])
        fails = []

        def chk(ok, sig, **detail):
            ctx.count("oracle")
            if not ok:
                fails.append((sig, detail))
            return bool(ok)

        if isinstance(out, Exception):
            fails.append(("davidson-kernel|crash|" + type(out).__name__, {"message": str(out)[:120]}))
        else:
            conv, e, xs = out
            e = np.array(e, dtype=float).reshape(-1)
            xs = [np.asarray(x) for x in xs]
            if chk(1 <= len(e) <= nroots and len(xs) == len(e) and bool(np.all(np.isfinite(e))),
                   "davidson-kernel|malformed-result", ne=len(e), nx=len(xs)):
                es = np.sort(e)
                bad = [k for k in range(len(es)) if es[k] < exact[k] - 1e-9 * max(1.0, anorm)]
                chk(not bad, f"davidson-kernel|ritz-value-below-exact|{'complex' if cplx else 'real'}", got=es,
                    exact=exact[:len(es)])
                gram_err = 0.0
                for k, x in enumerate(xs):
                    nx = float(np.linalg.norm(x))
                    if not chk(abs(nx - 1) <= 1e-6, "davidson-kernel|vector-not-normalised", norm=nx, value=e[k],
                               flagged_converged=None if conv is None else bool(conv[k])):
                        continue
                    r = mat @ x - e[k] * x
                    rn = float(np.linalg.norm(r))
                    rq = float(np.real(np.vdot(x, mat @ x)))
                    chk(abs(rq - e[k]) <= 1e-8 * max(1.0, anorm),
                        "davidson-kernel|value-is-not-the-rayleigh-quotient-of-its-vector", value=e[k], rayleigh=rq)
                    for x2 in xs[:k]:
                        gram_err = max(gram_err, abs(np.vdot(x2, x)))
                    if conv is not None and bool(conv[k]):
                        ctx.cls("kernel:converged")
                        lim = 10 * np.sqrt(tol) + 1e-9 * anorm
                        chk(rn <= lim, "davidson-kernel|converged-pair-has-large-residual", residual=rn, limit=lim)
                        near = float(np.min(np.abs(exact - e[k])))
                        chk(near <= rn + 1e-9 * max(1.0, anorm), "davidson-kernel|converged-value-far-from-spectrum",
                            dist=near, residual=rn)
                    elif conv is not None:
                        ctx.cls("kernel:not-converged")
                chk(gram_err <= 1e-6, "davidson-kernel|vectors-not-orthogonal", overlap=gram_err)
        if fails and mon["gram"] > 1e-9:
            # one mechanism, one signature: everything below follows from a trial basis that is no longer orthonormal
            ctx.violate("davidson-kernel|trial-subspace-loses-orthonormality", max_gram_error=mon["gram"],
                        consequences=sorted({f[0] for f in fails}), first=fails[0][1], **d)
        else:
            for sig, detail in fails:
                ctx.violate(sig, **detail, **d)
            if mon["gram"] > 1e-6:
                ctx.cls("kernel:orthonormality-lost-without-visible-consequence")
            ctx.metric_max("kernel-max-gram-error-in-runs-that-passed", mon["gram"])
    ctx.evaluations = max(1, len(descs))
    ctx.describe({"davidson_kernel": descs})
