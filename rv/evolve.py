"""Shared machinery for the time-evolution properties (C09, C10, C13): Hermitian models with dense reference,
initial states that can hold the result, the catalogue of chain evolution schemes with their declared orders."""
import numpy as np
import scipy.linalg

from rv import dense, env, gen, states

RK_METHODS = ["Forward_Euler", "midpoint_RK2", "Heun_RK2", "Ralston_RK2", "Kutta_RK3", "C_RK4", "38rule_RK4",
              "Fehlberg5", "RKF45", "Cash-Karp45"]
RK_ORDER = {"Forward_Euler": 1, "midpoint_RK2": 2, "Heun_RK2": 2, "Ralston_RK2": 2, "Kutta_RK3": 3, "C_RK4": 4,
            "38rule_RK4": 4, "Fehlberg5": 5, "RKF45": 5, "Cash-Karp45": 5}
EMBEDDED = {"RKF45", "Cash-Karp45"}


class Scheme:
    def __init__(self, name, order, make_cfg, family, grows_bonds, time_dependent=False, adaptive_ok=False,
                 imag_ok=True):
        self.name = name
        self.order = order            # int: declared local order p (error ~ h^(p+1)); None: exact up to the local solver
        self.make_cfg = make_cfg      # () -> fresh EvolveConfig
        self.family = family
        self.grows_bonds = grows_bonds
        self.time_dependent = time_dependent
        self.adaptive_ok = adaptive_ok
        self.imag_ok = imag_ok


def schemes():
    from renormalizer.utils import EvolveConfig, EvolveMethod
    out = []
    for k in (1, 2, 3, 4, 5):
        out.append(Scheme(f"pc-taylor{k}", k, (lambda k=k: EvolveConfig(EvolveMethod.prop_and_compress, taylor_order=k)),
                          "pc", True, adaptive_ok=True))
    out.append(Scheme("pc-tdrk4", 4, lambda: EvolveConfig(EvolveMethod.prop_and_compress_tdrk4), "pc", True,
                      time_dependent=True, imag_ok=False))
    for m in RK_METHODS:
        if m in EMBEDDED:
            continue
        out.append(Scheme(f"pc-tdrk-{m}", RK_ORDER[m],
                          (lambda m=m: EvolveConfig(EvolveMethod.prop_and_compress_tdrk, rk_solver=m, adaptive=False)),
                          "pc", True, time_dependent=True, imag_ok=False))
    for solver in ("krylov", "RK45", "RK23"):
        out.append(Scheme(f"ps-{solver}", None,
                          (lambda s=solver: EvolveConfig(EvolveMethod.tdvp_ps, ivp_solver=s, ivp_rtol=1e-8, ivp_atol=1e-10)),
                          "ps", False, adaptive_ok=True))
        out.append(Scheme(f"ps2-{solver}", None,
                          (lambda s=solver: EvolveConfig(EvolveMethod.tdvp_ps2, ivp_solver=s, ivp_rtol=1e-8, ivp_atol=1e-10)),
                          "ps2", True, adaptive_ok=True))
    for mu in (True, False):
        for fo in (True, False):
            def mk(mu=mu, fo=fo):
                c = EvolveConfig(EvolveMethod.tdvp_mu_vmf if mu else EvolveMethod.tdvp_vmf, ivp_rtol=1e-8,
                                 ivp_atol=1e-10, force_ovlp=fo)
                c.vmf_auto_switch = False
                return c
            out.append(Scheme(f"vmf-{'mu' if mu else 'std'}-{'ovlp' if fo else 'noovlp'}", None, mk, "vmf", False,
                              time_dependent=True))
    for solver in ("RK45", "krylov"):
        def mk1(s=solver):
            c = EvolveConfig(EvolveMethod.tdvp_mu_cmf, ivp_solver=s, ivp_rtol=1e-8, ivp_atol=1e-10)
            c.tdvp_cmf_midpoint = False
            return c

        def mk2(s=solver):
            c = EvolveConfig(EvolveMethod.tdvp_mu_cmf, ivp_solver=s, ivp_rtol=1e-8, ivp_atol=1e-10)
            c.tdvp_cmf_midpoint = True
            return c

        def mk3(s=solver):
            c = EvolveConfig(EvolveMethod.tdvp_mu_cmf, ivp_solver=s, ivp_rtol=1e-8, ivp_atol=1e-10)
            c.tdvp_cmf_midpoint = True
            c.tdvp_cmf_c_trapz = True
            return c
        out.append(Scheme(f"cmf1-{solver}", 1, mk1, "cmf", False, adaptive_ok=True))
        out.append(Scheme(f"cmf2-{solver}", 2, mk2, "cmf", False, adaptive_ok=True))
        out.append(Scheme(f"cmf2trapz-{solver}", 2, mk3, "cmf", False))
    return out


SCHEMES = None


def scheme_list():
    global SCHEMES
    if SCHEMES is None:
        SCHEMES = schemes()
    return SCHEMES


# ------------------------------------------------------------------------------------------------ models
class EvoModel:
    pass


def hermitian_model(ctx, nsite=(2, 5), max_dim=200, min_dim=6, qn_mode=None, allow_complex=True, nterms=(2, 6),
                    kinds=None, max_tries=30, gm_factory=None):
    """Random small model with a Hermitian Hamiltonian (verified on the dense matrix) of spectral norm O(1)."""
    from renormalizer.mps import Mpo
    rng = ctx.rng
    for _ in range(max_tries):
        if qn_mode is None:
            qm = rng.choice(["none", "one", "two"], p=[0.35, 0.5, 0.15])
        else:
            qm = qn_mode
        if gm_factory is not None:
            gm = gm_factory(rng)
        else:
            gm = gen.random_basis_list(rng, nsite=nsite, max_dim=max_dim, min_dim=min_dim, qn_mode=qm, kinds=kinds)
        cplx = bool(allow_complex and rng.random() < 0.3)
        terms = gen.hermitian_terms(rng, gm, int(rng.integers(nterms[0], nterms[1] + 1)), max_support=3,
                                    allow_complex=cplx, charge_conserving=True)
        if not terms:
            continue
        H = dense.op_dense(gm.basis, terms)
        if not np.allclose(H, H.conj().T, atol=1e-10 * max(1.0, np.linalg.norm(H))):
            continue
        nrm = float(np.linalg.norm(H, 2))
        if nrm < 1e-6:
            continue
        # rescale so that ||H|| = O(1): the step sizes are chosen relative to ||H||
        from renormalizer.model import Op
        terms = [Op(t.symbol, t.dofs, t.factor / nrm, t.qn_list) for t in terms]
        H = H / nrm
        em = EvoModel()
        em.gm, em.terms, em.H = gm, terms, H
        em.model = states.model_of(gm, terms)
        try:
            em.mpo = Mpo(em.model, terms)
        except Exception as e:  # noqa: BLE001
            if "Cannot cast" in str(e):
                continue
            raise
        em.hnorm = 1.0
        em.complex_h = bool(np.iscomplexobj(H))
        return em
    ctx.refuse("no Hermitian model generated")
    from rv.case import CaseAbort
    raise CaseAbort()


def big_cfg(m=10 ** 6):
    from renormalizer.utils import CompressConfig, CompressCriteria
    return CompressConfig(CompressCriteria.fixed, max_bonddim=m)


def generic_full_state(ctx, em, qntot, complex_amplitudes=None):
    """Generic state of the sector whose bond dimensions equal the largest ranks the sector allows (all Schmidt values
    O(1)): schemes that cannot grow bonds (one-site TDVP, VMF, CMF) can then hold the exact evolved state, and the
    regularised inverses of VMF/CMF act on well-conditioned matrices."""
    rng = ctx.rng
    gm = em.gm
    mps = states.random_mps(rng, gm, em.model, qntot, mmax=max(4, int(np.sqrt(gm.dim)) * 4), percent=1.0)
    if mps is None:
        return None
    mps.compress_config = big_cfg()
    if complex_amplitudes is None:
        complex_amplitudes = rng.random() < 0.4
    if complex_amplitudes:
        states.complexify(rng, mps)
    mps.ensure_right_canonical()
    mps.canonicalise()
    mps.canonicalise()
    mps.scale(1.0 / mps.mp_norm, inplace=True)
    return mps


def low_rank_state(ctx, em, qntot):
    rng = ctx.rng
    mps = states.product_mps(rng, em.gm, em.model, qntot)
    mps.compress_config = big_cfg()
    if rng.random() < 0.4:
        states.complexify(rng, mps)
    return mps


def exact(em, psi, t):
    return scipy.linalg.expm(-1j * t * em.H) @ psi


def run_step(ctx, scheme, mps0, mpo, dt, cfg=None, normalize=False, what=None):
    """One evolve call on a copy carrying a FRESH EvolveConfig (sharing config objects between states is a trap)."""
    m = mps0.copy()
    m.evolve_config = cfg if cfg is not None else scheme.make_cfg()
    return guarded_evolve(ctx, m, mpo, dt, normalize, what or f"evolve|{scheme.name}", scheme.family)


def guarded_evolve(ctx, m, mpo, dt, normalize, what, family):
    """m.evolve(...) with crash classification.  A propagation-and-compression scheme builds the states H^k psi; when
    one of them vanishes identically (H annihilates the state) the library cannot canonicalise the zero state: that
    mechanism gets its own signature."""
    env.reseed_global(ctx.rng)
    from rv.case import CaseAbort, CaseTimeout
    try:
        return m.evolve(mpo, dt, normalize=normalize)
    except (CaseAbort, CaseTimeout):
        raise
    except Exception as e:  # noqa: BLE001
        from rv.case import _innermost_repo_frame
        import traceback
        where = _innermost_repo_frame(e)
        if family == "pc":
            v = states.dense_of(m)
            H = np.asarray((mpo(0) if callable(mpo) else mpo).todense())
            scale = max(float(np.linalg.norm(H)), 1e-300) * max(float(np.linalg.norm(v)), 1e-300)
            for _k in range(1, 7):
                v = H @ v
                if np.linalg.norm(v) <= 1e-14 * scale:
                    ctx.violate(f"evolve|pc|state-annihilated-by-a-power-of-H|crash", scheme=what, where=where,
                                message=f"{type(e).__name__}: {str(e)[:120]}")
                    raise CaseAbort() from e
                scale *= max(float(np.linalg.norm(H)), 1e-300)
        lim = getattr(m.compress_config, "bond_dim_max_value", None)
        if (family == "pc" and isinstance(e, AssertionError) and str(e) == ""
                and where in ("renormalizer/mps/mp.py:_push_cano", "renormalizer/mps/mp.py:scale")
                and lim is not None and max(m.bond_dims) > lim):
            # the same zero-state mechanism, reached after the scheme's own (lossy) compression of the operand: the
            # truncated state is annihilated by H although the original one is not
            ctx.violate("evolve|pc|truncated-state-annihilated-by-H|crash", scheme=what, where=where, bonds=m.bond_dims, limit=int(lim))
            raise CaseAbort() from e
        ctx.violate(f"{what}|crash|{type(e).__name__}@{where}", message=f"{type(e).__name__}: {str(e)[:120]}",
                    traceback=traceback.format_exc()[-1500:])
        raise CaseAbort() from e
