"""Per-case context: what a property's workload records while it runs one case."""
import os
import time
import traceback
import warnings

from rv import env


class CaseAbort(Exception):
    """Raised to leave a case early after a refusal or a recorded violation."""


class CaseTimeout(Exception):
    pass


class Ctx:
    def __init__(self, prop, tier, seed, idx):
        self.prop, self.tier, self.seed, self.idx = prop, tier, seed, idx
        self.rng = env.case_rng(prop, tier, seed, idx)
        self.classes = set()
        self.counters = {}
        self.violations = []
        self.refusals = []
        self.nontrivial_hashes = []
        self.evaluations = 1
        self.descriptor = None
        self.metrics = {}
        self.warnings = []
        self.inconclusive = []

    # ---- recording -------------------------------------------------------------------------------
    def cls(self, *names):
        for n in names:
            self.classes.add(str(n))

    def count(self, name, n=1):
        self.counters[name] = self.counters.get(name, 0) + int(n)

    def metric_max(self, name, val):
        val = float(val)
        if name not in self.metrics or val > self.metrics[name]:
            self.metrics[name] = val

    def describe(self, obj):
        self.descriptor = env.jsonable(obj)

    def nontrivial(self, key=None):
        """Mark this case (or a sub-case identified by `key`) as non-trivial by the property's rule."""
        if key is None:
            key = self.descriptor
        self.nontrivial_hashes.append(env.dhash(key))

    def violate(self, signature, **detail):
        self.violations.append({"signature": f"{self.prop}|{signature}", "detail": env.jsonable(detail)})

    def refuse(self, message):
        self.refusals.append(str(message)[:160])

    def note_inconclusive(self, why):
        self.inconclusive.append(str(why)[:160])

    # ---- oracles ---------------------------------------------------------------------------------
    def check(self, ok, signature, **detail):
        """Record a violation when `ok` is false.  Returns ok."""
        if not ok:
            self.violate(signature, **detail)
        return bool(ok)

    def close(self, got, want, tol, signature, scale=None, **detail):
        import numpy as np
        got = np.asarray(got)
        want = np.asarray(want)
        if got.shape != want.shape:
            self.violate(signature + "|shape", got_shape=list(got.shape), want_shape=list(want.shape), **detail)
            return False
        if scale is None:
            scale = max(1.0, float(np.linalg.norm(want.ravel())))
        if not (np.all(np.isfinite(got)) ):
            self.violate(signature + "|nonfinite", **detail)
            return False
        err = float(np.linalg.norm((got - want).ravel()))
        self.metric_max("max_rel_err:" + signature.split("|")[0], err / scale)
        if err > tol * scale:
            if got.size <= 4:
                detail = dict(detail, got=got, want=want)
            self.violate(signature, err=err, scale=scale, tol=tol, **detail)
            return False
        return True

    # ---- calling the library ---------------------------------------------------------------------
    def lib(self, fn, *args, promised=True, what=None, refusals=(), **kwargs):
        """Call into the repository.

        An exception on an input class the property promises (`promised=True`) is a violation; exceptions
        whose message matches one of `refusals` (documented refusals) or any exception when
        `promised=False` make the case `refused`.
        """
        what = what or getattr(fn, "__name__", "call")
        try:
            return fn(*args, **kwargs)
        except (CaseAbort, CaseTimeout):
            raise
        except BaseException as e:  # noqa: BLE001 - AssertionError etc. included on purpose
            if isinstance(e, (KeyboardInterrupt, SystemExit, MemoryError)):
                raise
            msg = f"{type(e).__name__}: {str(e)[:120]}"
            where = _innermost_repo_frame(e)
            for pat in refusals:
                if pat in msg:
                    self.refuse(f"{what}: {pat}")
                    raise CaseAbort() from e
            if not promised:
                self.refuse(f"{what}: {msg}")
                raise CaseAbort() from e
            self.violate(f"{what}|crash|{type(e).__name__}@{where}", message=msg,
                         traceback=traceback.format_exc()[-1500:])
            raise CaseAbort() from e

    def event(self, verdict, wall, keep_descriptor):
        ev = {
            "case": self.idx,
            "verdict": verdict,
            "evaluations": self.evaluations,
            "nontrivial": self.nontrivial_hashes,
            "classes": sorted(self.classes),
            "counters": self.counters,
            "metrics": self.metrics,
            "violations": self.violations,
            "refusals": self.refusals,
            "inconclusive": self.inconclusive,
            "wall": round(wall, 3),
        }
        if keep_descriptor or self.violations:
            ev["descriptor"] = self.descriptor
        return ev


def _innermost_repo_frame(e):
    tb = traceback.extract_tb(e.__traceback__)
    root = os.path.realpath(env.REPO_ROOT)
    for fr in reversed(tb):
        f = os.path.realpath(fr.filename)
        if f.startswith(root + os.sep):
            return f"{os.path.relpath(f, root)}:{fr.name}"
    return "harness"


def innermost_is_repo(e):
    tb = traceback.extract_tb(e.__traceback__)
    if not tb:
        return False, "none"
    root = os.path.realpath(env.REPO_ROOT)
    f = os.path.realpath(tb[-1].filename)
    in_repo_chain = _innermost_repo_frame(e)
    if f.startswith(root + os.sep):
        return True, in_repo_chain
    # exception raised inside numpy/scipy but called from the repository (not from the harness directly)
    verif = os.path.realpath(env.VERIF_ROOT)
    for fr in reversed(tb):
        ff = os.path.realpath(fr.filename)
        if ff.startswith(root + os.sep):
            return True, in_repo_chain
        if ff.startswith(verif + os.sep):
            return False, "harness"
    return False, "harness"


def run_one(module, prop, tier, seed, idx, keep_descriptor=False, time_limit=None):
    """Run one case of a property module and return its event dict."""
    import signal
    ctx = Ctx(prop, tier, seed, idx)
    t0 = time.time()

    def _alarm(signum, frame):
        raise CaseTimeout()

    old = None
    if time_limit:
        old = signal.signal(signal.SIGALRM, _alarm)
        signal.alarm(int(time_limit))
    verdict = None
    try:
        with warnings.catch_warnings(record=True) as wlist:
            warnings.simplefilter("always")
            try:
                module.run_case(ctx)
            except CaseAbort:
                pass
            finally:
                seen = {}
                for w in wlist:
                    k = w.category.__name__
                    seen[k] = seen.get(k, 0) + 1
                if seen:
                    ctx.metrics["warnings"] = seen
    except CaseTimeout:
        ctx.note_inconclusive(f"case exceeded {time_limit}s")
    except BaseException as e:  # noqa: BLE001
        if isinstance(e, (KeyboardInterrupt, SystemExit)):
            raise
        in_repo, where = innermost_is_repo(e)
        msg = f"{type(e).__name__}: {str(e)[:120]}"
        if in_repo:
            ctx.violate(f"unclassified-crash|{type(e).__name__}@{where}", message=msg,
                        traceback=traceback.format_exc()[-1500:])
        else:
            ctx.note_inconclusive("harness-error " + msg + " :: " + traceback.format_exc()[-600:])
            verdict = "harness_error"
    finally:
        if time_limit:
            signal.alarm(0)
            signal.signal(signal.SIGALRM, old)
    if verdict is None:
        if ctx.violations:
            verdict = "violated"
        elif ctx.inconclusive:
            verdict = "inconclusive"
        elif ctx.refusals and not ctx.nontrivial_hashes and not ctx.counters.get("oracle", 0):
            verdict = "refused"
        else:
            verdict = "held"
    return ctx.event(verdict, time.time() - t0, keep_descriptor)
