"""Process bootstrap for check workers: paths, environment, seeding, watchdog."""
import faulthandler
import hashlib
import json
import os
import sys
import warnings

VERIF_ROOT = os.path.dirname(os.path.dirname(os.path.abspath(__file__)))
REPO_ROOT = os.environ.get("REPO_ROOT", "/repo")
GUARD = "RENORMALIZER_VERIF"


def bootstrap():
    """Must run before `import renormalizer` / numpy."""
    for k in ("OMP_NUM_THREADS", "MKL_NUM_THREADS", "OPENBLAS_NUM_THREADS", "NUMEXPR_NUM_THREADS"):
        os.environ.setdefault(k, "1")
    os.environ.setdefault("RENO_LOG_LEVEL", "50")
    os.environ.setdefault(GUARD, "1")
    shim = os.path.join(VERIF_ROOT, "rv", "shims")
    deps = os.path.join(VERIF_ROOT, ".deps")
    for p in (deps, shim, VERIF_ROOT, REPO_ROOT):
        if p in sys.path:
            sys.path.remove(p)
    # repository working tree first, so edits to /repo are picked up with no build step
    sys.path[:0] = [REPO_ROOT, VERIF_ROOT, shim, deps]
    faulthandler.enable()
    warnings.filterwarnings("ignore", category=DeprecationWarning)
    import logging
    logging.disable(logging.CRITICAL)
    _reach()


def _reach():
    """Opt-in (tools/reach.py): record which library lines the workload of a check executes.  Never on in registered commands."""
    d = os.environ.get("VERIF_REACH_DIR")
    if not d:
        return
    import atexit
    import coverage
    cov = coverage.Coverage(data_file=os.path.join(d, "cov"), data_suffix=True, include=[os.path.join(REPO_ROOT, "renormalizer", "*")],
                            omit=["*/tests/*"], config_file=False)
    cov.start()

    def done():
        cov.stop()
        cov.save()
    atexit.register(done)


def case_seed(prop: str, tier: str, seed: int, idx: int):
    """Deterministic per-case entropy: a pure function of (VERIF_SEED, property, tier, case index)."""
    h = hashlib.sha256(f"{prop}|{tier}|{seed}|{idx}".encode()).digest()
    return [int.from_bytes(h[i:i + 4], "little") for i in range(0, 16, 4)]


def case_rng(prop, tier, seed, idx):
    import numpy as np
    words = case_seed(prop, tier, seed, idx)
    return np.random.default_rng(np.random.SeedSequence(words))


def reseed_global(rng):
    """Pin the library's own use of the global numpy RNG (Mps.random, add_orthonormal_basis, davidson guesses)."""
    import numpy as np
    np.random.seed(int(rng.integers(0, 2**31 - 1)))


def repo_git_hash():
    import subprocess
    try:
        return subprocess.run(["git", "-C", REPO_ROOT, "rev-parse", "HEAD"], capture_output=True, text=True,
                              timeout=20).stdout.strip()
    except Exception:
        return "unknown"


def jsonable(x):
    """Convert numpy scalars / arrays / tuples into JSON-serialisable data."""
    import numpy as np
    if isinstance(x, dict):
        return {str(k): jsonable(v) for k, v in x.items()}
    if isinstance(x, (list, tuple, set)):
        return [jsonable(v) for v in x]
    if isinstance(x, np.ndarray):
        if x.size > 64:
            return {"ndarray": list(x.shape), "norm": float(np.linalg.norm(x))}
        return jsonable(x.tolist())
    if isinstance(x, (np.integer,)):
        return int(x)
    if isinstance(x, (np.floating,)):
        return float(x)
    if isinstance(x, (complex, np.complexfloating)):
        return [float(x.real), float(x.imag)]
    if isinstance(x, (np.bool_,)):
        return bool(x)
    if isinstance(x, (str, int, float, bool)) or x is None:
        return x
    return repr(x)


def dhash(obj) -> str:
    return hashlib.sha1(json.dumps(jsonable(obj), sort_keys=True).encode()).hexdigest()[:16]
