"""Python-level file-system fault injector (C14).  Installed inside a CHILD process only.

Every file-system operation that touches a path under one watched directory is an *event* with a running index:

    mkdir / makedirs-step, exists, remove, rename, replace, open, write, flush, close

``install(root, emit, plan)`` patches ``builtins.open`` / ``io.open``, ``os.rename``, ``os.replace``, ``os.remove``,
``os.unlink``, ``os.mkdir`` and ``os.path.exists`` (reported, never crashed: it changes nothing).  ``numpy.savez`` writes
through ``zipfile.ZipFile(<path>)`` -> ``io.open`` and is therefore covered by the file proxy.

``plan`` (all optional):
    crash_at   : event index at which the process dies
    crash_mode : "before"  -> ``os._exit`` at the entry of the operation, Python buffers are lost (like SIGKILL)
                 "flushed" -> the buffers written so far reach the kernel, then the process dies before the operation
                 "half"    -> (write events) half of the buffer is written and flushed, then the process dies
                              (non-write events: same as "flushed")
    ioerror_at : event index of a write at which ``OSError(ENOSPC)`` is raised after half of the buffer was written;
                 every later write/flush on the same file object fails too (the disk stays full until that file is
                 closed).  A failing disk, not a crash; the job under test decides what to do with it

``emit(line)`` receives one line per event (``"V <index> <op> <name> <nbytes>"``); it must not buffer.
Nothing here imports the repository.
"""
import builtins
import errno
import io
import os

EXIT_CODE = 77


class Injector:
    def __init__(self, root, emit, plan=None):
        self.root = os.path.realpath(root)
        self.emit = emit
        plan = plan or {}
        self.crash_at = plan.get("crash_at")
        self.crash_mode = plan.get("crash_mode", "before")
        self.ioerror_at = plan.get("ioerror_at")
        self.n = 0
        self.open_files = []
        self.full_disk = set()
        self.orig = {}

    # ------------------------------------------------------------------------------------------ helpers
    def watched(self, path):
        if isinstance(path, int):
            return False
        try:
            p = os.path.abspath(os.fspath(path))
        except TypeError:
            return False
        if isinstance(p, bytes):
            p = os.fsdecode(p)
        parent = os.path.realpath(os.path.dirname(p))
        p = os.path.join(parent, os.path.basename(p))
        return p == self.root or p.startswith(self.root + os.sep)

    def name(self, path):
        return os.path.basename(os.fspath(path)) or "."

    def event(self, op, path, nbytes=0, fobj=None, buf=None):
        """Announce the event; die here if the plan says so.  Returns "ioerror" when the caller has to fail."""
        idx = self.n
        self.n += 1
        self.emit(f"V {idx} {op} {self.name(path)} {nbytes}")
        if idx == self.crash_at:
            mode = self.crash_mode
            if mode == "half" and op == "write" and fobj is not None and buf is not None:
                half = len(buf) // 2
                fobj.write(bytes(buf[:half]))
                fobj.flush()
            elif mode in ("half", "flushed"):
                for f in self.open_files:
                    try:
                        f.flush()
                    except Exception:  # noqa: BLE001
                        pass
            self.emit(f"K {idx} {op} {mode}")
            os._exit(EXIT_CODE)
        if idx == self.ioerror_at and op == "write" and fobj is not None and buf is not None:
            half = len(buf) // 2
            fobj.write(bytes(buf[:half]))
            fobj.flush()
            self.emit(f"F {idx} {op} ioerror")
            self.full_disk.add(id(fobj))
            return "ioerror"
        if fobj is not None and id(fobj) in self.full_disk and op in ("write", "flush"):
            return "ioerror"            # the disk stays full for this file until it is closed
        return None

    # ------------------------------------------------------------------------------------------ patches
    def install(self):
        inj = self
        o = self.orig
        o["open"] = builtins.open
        o["rename"], o["replace"], o["remove"], o["unlink"], o["mkdir"] = os.rename, os.replace, os.remove, os.unlink, os.mkdir
        o["exists"] = os.path.exists

        def p_open(file, mode="r", *a, **k):
            if inj.watched(file):
                inj.event("open", file)
                f = o["open"](file, mode, *a, **k)
                if any(c in mode for c in "wax+"):
                    proxy = FileProxy(inj, f, file)
                    inj.open_files.append(f)
                    return proxy
                return f
            return o["open"](file, mode, *a, **k)

        def two(name):
            def f(src, dst, *a, **k):
                if inj.watched(src) or inj.watched(dst):
                    inj.event(name, src)
                return o[name](src, dst, *a, **k)
            return f

        def one(name):
            def f(path, *a, **k):
                if inj.watched(path):
                    inj.event(name, path)
                return o[name](path, *a, **k)
            return f

        def p_exists(path):
            if inj.watched(path):
                inj.event("exists", path)
            return o["exists"](path)

        builtins.open = p_open
        io.open = p_open
        os.rename, os.replace = two("rename"), two("replace")
        os.remove, os.unlink, os.mkdir = one("remove"), one("unlink"), one("mkdir")
        os.path.exists = p_exists
        return self


class FileProxy:
    """Wraps a file opened for writing under the watched directory; every write/flush/close is an event."""

    def __init__(self, inj, f, path):
        self._inj, self._f, self._path = inj, f, path

    def write(self, buf):
        r = self._inj.event("write", self._path, len(buf), fobj=self._f, buf=buf)
        if r == "ioerror":
            raise OSError(errno.ENOSPC, "No space left on device (injected)")
        return self._f.write(buf)

    def flush(self):
        if self._inj.event("flush", self._path, fobj=self._f) == "ioerror":
            raise OSError(errno.ENOSPC, "No space left on device (injected)")
        return self._f.flush()

    def close(self):
        if not self._f.closed:
            self._inj.event("close", self._path)
        try:
            return self._f.close()
        finally:
            self._inj.full_disk.discard(id(self._f))
            if self._f in self._inj.open_files:
                self._inj.open_files.remove(self._f)

    def __enter__(self):
        return self

    def __exit__(self, *a):
        self.close()

    def __getattr__(self, item):
        return getattr(self._f, item)

    def __iter__(self):
        return iter(self._f)


def install(root, emit, plan=None):
    return Injector(root, emit, plan).install()
