"""Generators: basis lists (models), site-operator catalogues, term lists, Hermitian Hamiltonians."""
import numpy as np

from rv import dense


class SiteOp:
    """An ordered product of elementary symbols living on one basis set."""
    __slots__ = ("words", "dofs", "qns", "mat", "charge", "definite", "is_complex", "site")

    def __init__(self, site, words, dofs, qns, mat, sigmaqn):
        self.site = site
        self.words = list(words)
        self.dofs = list(dofs)
        self.mat = np.asarray(mat)
        self.is_complex = bool(np.iscomplexobj(self.mat))   # dtype based: "Y Y" is real-valued but complex typed
        nz = np.argwhere(np.abs(self.mat) > 1e-14)
        charges = {tuple((sigmaqn[i] - sigmaqn[j]).tolist()) for i, j in nz}
        self.definite = len(charges) <= 1
        mcharge = np.array(charges.pop(), dtype=int) if len(charges) == 1 else None   # None: zero matrix or indefinite
        if qns is None:
            # put the whole charge on the first word
            c0 = mcharge if mcharge is not None else np.zeros(sigmaqn.shape[1], dtype=int)
            qns = [c0.copy()] + [np.zeros_like(c0) for _ in words[1:]]
        self.qns = [np.asarray(q, dtype=int).reshape(-1) for q in qns]
        self.set_qns(self.qns, mcharge)

    def set_qns(self, qns, mcharge=None):
        """The charge of the site operator is by definition the sum of the labels of its words (what the library
        sees); for a non-zero matrix it must agree with the charge read off the matrix."""
        self.qns = [np.asarray(q, dtype=int).reshape(-1) for q in qns]
        self.charge = sum(self.qns, np.zeros_like(self.qns[0]))
        if mcharge is not None and self.definite:
            assert np.array_equal(self.charge, mcharge), (self.words, self.charge, mcharge)

    @property
    def symbol(self):
        return " ".join(self.words)

    def key(self):
        return (self.site, tuple(self.words), tuple(map(repr, self.dofs)))


HALFSPIN_ANY = ["X", "Y", "Z", "sigma_+", "sigma_-", "sigma_x", "sigma_y", "sigma_z", "iY", "I"]
HALFSPIN_QN = ["Z", "sigma_+", "sigma_-", "sigma_z", "I"]
SHO_SYMS = ["b", r"b^\dagger", r"b^\dagger b", r"b b^\dagger", r"b^\dagger + b", "b b", r"b^\dagger b^\dagger",
            "x", "x^2", "x^3", "x x", "p", "p^2", "dx", "dx^2", "n", "I", "x p", "p x", "x^4", "p p"]
SINE_SYMS = ["I", "x", "x^2", "x^3", "dx", "dx^2", "p", "p^2", "x dx", "x^2 dx", "x p^2", "x^2 p^2"]
HOPS_SYMS = [r"b^\dagger b", r"\tilde{b}^\dagger", r"\tilde{b}", "I"]


def _split_words(sym):
    return sym.replace(r"b^\dagger + b", r"b^\dagger+b").split(" ")


def site_catalog(site, basis, rng=None, rich=True):
    """All site operators the generator may use on `basis` (with matrices and charges computed from the matrix)."""
    from renormalizer.model import basis as ba
    from renormalizer.model import Op
    sq = np.asarray(basis.sigmaqn)
    has_qn = bool(np.any(sq != 0))
    out = []

    def add(sym, dofs, qns=None):
        words = _split_words(sym)
        if not isinstance(dofs, list):
            dofs = [dofs] * len(words)
        try:
            mat = basis.op_mat(Op(sym, dofs, 1.0, qn=qns if qns is not None else [np.zeros(sq.shape[1], dtype=int)] * len(words)))
        except ValueError:
            return
        so = SiteOp(site, words, dofs, qns, mat, sq)
        if has_qn and not so.definite:
            return
        out.append(so)

    if isinstance(basis, ba.BasisHalfSpin):
        singles = HALFSPIN_QN if has_qn else HALFSPIN_ANY
        for s in singles:
            add(s, basis.dof)
        if rich:
            for s1 in singles[:5]:
                for s2 in singles[:5]:
                    add(f"{s1} {s2}", basis.dof)
        # per-word charges for products: recompute so each word carries its own charge
        if has_qn:
            single_charge = {}
            for so in out:
                if len(so.words) == 1:
                    single_charge[so.words[0]] = so.charge
            for so in out:
                if len(so.words) > 1:
                    so.set_qns([single_charge[w].copy() for w in so.words])
    elif isinstance(basis, ba.BasisSHO):
        for s in SHO_SYMS:
            if basis.nbas == 1 and s in ("x p", "p x"):
                pass
            add(s, basis.dof)
    elif isinstance(basis, ba.BasisSineDVR):
        for s in SINE_SYMS:
            add(s, basis.dof)
    elif isinstance(basis, ba.BasisHopsBoson):
        for s in HOPS_SYMS:
            add(s, basis.dof)
    elif isinstance(basis, ba.BasisSimpleElectron):
        z = np.zeros(sq.shape[1], dtype=int)
        q1 = sq[1] - sq[0]
        add(r"a^\dagger", basis.dof, [q1])
        add("a", basis.dof, [-q1])
        add(r"a^\dagger a", basis.dof, [q1, -q1])
        add("I", basis.dof, [z])
    elif isinstance(basis, ba.BasisMultiElectronVac):
        z = np.zeros(sq.shape[1], dtype=int)
        one = np.ones(sq.shape[1], dtype=int)
        for d in basis.dofs:
            add(r"a^\dagger", d, [one])
            add("a", d, [-one])
        for d1 in basis.dofs:
            for d2 in basis.dofs:
                add(r"a^\dagger a", [d1, d2], [one, -one])
        add("I", basis.dofs[0], [z])
    elif isinstance(basis, ba.BasisMultiElectron):
        z = np.zeros(sq.shape[1], dtype=int)
        for i1, d1 in enumerate(basis.dofs):
            for i2, d2 in enumerate(basis.dofs):
                add(r"a^\dagger a", [d1, d2], [sq[i1], -sq[i2]])
                if rich:
                    add(r"a a^\dagger", [d1, d2], [-sq[i1], sq[i2]])
        add("I", basis.dofs[0], [z])
    elif isinstance(basis, ba.BasisDummy):
        add("I", basis.dof, [np.zeros(sq.shape[1], dtype=int)])
    else:
        raise TypeError(type(basis))
    return out


class GenModel:
    def __init__(self, basis, desc):
        self.basis = basis
        self.desc = desc
        self.qn_size = basis[0].sigmaqn.shape[1]
        self.dims = [b.nbas for b in basis]
        self.dim = int(np.prod(self.dims))
        self.catalog = [site_catalog(i, b) for i, b in enumerate(basis)]
        self.has_qn = any(np.any(np.asarray(b.sigmaqn) != 0) for b in basis)

    def describe(self):
        return self.desc


DOF_STYLES = ["int", "str", "tuple"]


def _dofname(rng, style, i, prefix):
    if style == "int":
        return i
    if style == "str":
        return f"{prefix}{i}"
    return (prefix, i)


def long_chain(rng, nmin=10, nmax=11, qn_mode=None):
    """A chain of more than ten two-state sites (site / bond indices with two digits)."""
    if qn_mode is None:
        qn_mode = str(rng.choice(["none", "one", "two"], p=[0.3, 0.5, 0.2]))
    kinds = {"none": ["spin0", "elec0"], "one": ["spin", "elec", "spin0"], "two": ["spin", "elec"]}[qn_mode]
    return random_basis_list(rng, nsite=(nmin, nmax), max_dim=2 ** nmax, min_dim=2 ** nmin, qn_mode=qn_mode, kinds=kinds)


def signed_spin_chain(rng, nsite=(4, 8), with_vibrations=True):
    """Spin-1/2 sites labelled by S_z (+1 / -1, either order) and optionally a vibration: the total label ZERO is a
    populated sector with several symmetry blocks on every bond (labels of both signs)."""
    from renormalizer.model import basis as ba
    n = int(rng.integers(nsite[0], nsite[1] + 1))
    basis, desc = [], []
    for i in range(n):
        if with_vibrations and i > 0 and rng.random() < 0.15:
            nb = int(rng.integers(2, 4))
            basis.append(ba.BasisSHO(f"v{i}", 1.0, nb))
            desc.append(("SHO", repr(f"v{i}"), {"omega": 1.0, "nbas": nb, "x0": 0.0, "dvr": False}))
        else:
            sq = [1, -1] if rng.random() < 0.7 else [-1, 1]
            basis.append(ba.BasisHalfSpin(f"s{i}", sigmaqn=sq))
            desc.append(("HalfSpin", repr(f"s{i}"), sq))
    return GenModel(basis, {"qn_mode": "one", "basis": desc, "signed": True})


def zero_sector(gm):
    """The all-zero total label if it is populated, else None."""
    from rv import dense
    q = np.zeros(gm.qn_size, dtype=int)
    return q if int(dense.sector_mask(gm.basis, q).sum()) >= 2 else None


def random_basis_list(rng, nsite=(1, 6), max_dim=1024, qn_mode=None, kinds=None, min_dim=1):
    """Ordered list of basis sets mixing the kinds of DESIGN 2.2.

    qn_mode: "none" (all labels zero), "one" (one conserved number carried by electrons/spins),
             "two" (two components, spins/electrons only).
    """
    from renormalizer.model import basis as ba
    if qn_mode is None:
        qn_mode = rng.choice(["none", "one", "two"], p=[0.4, 0.45, 0.15])
    for _attempt in range(200):
        n = int(rng.integers(nsite[0], nsite[1] + 1))
        style = DOF_STYLES[int(rng.integers(0, 3))]
        basis, desc = [], []
        counter = 0
        if kinds is not None:
            pool = kinds
        elif qn_mode == "two":
            pool = ["spin", "elec", "multi", "dummy"]
        elif qn_mode == "one":
            pool = ["spin", "elec", "sho", "sho", "multivac", "multi", "sine", "hops", "spin0"]
        else:
            pool = ["spin0", "sho", "sho", "elec0", "sine", "hops", "dummy", "shox0", "shodvr"]
        for i in range(n):
            kind = pool[int(rng.integers(0, len(pool)))]
            name = _dofname(rng, style, counter, kind[0])
            counter += 1
            if kind in ("spin", "spin0"):
                if qn_mode == "none" or kind == "spin0":
                    sq = None if qn_mode != "two" else [[0, 0], [0, 0]]
                    if qn_mode == "one":
                        sq = [0, 0]
                elif qn_mode == "one":
                    sq = [[1, 0], [0, 1], [1, -1]][int(rng.integers(0, 3))]
                else:
                    sq = [[[0, 0], [1, 0]], [[0, 0], [0, 1]], [[1, 0], [0, 0]], [[0, 1], [1, 0]]][int(rng.integers(0, 4))]
                b = ba.BasisHalfSpin(name, sigmaqn=sq)
                desc.append(("HalfSpin", repr(name), sq))
            elif kind in ("elec", "elec0"):
                if qn_mode == "two":
                    sq = [[[0, 0], [1, 0]], [[0, 0], [0, 1]], [[0, 0], [1, 1]]][int(rng.integers(0, 3))]
                elif qn_mode == "none":
                    sq = [0, 0]
                else:
                    sq = None
                b = ba.BasisSimpleElectron(name, sigmaqn=sq)
                desc.append(("SimpleElectron", repr(name), sq))
            elif kind in ("sho", "shox0", "shodvr"):
                if qn_mode == "two":
                    continue
                nb = int(rng.integers(1, 6)) if rng.random() < 0.15 else int(rng.integers(2, 6))
                omega = float(rng.choice([0.5, 1.0, 1.7, 0.013]))
                x0 = float(rng.choice([0.0, 0.0, 0.7, -1.3])) if kind != "sho" or rng.random() < 0.2 else 0.0
                dvr = (kind == "shodvr")
                b = ba.BasisSHO(name, omega, nb, x0=x0, dvr=dvr)
                desc.append(("SHO", repr(name), {"omega": omega, "nbas": nb, "x0": x0, "dvr": dvr}))
            elif kind == "sine":
                if qn_mode == "two":
                    continue
                nb = int(rng.integers(2, 6))
                xi = float(rng.choice([-1.0, 0.0, 0.5]))
                xf = xi + float(rng.choice([1.0, 2.5]))
                endpoint = bool(rng.random() < 0.3)
                b = ba.BasisSineDVR(name, nb, xi, xf, endpoint=endpoint)
                desc.append(("SineDVR", repr(name), {"nbas": nb, "xi": xi, "xf": xf, "endpoint": endpoint}))
            elif kind == "hops":
                if qn_mode == "two":
                    continue
                nb = int(rng.integers(2, 5))
                b = ba.BasisHopsBoson(name, nb)
                desc.append(("HopsBoson", repr(name), nb))
            elif kind == "multivac":
                k = int(rng.integers(1, 4))
                names = [_dofname(rng, style, counter + j, "m") for j in range(k)]
                counter += k
                b = ba.BasisMultiElectronVac(names)
                desc.append(("MultiElectronVac", repr(names), None))
            elif kind == "multi":
                k = int(rng.integers(2, 4))
                names = [_dofname(rng, style, counter + j, "M") for j in range(k)]
                counter += k
                if qn_mode == "two":
                    sq = [[int(rng.integers(0, 2)), int(rng.integers(0, 2))] for _ in range(k)]
                elif qn_mode == "one":
                    sq = [int(rng.integers(0, 2)) for _ in range(k)]
                else:
                    sq = [0] * k
                b = ba.BasisMultiElectron(names, sq)
                desc.append(("MultiElectron", repr(names), sq))
            elif kind == "dummy":
                nb = 1
                sq = None if qn_mode != "two" else [[0, 0]]
                b = ba.BasisDummy(name, nbas=nb, sigmaqn=sq)
                desc.append(("Dummy", repr(name), nb))
            else:
                raise ValueError(kind)
            basis.append(b)
        if not basis:
            continue
        dim = int(np.prod([b.nbas for b in basis]))
        if dim > max_dim or dim < min_dim:
            continue
        sizes = {b.sigmaqn.shape[1] for b in basis}
        if len(sizes) != 1:
            continue
        return GenModel(basis, {"qn_mode": str(qn_mode), "basis": desc})
    raise RuntimeError("could not generate a basis list within the dimension cap")


def make_op(siteops, factor):
    """Op for the product of site operators (any site order), elementary symbols in the given order."""
    from renormalizer.model import Op
    words, dofs, qns = [], [], []
    for so in siteops:
        words += [w.replace(r"b^\dagger+b", r"b^\dagger + b") for w in so.words]
        dofs += so.dofs
        qns += so.qns
    return Op(" ".join(words), dofs, factor, qn=qns)


def random_factor(rng, complex_ok=True, decades=3):
    mag = 10.0 ** rng.uniform(-decades, decades) if rng.random() < 0.5 else float(rng.uniform(0.1, 2.0))
    sign = -1.0 if rng.random() < 0.5 else 1.0
    if complex_ok and rng.random() < 0.3:
        ph = rng.uniform(0, 2 * np.pi)
        return complex(mag * np.cos(ph), mag * np.sin(ph))
    return sign * mag


def random_siteops(rng, gm, max_support=None, target_charge=None, allow_complex=True, allow_identity=True,
                   interleave=True):
    """Choose a support and one site operator per site; returns list of SiteOp (possibly shuffled order)."""
    n = len(gm.basis)
    if max_support is None:
        max_support = n
    for _ in range(200):
        k = int(rng.integers(1, min(n, max_support) + 1))
        sites = sorted(rng.choice(n, size=k, replace=False).tolist())
        chosen = []
        ok = True
        for s in sites:
            cat = gm.catalog[s]
            cands = [so for so in cat if (allow_complex or not so.is_complex)
                     and (allow_identity or set(so.words) != {"I"})]
            if not cands:
                ok = False
                break
            chosen.append(cands[int(rng.integers(0, len(cands)))])
        if not ok:
            continue
        if target_charge is not None:
            tot = sum((so.charge for so in chosen), np.zeros(gm.qn_size, dtype=int))
            need = np.asarray(target_charge) - tot
            if np.any(need != 0):
                # try to compensate on one unused site
                free = [s for s in range(n) if s not in sites]
                rng.shuffle(free)
                fixed = False
                for s in free:
                    comp = [so for so in gm.catalog[s] if np.array_equal(so.charge, need)
                            and (allow_complex or not so.is_complex)]
                    if comp:
                        chosen.append(comp[int(rng.integers(0, len(comp)))])
                        fixed = True
                        break
                if not fixed:
                    continue
        if interleave and len(chosen) > 1 and rng.random() < 0.5:
            # sites in arbitrary order in the written term (operators on different sites commute)
            perm = rng.permutation(len(chosen))
            chosen = [chosen[i] for i in perm]
        return chosen
    return None


def random_terms(rng, gm, nterms, max_support=None, target_charge=None, allow_complex=True, complex_factors=True,
                 decades=3, structured=None):
    """List of Op (the term table) with duplicates, partial cancellations, shared prefixes, explicit identities."""
    terms = []
    pool = []
    if structured is None:
        structured = rng.random() < 0.4
    for _ in range(nterms * 4):
        if len(terms) >= nterms:
            break
        r = rng.random()
        if pool and r < 0.08:
            # exact duplicate with another factor
            so = pool[int(rng.integers(0, len(pool)))]
            terms.append(make_op(so, random_factor(rng, complex_factors, decades)))
            continue
        if pool and r < 0.16:
            # partially cancelling pair (c, -c + delta)
            so = pool[int(rng.integers(0, len(pool)))]
            c = random_factor(rng, complex_factors, 1)
            terms.append(make_op(so, c))
            terms.append(make_op(so, -c + (0 if rng.random() < 0.15 else 0.37 * abs(c))))
            continue
        if structured and pool and r < 0.6:
            # share a prefix / suffix with an existing term: replace the operator on one site only
            base = list(pool[int(rng.integers(0, len(pool)))])
            j = int(rng.integers(0, len(base)))
            cat = [so for so in gm.catalog[base[j].site] if (allow_complex or not so.is_complex)]
            if target_charge is not None:
                cat = [so for so in cat if np.array_equal(so.charge, base[j].charge)]
            if cat:
                base[j] = cat[int(rng.integers(0, len(cat)))]
                pool.append(base)
                terms.append(make_op(base, random_factor(rng, complex_factors, decades)))
                continue
        so = random_siteops(rng, gm, max_support, target_charge, allow_complex)
        if so is None:
            continue
        pool.append(so)
        terms.append(make_op(so, random_factor(rng, complex_factors, decades)))
    return terms[:max(1, nterms)] if terms else terms


ADJ = {"a": r"a^\dagger", r"a^\dagger": "a", "sigma_+": "sigma_-", "sigma_-": "sigma_+", "b": r"b^\dagger",
       r"b^\dagger": "b", r"\tilde{b}": None, r"\tilde{b}^\dagger": None}


def adjoint_siteop(gm, so):
    """Site operator from the catalogue whose matrix is the adjoint of so.mat (None if absent)."""
    target = so.mat.conj().T
    if not np.any(target):
        return None          # a vanishing product such as "sigma_+ sigma_+": its "adjoint" (and its charge) is ambiguous
    for cand in gm.catalog[so.site]:
        if (cand.mat.shape == target.shape and np.allclose(cand.mat, target, atol=1e-13)
                and np.array_equal(cand.charge, -so.charge)):
            return cand
    return None


def hermitian_terms(rng, gm, nterms, max_support=3, allow_complex=True, charge_conserving=True, scale=1.0):
    """Term list of a Hermitian operator: every generated product is accompanied by its adjoint."""
    zero = np.zeros(gm.qn_size, dtype=int)
    terms = []
    tries = 0
    while len(terms) < nterms and tries < nterms * 20:
        tries += 1
        so = random_siteops(rng, gm, max_support, zero if charge_conserving else None, allow_complex,
                            allow_identity=False, interleave=False)
        if so is None:
            continue
        adj = [adjoint_siteop(gm, s) for s in so]
        if any(a is None for a in adj):
            continue
        c = float(rng.uniform(0.2, 1.5)) * scale * (-1 if rng.random() < 0.5 else 1)
        selfadj = all(a is s for a, s in zip(adj, so))
        if selfadj:
            terms.append(make_op(so, c))
        else:
            if allow_complex and rng.random() < 0.3:
                c = c * np.exp(1j * rng.uniform(0, 2 * np.pi))
            terms.append(make_op(so, c))
            terms.append(make_op(adj, np.conj(c)))
    return terms


def terms_describe(terms, limit=12):
    out = []
    for t in terms[:limit]:
        out.append([t.symbol, [repr(d) for d in t.dofs], t.factor if not isinstance(t.factor, complex)
                    else [t.factor.real, t.factor.imag]])
    if len(terms) > limit:
        out.append(f"... {len(terms) - limit} more")
    return out
