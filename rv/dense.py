"""Reference model: dense linear algebra, independent of the repository's tensor-network code.

Only `BasisSet.op_mat` (local matrices, judged separately by C16) and the `Op` constructor are taken from the
repository; grouping of symbols by site, Kronecker products, sectors, Schmidt spectra, propagators, Gibbs states,
fermion algebra and graph matching are the harness's own code.
"""
import itertools

import numpy as np
import scipy.linalg


# ---------------------------------------------------------------------------------------------- operators
def dof_site_map(basis_list):
    m = {}
    for i, b in enumerate(basis_list):
        for d in b.dofs:
            m[d] = i
    return m


def site_groups(op, dof2site):
    """Group the elementary symbols of `op` by site, preserving the written intra-site order."""
    groups = {}
    for word, dof, qn in zip(op.split_symbol, op.dofs, op.qn_list):
        groups.setdefault(dof2site[dof], []).append((word, dof, qn))
    return groups


def local_matrix(basis, items):
    """Matrix of the ordered product `items` = [(word, dof, qn), ...] on one basis set via basis.op_mat."""
    from renormalizer.model import Op
    words = [w.replace(r"b^\dagger+b", r"b^\dagger + b") for w, _, _ in items]
    dofs = [d for _, d, _ in items]
    qns = [q for _, _, q in items]
    op = Op(" ".join(words), dofs, 1.0, qn=qns)
    return np.asarray(basis.op_mat(op))


def term_dense(basis_list, op, dof2site=None):
    if dof2site is None:
        dof2site = dof_site_map(basis_list)
    groups = site_groups(op, dof2site)
    mats = []
    for i, b in enumerate(basis_list):
        if i in groups:
            mats.append(local_matrix(b, groups[i]))
        else:
            mats.append(np.eye(b.nbas))
    res = np.ones((1, 1))
    for m in mats:
        res = np.kron(res, m)
    return res * op.factor


def op_dense(basis_list, terms, offset=0.0, return_norms=False):
    """sum_k c_k (x)_sites local matrices  -  offset * 1."""
    dims = [b.nbas for b in basis_list]
    dim = int(np.prod(dims))
    dof2site = dof_site_map(basis_list)
    res = np.zeros((dim, dim), dtype=complex)
    norms = []
    for op in terms:
        t = term_dense(basis_list, op, dof2site)
        if return_norms:
            norms.append(float(np.linalg.norm(t)))
        res += t
    if offset != 0:
        res -= offset * np.eye(dim)
        norms.append(abs(offset) * np.sqrt(dim))
    if np.all(res.imag == 0):
        res = res.real.copy()
    if return_norms:
        return res, norms
    return res


def permute_sites_op(mat, dims, perm):
    """Re-express a dense operator given in site order 0..n-1 in the order perm (new site k = old site perm[k])."""
    n = len(dims)
    t = mat.reshape(list(dims) + list(dims))
    t = t.transpose(list(perm) + [n + p for p in perm])
    d = int(np.prod(dims))
    return t.reshape(d, d)


def permute_sites_vec(vec, dims, perm):
    t = vec.reshape(list(dims)).transpose(list(perm))
    return t.reshape(-1)


# ------------------------------------------------------------------------------------------------ sectors
def basis_qn(basis_list):
    """(dim, qn_size) array: summed sigmaqn of every computational basis state (site 0 slowest)."""
    qn = np.zeros((1, basis_list[0].sigmaqn.shape[1]), dtype=int)
    for b in basis_list:
        s = np.asarray(b.sigmaqn)
        qn = (qn[:, None, :] + s[None, :, :]).reshape(-1, s.shape[1])
    return qn


def sector_mask(basis_list, qntot):
    q = basis_qn(basis_list)
    return np.all(q == np.asarray(qntot).reshape(1, -1), axis=1)


def op_sector_mask(basis_list, qntot):
    """mask[i,j] true when qn(i) - qn(j) == qntot (operators / density operators)."""
    q = basis_qn(basis_list)
    diff = q[:, None, :] - q[None, :, :]
    return np.all(diff == np.asarray(qntot).reshape(1, 1, -1), axis=2)


# --------------------------------------------------------------------------------------- Schmidt spectra
def schmidt(psi, dims, cut):
    """Singular values of psi across the bond between sites cut-1 and cut (1 <= cut <= n-1)."""
    left = int(np.prod(dims[:cut]))
    return np.linalg.svd(np.asarray(psi).reshape(left, -1), compute_uv=False)


def schmidt_subset(psi, dims, subset):
    """Singular values of the bipartition (subset | rest) of the sites."""
    n = len(dims)
    subset = list(subset)
    rest = [i for i in range(n) if i not in subset]
    t = np.asarray(psi).reshape(dims).transpose(subset + rest)
    left = int(np.prod([dims[i] for i in subset])) if subset else 1
    return np.linalg.svd(t.reshape(left, -1), compute_uv=False)


def schmidt_rank(psi, dims, cut, rtol=1e-12):
    s = schmidt(psi, dims, cut)
    if s.size == 0 or s[0] == 0:
        return 0
    return int(np.sum(s > rtol * s[0]))


# ------------------------------------------------------------------------------------------- propagation
def propagate(H, psi, t):
    """exp(-i H t) psi   (t may be complex: t = -i tau gives exp(-tau H) psi)."""
    return scipy.linalg.expm(-1j * t * np.asarray(H, dtype=complex)) @ psi


def propagate_td(Hfun, psi, t, rtol=1e-12, atol=1e-12):
    from scipy.integrate import solve_ivp
    sol = solve_ivp(lambda s, y: -1j * (Hfun(s) @ y), (0, t), np.asarray(psi, dtype=complex), method="DOP853",
                    rtol=rtol, atol=atol)
    return sol.y[:, -1]


def gibbs(H, beta, mask=None):
    H = np.asarray(H)
    if mask is not None:
        idx = np.where(mask)[0]
        Hs = H[np.ix_(idx, idx)]
    else:
        idx = np.arange(H.shape[0])
        Hs = H
    w, v = np.linalg.eigh(Hs)
    p = np.exp(-beta * (w - w.min()))
    p /= p.sum()
    rho_s = (v * p) @ v.conj().T
    rho = np.zeros(H.shape, dtype=rho_s.dtype)
    rho[np.ix_(idx, idx)] = rho_s
    return rho


def partial_trace(psi, dims, keep):
    """rho[p, p'] = sum_rest psi(p, rest) psi*(p', rest), ket index first; keep = list of site indices."""
    n = len(dims)
    keep = list(keep)
    rest = [i for i in range(n) if i not in keep]
    t = np.asarray(psi).reshape(dims).transpose(keep + rest)
    dk = int(np.prod([dims[i] for i in keep]))
    m = t.reshape(dk, -1)
    return m @ m.conj().T


def vn_entropy_from_probs(p):
    p = np.asarray(p, dtype=float)
    p = p[p > 0]
    if p.size == 0:
        return 0.0
    p = p / p.sum()
    return float(-(p * np.log(p)).sum())


def vn_entropy_dm(rho):
    w = np.linalg.eigvalsh((rho + rho.conj().T) / 2)
    return vn_entropy_from_probs(w[w > 0])


# ---------------------------------------------------------------------------------------- fermion algebra
def fermion_ops(n):
    """Annihilation matrices c_0..c_{n-1} on the occupation-number basis of n modes.

    Basis index = sum_k occ_k * 2^(n-1-k) (mode 0 slowest, occ in {0,1}); sign = (-1)^(number of occupied modes
    before k).  Built from bit strings and explicit permutation signs, no Pauli strings.
    """
    dim = 2 ** n
    ops = []
    for k in range(n):
        m = np.zeros((dim, dim))
        for state in range(dim):
            occ = [(state >> (n - 1 - j)) & 1 for j in range(n)]
            if occ[k] == 1:
                sign = (-1) ** sum(occ[:k])
                new = occ.copy()
                new[k] = 0
                idx = sum(o << (n - 1 - j) for j, o in enumerate(new))
                m[idx, state] = sign
        ops.append(m)
    return ops


# ------------------------------------------------------------------------------------------ graph oracles
def max_matching_size(adj):
    """adj: list over U of iterables of V indices.  Kuhn's augmenting paths (harness's own)."""
    match_v = {}

    def try_u(u, seen):
        for v in adj[u]:
            if v in seen:
                continue
            seen.add(v)
            if v not in match_v or try_u(match_v[v], seen):
                match_v[v] = u
                return True
        return False

    size = 0
    for u in range(len(adj)):
        if try_u(u, set()):
            size += 1
    return size


def min_cover_bruteforce(adj, nv):
    """Minimum vertex cover size by brute force (small graphs only)."""
    edges = [(u, v) for u, vs in enumerate(adj) for v in vs]
    nu = len(adj)
    if not edges:
        return 0
    verts = [("u", i) for i in range(nu)] + [("v", j) for j in range(nv)]
    for k in range(0, len(verts) + 1):
        for comb in itertools.combinations(verts, k):
            s = set(comb)
            if all(("u", u) in s or ("v", v) in s for u, v in edges):
                return k
    return len(verts)
