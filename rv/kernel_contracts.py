"""Runtime contracts on the numerical kernels (DESIGN 2.3 "Kernel contracts", property C18).

    install_svd_qn_contract()      postconditions of renormalizer.mps.svd_qn.svd_qn  (SVD full/economic, QR/RQ)
    install_eigh_qn_contract()     postconditions of renormalizer.mps.svd_qn.eigh_qn
    install_krylov_contract(max_dim=400)
                                   precondition observation "the map is Hermitian" + postcondition against the dense
                                   exponential for renormalizer.lib.krylov.krylov.expm_krylov, plus the exit branch
                                   of every call (sys.monitoring LINE events on the code object of expm_krylov)
    install_all()

Every contract is an `icontract.ensure` / `icontract.require` with a *named* condition function whose argument names
are those of the wrapped function and an explicit `error=` class.  Conditions never raise and never return False:
they RECORD through `monitors.record(signature, **detail)` (drained into the running case by `monitors.drain(ctx)`)
and count their evaluations with `monitors.bump`, so the calling workload continues and its own oracle is consulted
too.  The wrappers are bound on the defining module and on every `from x import f` binding inside the renormalizer
package (`monitors.rebind_everywhere`), i.e. they are hit by `svd_qn.svd_qn(...)` in mps/mp.py, mps/mps.py, by
`svd_qn(...)` in tn/tree.py and by `expm_krylov(...)` in mps/mps.py and tn/time_evolution.py.

Counters (all through monitors.bump, so they appear in the evidence of whatever property drains them):
    svd_qn_contract_evals, svd_qn_contract_evals:<mode>, svd_qn_callsite_evals, svd_qn_multi_sector_evals,
    svd_qn_contract_skipped_nonfinite_or_huge_input,
    eigh_qn_contract_evals, eigh_qn_callsite_evals, eigh_qn_multi_sector_evals, eigh_qn_input_not_psd,
    krylov_contract_evals, krylov_callsite_evals, krylov_materialised, krylov_too_large_skipped,
    krylov_post_checked, krylov_callsite_post_checked, krylov_outside_moderate_range, krylov_nonhermitian_map,
    krylov_nonlinear_map, krylov_materialise_floating_point_error, krylov_exit:<full-space|breakdown|converged>,
    krylov_buffer_growth, kernel_contract_internal_error
(<mode> is economic | full | qr-L-economic | qr-L-full | qr-R-economic | qr-R-full; "callsite" = called from a
repository frame rather than from rv/props.)

Precondition observations (the caller's obligation, therefore NOT a violation of C18) are appended to OBSERVATIONS as
dicts and counted; fetch and clear them with `drain_observations()`:
    {"kind": "krylov-nonhermitian-map", "rel_antiherm": .., "dim": .., "where": "<repo file>:<function>", ..}
    {"kind": "krylov-nonlinear-map", ..}   {"kind": "krylov-outside-moderate-range", "norm_A_dt": .., ..}
    {"kind": "eigh_qn-input-not-psd", "nonhermitian": .., "min_eig": .., "where": ..}
The Krylov postcondition is judged only when the map is linear, Hermitian (||M-M^H|| <= 1e-9 ||M||) and
||M||_2 |dt| <= 20.  LAST_KRYLOV describes the most recent call (exit branch, buffer growth, iterations); WORST keeps
the largest defect seen per check.
"""
import os
import sys

import numpy as np

from rv import env, monitors

ORIGINALS = {}          # name -> the unwrapped repository function
WRAPPED = {}            # name -> the installed wrapper
OBSERVATIONS = []       # precondition observations, see module docstring
WORST = {}              # largest observed defect per check (for the evidence: margin against the tolerances)
LAST_KRYLOV = {}        # info about the most recent expm_krylov call (exit branch, buffer growth, iterations, ...)

ORTHO_TOL = 1e-10       # |U^H U - 1|_max
RECON_TOL = 1e-10       # relative to the Frobenius norm of the symmetry-allowed part
SUPPORT_TOL = 1e-12     # relative to max|U|
KRYLOV_RTOL = 1e-4      # ten times the kernel's own successive-iterate allclose(rtol=1e-5, atol=1e-8)
KRYLOV_ATOL = 1e-7
KRYLOV_MAX_NORM_DT = 20.0   # the postcondition is judged for ||A||_2 |dt| up to this value (C18: "moderate range")
NEGLIGIBLE = 1e-12       # |dt| * (defect of the map) below this cannot be seen in exp(dt*A)v
HERMITIAN_TOL = 1e-9    # ||M - M^H||_F / ||M||_F above which the map is reported as non-Hermitian


class SvdQnContractBroken(Exception):
    pass


class EighQnContractBroken(Exception):
    pass


class KrylovContractBroken(Exception):
    pass


class KrylovPreconditionBroken(Exception):
    pass


def _worst(name, val):
    val = float(val)
    if val > WORST.get(name, -1.0):
        WORST[name] = val


def drain_observations():
    """Return and clear the recorded precondition observations."""
    global OBSERVATIONS
    out, OBSERVATIONS = OBSERVATIONS, []
    return out


# --------------------------------------------------------------------------------------------- helpers
_SELF = os.path.realpath(__file__)


def call_site():
    """'<file relative to the repository>:<function>' of the innermost repository frame that called the kernel, or
    'direct' when the kernel was called from the harness."""
    root = os.path.realpath(env.REPO_ROOT) + os.sep
    f = sys._getframe(1)
    skip = (os.sep + "krylov.py", os.sep + "svd_qn.py")
    while f is not None:
        fn = f.f_code.co_filename
        if fn.startswith(root) or os.path.realpath(fn).startswith(root):
            if not fn.endswith(skip):
                return f"{os.path.relpath(os.path.realpath(fn), root)}:{f.f_code.co_name}"
        elif os.sep + "rv" + os.sep + "props" + os.sep in fn:
            return "direct"
        f = f.f_back
    return "direct"


_AMBIENT = {}


def _guard(name, fn, *args, **kwargs):
    """Run a contract body; an exception inside the harness's own oracle must be loud, never a library crash."""
    # the repository switches numpy to raise on overflow/invalid/divide (utils/log.py); the oracle's own arithmetic
    # must not raise, but callables of the library are still invoked under the ambient setting (see _materialise)
    _AMBIENT.clear()
    _AMBIENT.update(np.geterr())
    try:
        with np.errstate(all="ignore"):
            fn(*args, **kwargs)
    except Exception as e:  # noqa: BLE001
        import traceback
        monitors.bump("kernel_contract_internal_error")
        monitors.record(f"CONTRACT-ERROR|{name}|{type(e).__name__}", message=str(e)[:200],
                        traceback=traceback.format_exc()[-1200:])
    return True


def _labels(q, k):
    return np.asarray(q).reshape(-1, k)


def allowed_mask(ql, qr, qntot):
    """mask[i, j] == True where left label i + right label j == qntot (all components)."""
    return np.all(ql[:, None, :] + qr[None, :, :] == np.asarray(qntot)[None, None, :], axis=-1)


def _ortho_defect(u):
    if u.shape[1] == 0:
        return 0.0
    g = u.conj().T @ u
    return float(np.max(np.abs(g - np.eye(u.shape[1]))))


def _support_defect(u, col_labels, row_labels):
    """Largest |u[i, c]| on rows whose label differs from the label of column c, relative to max|u|."""
    if u.size == 0:
        return 0.0
    same = np.all(row_labels[:, None, :] == col_labels[None, :, :], axis=-1)
    off = np.abs(u)[~same]
    if off.size == 0:
        return 0.0
    return float(off.max() / max(float(np.abs(u).max()), 1e-300))


def _sv_multiset_defect(s, ref, k):
    """Compare the k values `s` (any order) with the k largest singular values of the reference."""
    ref = np.sort(np.asarray(ref, dtype=float))[::-1]
    ref = np.concatenate([ref, np.zeros(max(0, k - len(ref)))])[:k]
    got = np.sort(np.asarray(s, dtype=float))[::-1]
    if k == 0:
        return 0.0
    return float(np.max(np.abs(got - ref)))


# --------------------------------------------------------------------------------------------- svd_qn
def svd_qn_mode(QR, system, full_matrices):
    if QR:
        return f"qr-{system}-{'full' if full_matrices else 'economic'}"
    return "full" if full_matrices else "economic"


def check_svd_qn(coef_array, qnbigl, qnbigr, qntot, QR, system, full_matrices, opt_full_matrices, result, where):
    qntot = np.asarray(qntot)
    k = len(qntot)
    ql, qr = _labels(qnbigl, k), _labels(qnbigr, k)
    nl, nr = len(ql), len(qr)
    a = np.asarray(coef_array).reshape(nl, nr)
    mask = allowed_mask(ql, qr, qntot)
    ma = np.where(mask, a, 0)
    scale = float(np.linalg.norm(ma))
    mode = svd_qn_mode(QR, system, full_matrices)
    if not np.isfinite(scale) or not np.isfinite(scale * scale):
        monitors.bump("svd_qn_contract_skipped_nonfinite_or_huge_input")
        return None
    monitors.bump("svd_qn_contract_evals")
    monitors.bump("svd_qn_contract_evals:" + mode)
    if where != "direct":
        monitors.bump("svd_qn_callsite_evals")
    # sectors the code is expected to keep: left labels with a non-empty partner set
    sectors = []
    for lab in sorted(set(map(tuple, ql.tolist()))):
        ls = np.all(ql == np.array(lab), axis=1)
        rs = np.all(qr == qntot - np.array(lab), axis=1)
        if rs.any():
            sectors.append((lab, int(ls.sum()), int(rs.sum())))
    if len(sectors) >= 2:
        monitors.bump("svd_qn_multi_sector_evals")
    n_kept = sum(min(m, n) for _, m, n in sectors)
    info = {"mode": mode, "where": where, "shape": [nl, nr], "qn_size": k, "sectors": sectors[:12],
            "dtype": str(a.dtype), "opt_full_matrices": bool(opt_full_matrices)}

    def bad(what, **detail):
        monitors.record(f"svd_qn|{mode}|{what}", **info, **detail)

    if QR:
        if len(result) != 4:
            return bad("arity", got=len(result))
        u, qnl, v, qnr = result
        su = sv = None
    else:
        if len(result) != 6:
            return bad("arity", got=len(result))
        u, su, qnl, v, sv, qnr = result
        su, sv = np.asarray(su), np.asarray(sv)
    u, v = np.asarray(u), np.asarray(v)
    if u.ndim != 2 or v.ndim != 2 or u.shape[0] != nl or v.shape[0] != nr:
        return bad("factor-shape", u_shape=list(u.shape), v_shape=list(v.shape))
    lab_l = np.asarray(qnl).reshape(-1, k) if len(qnl) else np.zeros((0, k), dtype=int)
    lab_r = np.asarray(qnr).reshape(-1, k) if len(qnr) else np.zeros((0, k), dtype=int)
    if len(lab_l) != u.shape[1] or len(lab_r) != v.shape[1]:
        return bad("label-count", n_u=u.shape[1], n_qnl=len(lab_l), n_v=v.shape[1], n_qnr=len(lab_r))
    if not (np.all(np.isfinite(u)) and np.all(np.isfinite(v))):
        return bad("nonfinite")

    # ---- labels and supports (all modes)
    d = _support_defect(u, lab_l, ql)
    if d > SUPPORT_TOL:
        bad("u-column-outside-its-label-rows", defect=d)
    d = _support_defect(v, lab_r, qr)
    if d > SUPPORT_TOL:
        bad("v-column-outside-its-label-rows", defect=d)
    npair = min(u.shape[1], v.shape[1]) if QR else n_kept
    if u.shape[1] < npair or v.shape[1] < npair:
        return bad("too-few-columns", n_u=u.shape[1], n_v=v.shape[1], expected_pairs=npair)
    if npair and not np.all(lab_l[:npair] + lab_r[:npair] == qntot[None, :]):
        bad("labels-do-not-sum-to-qntot", qnl=lab_l[:8], qnr=lab_r[:8], qntot=qntot)

    tol_rec = RECON_TOL * scale + 1e-300
    if QR:
        if u.shape[1] != v.shape[1]:
            return bad("column-count-mismatch", n_u=u.shape[1], n_v=v.shape[1])
        if not full_matrices and u.shape[1] != n_kept:
            bad("column-count", got=u.shape[1], expected=n_kept)
        q = u if system == "L" else v
        d = _ortho_defect(q)
        _worst("svd_qn_ortho_defect", d)
        if d > ORTHO_TOL:
            bad("q-not-orthonormal", defect=d)
        err = float(np.linalg.norm(u @ v.T - ma))
        _worst("svd_qn_reconstruction_rel_err", err / scale if scale > 0 else err)
        if err > tol_rec:
            bad("reconstruction", err=err, scale=scale)
        return None

    # ---- SVD
    if len(su) != u.shape[1] or len(sv) != v.shape[1]:
        return bad("singular-value-count", n_su=len(su), n_u=u.shape[1], n_sv=len(sv), n_v=v.shape[1])
    d = _ortho_defect(u)
    _worst("svd_qn_ortho_defect", d)
    if d > ORTHO_TOL:
        bad("u-not-orthonormal", defect=d)
    d = _ortho_defect(v)
    _worst("svd_qn_ortho_defect", d)
    if d > ORTHO_TOL:
        bad("v-not-orthonormal", defect=d)
    if not full_matrices and (u.shape[1] != n_kept or v.shape[1] != n_kept):
        bad("column-count", n_u=u.shape[1], n_v=v.shape[1], expected=n_kept)
    if np.any(su < 0) or np.any(sv < 0):
        bad("negative-singular-value")
    if not np.array_equal(su[:npair], sv[:npair]):
        bad("su-sv-differ")
    if full_matrices and (np.any(su[npair:] != 0) or np.any(sv[npair:] != 0)):
        bad("extra-column-with-nonzero-singular-value")
    err = float(np.linalg.norm((u[:, :npair] * su[:npair]) @ v[:, :npair].T - ma))
    _worst("svd_qn_reconstruction_rel_err", err / scale if scale > 0 else err)
    if err > tol_rec:
        bad("reconstruction", err=err, scale=scale)
    ref = np.linalg.svd(ma, compute_uv=False) if ma.size else np.zeros(0)
    smax = float(ref[0]) if len(ref) else 0.0
    d = _sv_multiset_defect(su[:npair], ref, npair)
    _worst("svd_qn_singular_value_rel_defect", d / smax if smax > 0 else d)
    if d > RECON_TOL * smax + 1e-300:
        bad("singular-values-differ-from-dense-svd", defect=d, smax=smax)
    if not full_matrices and npair > 1 and np.any(np.diff(su) > 0):
        bad("not-sorted-descending", s=su[:12])
    return None


def install_svd_qn_contract():
    import icontract
    from renormalizer.mps import svd_qn as mod
    _import_users()
    orig = mod.svd_qn
    if getattr(orig, "_rv_wrapped", False):
        return WRAPPED["svd_qn"]

    def factors_orthonormal_labelled_and_restore_allowed_part(coef_array, qnbigl, qnbigr, qntot, QR, system,
                                                              full_matrices, opt_full_matrices, result):
        return _guard("svd_qn", check_svd_qn, coef_array, qnbigl, qnbigr, qntot, QR, system, full_matrices,
                      opt_full_matrices, result, call_site())

    wrapped = icontract.ensure(factors_orthonormal_labelled_and_restore_allowed_part, error=SvdQnContractBroken)(orig)
    wrapped._rv_wrapped = True
    ORIGINALS["svd_qn"], WRAPPED["svd_qn"] = orig, wrapped
    monitors.rebind_everywhere(orig, wrapped)
    return wrapped


# --------------------------------------------------------------------------------------------- eigh_qn
def check_eigh_qn(dm, qnbigl, qnbigr, qntot, system, result, where):
    qntot = np.asarray(qntot)
    k = len(qntot)
    qnbig, comp = (qnbigl, qnbigr) if system == "L" else (qnbigr, qnbigl)
    q, qc = _labels(qnbig, k), _labels(comp, k)
    n = len(q)
    d = np.asarray(dm).reshape(n, n)
    monitors.bump("eigh_qn_contract_evals")
    if where != "direct":
        monitors.bump("eigh_qn_callsite_evals")
    info = {"where": where, "n": n, "system": system, "dtype": str(d.dtype)}

    def bad(what, **detail):
        monitors.record(f"eigh_qn|{system}|{what}", **info, **detail)

    if not np.all(np.isfinite(d)) or not np.isfinite(float(np.linalg.norm(d)) ** 2):
        monitors.bump("eigh_qn_contract_skipped_nonfinite_or_huge_input")
        return None
    if len(result) != 3:
        return bad("arity", got=len(result))
    u, s, qn = result
    u, s = np.asarray(u), np.asarray(s)
    has_partner = np.array([np.any(np.all(qc == qntot - row, axis=1)) for row in q], dtype=bool)
    inc = np.nonzero(has_partner)[0]
    if len(set(map(tuple, q[inc].tolist()))) >= 2:
        monitors.bump("eigh_qn_multi_sector_evals")
    lab = np.asarray(qn).reshape(-1, k) if len(qn) else np.zeros((0, k), dtype=int)
    if u.ndim != 2 or u.shape[0] != n or u.shape[1] != len(inc) or len(s) != u.shape[1] or len(lab) != u.shape[1]:
        return bad("shape", u_shape=list(u.shape), n_s=len(s), n_qn=len(lab), expected_columns=len(inc))
    x = _ortho_defect(u)
    _worst("eigh_qn_ortho_defect", x)
    if x > ORTHO_TOL:
        bad("u-not-orthonormal", defect=x)
    x = _support_defect(u, lab, q)
    if x > SUPPORT_TOL:
        bad("u-column-outside-its-label-rows", defect=x)
    inc_labels = set(map(tuple, q[inc].tolist()))
    if any(tuple(t) not in inc_labels for t in lab.tolist()):
        bad("label-of-sector-without-partner")
    if np.any(s < 0) or not np.all(np.isfinite(s)):
        bad("negative-or-nonfinite-s")
    same = np.all(q[:, None, :] == q[None, :, :], axis=-1) & has_partner[:, None] & has_partner[None, :]
    m = np.where(same, d, 0)
    mh = (m + m.conj().T) / 2
    scale = float(np.linalg.norm(mh))
    w = np.linalg.eigvalsh(mh[np.ix_(inc, inc)]) if len(inc) else np.zeros(0)
    wmax = float(np.max(np.abs(w))) if len(w) else 0.0
    nonherm = float(np.linalg.norm(m - mh))
    if nonherm > 1e-10 * scale or (len(w) and w.min() < -1e-10 * wmax):
        # precondition of the caller (a density matrix): observed, not judged
        monitors.bump("eigh_qn_input_not_psd")
        OBSERVATIONS.append({"kind": "eigh_qn-input-not-psd", "where": where, "nonhermitian": nonherm,
                             "min_eig": float(w.min()) if len(w) else 0.0})
        return None
    got = np.sort(s.astype(float) ** 2)
    ref = np.sort(np.clip(w, 0, None))
    x = float(np.max(np.abs(got - ref))) if len(ref) else 0.0
    if x > 1e-9 * wmax + 1e-300:
        bad("eigenvalues-differ-from-dense-eigh", defect=x, wmax=wmax)
    err = float(np.linalg.norm((u * s ** 2) @ u.conj().T - mh))
    _worst("eigh_qn_reconstruction_rel_err", err / scale if scale > 0 else err)
    neg = max(0.0, -float(w.min())) if len(w) else 0.0      # eigenvalues the code clips to zero (rounding of a PSD input)
    if err > 1e-9 * scale + np.sqrt(len(w)) * neg + 1e-300:
        bad("reconstruction", err=err, scale=scale)
    return None


def install_eigh_qn_contract():
    import icontract
    from renormalizer.mps import svd_qn as mod
    _import_users()
    orig = mod.eigh_qn
    if getattr(orig, "_rv_wrapped", False):
        return WRAPPED["eigh_qn"]

    def eigenvectors_orthonormal_labelled_and_restore_allowed_part(dm, qnbigl, qnbigr, qntot, system, result):
        return _guard("eigh_qn", check_eigh_qn, dm, qnbigl, qnbigr, qntot, system, result, call_site())

    wrapped = icontract.ensure(eigenvectors_orthonormal_labelled_and_restore_allowed_part,
                               error=EighQnContractBroken)(orig)
    wrapped._rv_wrapped = True
    ORIGINALS["eigh_qn"], WRAPPED["eigh_qn"] = orig, wrapped
    monitors.rebind_everywhere(orig, wrapped)
    return wrapped


# --------------------------------------------------------------------------------------------- expm_krylov
_KRYLOV_STACK = []      # dense map materialised by the precondition, consumed by the postcondition
_LINES = {}             # line number -> branch name, located in the source text at install time
_HIT = set()
_TRACER = {"installed": False, "missing": []}
EXIT_BRANCHES = ("full-space", "breakdown", "converged")


def _squeeze(s):
    return "".join(s.split())


def locate_krylov_lines(func):
    """Line numbers of the three `return` statements and of the buffer-growth block of expm_krylov, found by
    searching the source text for the guarding statements (no hard-coded line numbers)."""
    import inspect
    src, first = inspect.getsourcelines(func)
    sq = [_squeeze(x) for x in src]
    found, missing = {}, []

    def guard_index(*needles):
        for i, line in enumerate(sq):
            if line.startswith(("if", "elif")) and all(nd in line for nd in needles):
                return i
        return None

    def next_stmt(i, prefix=None):
        for jx in range(i + 1, len(sq)):
            if not sq[jx] or sq[jx].startswith("#"):
                continue
            if prefix is None or sq[jx].startswith(prefix):
                return jx
        return None

    for name, needles in (("full-space", ("j==len(vstart)-1",)), ("breakdown", ("beta[j]<",)),
                          ("converged", ("allclose(res,new_res",))):
        i = guard_index(*needles)
        jx = next_stmt(i, "return") if i is not None else None
        if jx is None:
            missing.append(name)
        else:
            found[first + jx] = name
    i = guard_index("len(V)==j+1")
    jx = next_stmt(i) if i is not None else None
    if jx is None:
        missing.append("buffer-growth")
    else:
        found[first + jx] = "buffer-growth"
    return found, missing


def _install_branch_tracer(orig):
    if _TRACER["installed"]:
        return
    found, missing = locate_krylov_lines(orig)
    _LINES.update(found)
    _TRACER["missing"] = missing
    mon = getattr(sys, "monitoring", None)
    if mon is None or len(found) == 0:
        _TRACER["missing"] = missing or ["sys.monitoring unavailable"]
        return
    tool = None
    for cand in (4, 3, 5, 2, 1, 0):
        if mon.get_tool(cand) is None:
            tool = cand
            break
    if tool is None:
        _TRACER["missing"] = ["no free sys.monitoring tool id"]
        return
    mon.use_tool_id(tool, "rv-kernel-contracts")

    def on_line(code, line):
        if line in _LINES:
            _HIT.add(line)

    mon.register_callback(tool, mon.events.LINE, on_line)
    mon.set_local_events(tool, orig.__code__, mon.events.LINE)      # restricted to expm_krylov in krylov.py
    _TRACER["installed"] = True
    _TRACER["tool"] = tool


def _materialise(afunc, vstart):
    v = np.asarray(vstart)
    n = len(v)
    dt = v.dtype if v.dtype.kind in "fc" else np.dtype(float)
    eye = np.eye(n, dtype=dt)
    with np.errstate(**(_AMBIENT or np.geterr())):
        cols = [np.array(afunc(eye[i].copy())).ravel() for i in range(n)]
    m = np.stack(cols, axis=1)
    return m


def check_krylov_pre(Afunc, dt, vstart, block_size, where):
    monitors.bump("krylov_contract_evals")
    if where != "direct":
        monitors.bump("krylov_callsite_evals")
    v = np.asarray(vstart)
    n = v.size
    state = {"where": where, "n": n, "m": None, "hermitian": None, "v": np.array(v).ravel().copy()}
    _KRYLOV_STACK.append(state)
    if n > _CFG["max_dim"] or n == 0 or v.ndim != 1:
        monitors.bump("krylov_too_large_skipped")
        return
    try:
        m = _materialise(Afunc, v)
    except FloatingPointError:
        monitors.bump("krylov_materialise_floating_point_error")
        return
    monitors.bump("krylov_materialised")
    if not np.all(np.isfinite(m)):
        monitors.bump("krylov_nonfinite_map")
        return
    nm = float(np.linalg.norm(m))
    # linearity probe (an affine or state-dependent callable cannot be judged against a matrix exponential)
    rs = np.random.RandomState(12345)
    x = rs.normal(size=n)
    if v.dtype.kind == "c":
        x = x + 1j * rs.normal(size=n)      # the probe has the dtype kind of the start vector, as the Lanczos basis has
    try:
        with np.errstate(**(_AMBIENT or np.geterr())):
            ax = np.array(Afunc(x.copy())).ravel()
    except FloatingPointError:
        monitors.bump("krylov_materialise_floating_point_error")
        return
    adt = abs(complex(dt))
    lin_defect = float(np.linalg.norm(ax - m @ x)) / float(np.linalg.norm(x))
    # a defect whose effect on exp(dt*A) is below 1e-12 is rounding noise of a (numerically) vanishing map
    if lin_defect > 1e-8 * nm and lin_defect * adt > NEGLIGIBLE:
        monitors.bump("krylov_nonlinear_map")
        OBSERVATIONS.append({"kind": "krylov-nonlinear-map", "where": where, "dim": n})
        return
    rel = float(np.linalg.norm(m - m.conj().T)) / max(nm, 1e-300)
    state["m"], state["rel_antiherm"], state["norm"] = m, rel, nm
    state["hermitian"] = rel <= HERMITIAN_TOL or rel * nm * adt <= NEGLIGIBLE
    if not state["hermitian"]:
        monitors.bump("krylov_nonhermitian_map")
        OBSERVATIONS.append({"kind": "krylov-nonhermitian-map", "rel_antiherm": rel, "dim": n, "where": where,
                             "map_dtype": str(m.dtype), "start_dtype": str(v.dtype)})


def krylov_class(start_complex, map_complex):
    return f"{'complex' if start_complex else 'real'}-start-{'complex' if map_complex else 'real'}-map"


def dt_class(dt):
    z = complex(dt)
    if z.imag == 0:
        return "real"
    if z.real == 0:
        return "imaginary"
    return "complex"


def krylov_signature(start_complex, map_complex, dt, what):
    """Mechanism signature of a Krylov violation; generic complex dt (outside the statement's 'real or imaginary dt')
    is kept apart by a suffix."""
    sig = f"krylov|{krylov_class(start_complex, map_complex)}|{what}"
    return sig + ("|complex-dt" if dt_class(dt) == "complex" else "")


def dense_expm_apply(mh, dt, v, with_growth=False):
    """exp(dt * mh) v for Hermitian mh through eigh (exact for Hermitian matrices; the repository's own test avoids
    scipy.linalg.expm for the same reason).  with_growth: also return ||exp(dt*mh)||_2 = exp(max Re(dt*w))."""
    w, x = np.linalg.eigh(mh)
    ref = x @ (np.exp(dt * w) * (x.conj().T @ v))
    if with_growth:
        return ref, float(np.exp(np.max(np.real(dt * w)))) if len(w) else 1.0
    return ref


def krylov_tolerance(ref, v, growth=1.0):
    """ten times the kernel's own stopping criterion, plus the unavoidable amplification of input rounding:
    a perturbation eps*||v|| of the start vector changes exp(dt A)v by up to ||exp(dt A)|| eps ||v|| (matters only for
    real dt when the start vector has no weight on the growing part of the spectrum - reference and result are then
    both determined by rounding noise)."""
    nv = float(np.linalg.norm(v))
    return (KRYLOV_RTOL * float(np.linalg.norm(ref)) + KRYLOV_ATOL * (nv + np.sqrt(len(v)))
            + 1e4 * np.finfo(float).eps * growth * nv)


def check_krylov_post(Afunc, dt, vstart, block_size, result, where):
    state = _KRYLOV_STACK.pop() if _KRYLOV_STACK else None
    if state is None or state["m"] is None:
        return
    if not state["hermitian"]:
        return
    m, v = state["m"], state["v"]
    n = len(v)
    if not (isinstance(result, tuple) and len(result) == 2):
        monitors.record("krylov|result-arity", where=where)
        return
    r, nvec = result
    r = np.asarray(r)
    mh = (m + m.conj().T) / 2
    imag_rel = float(np.linalg.norm(mh.imag)) / max(float(np.linalg.norm(mh)), 1e-300) if mh.dtype.kind == "c" else 0.0
    def sig(what):
        return krylov_signature(v.dtype.kind == "c", imag_rel > 1e-12, dt, what)

    w, x = np.linalg.eigh(mh)
    tau = float(np.max(np.abs(w))) * abs(complex(dt)) if len(w) else 0.0
    LAST_KRYLOV["norm_A_dt"] = tau
    if not np.isfinite(tau) or tau > KRYLOV_MAX_NORM_DT * (1 + 1e-9):
        # outside "the moderate range it is used for": observed, not judged
        monitors.bump("krylov_outside_moderate_range")
        OBSERVATIONS.append({"kind": "krylov-outside-moderate-range", "norm_A_dt": tau, "dim": n, "where": where})
        return
    ref = x @ (np.exp(dt * w) * (x.conj().T @ v))
    monitors.bump("krylov_post_checked")
    if where != "direct":
        monitors.bump("krylov_callsite_post_checked")
    info = {"where": where, "n": n, "block_size": int(block_size), "dt": complex(dt), "iterations": int(nvec),
            "norm_A_dt": tau, "exit": LAST_KRYLOV.get("exit"),
            "start_dtype": str(v.dtype), "map_dtype": str(m.dtype), "result_dtype": str(r.dtype)}
    if r.shape != ref.shape:
        monitors.record(sig("result-shape"), got=list(r.shape), **info)
        return
    if not np.all(np.isfinite(r)):
        monitors.record(sig("nonfinite"), **info)
        return
    err = float(np.linalg.norm(r - ref))
    tol = krylov_tolerance(ref, v, float(np.exp(np.max(np.real(dt * w)))))
    LAST_KRYLOV["contract_err_over_tol"] = err / tol
    if not (v.dtype.kind != "c" and imag_rel > 1e-12):
        _worst("krylov_contract_err_over_tol" + ("" if where == "direct" else ":callsite"), err / tol)
    if err > tol:
        monitors.record(sig("dense-mismatch"), err=err, tol=tol, ref_norm=float(np.linalg.norm(ref)), **info)
    if not (1 <= int(nvec) <= n):
        monitors.record(sig("iteration-count-out-of-range"), **info)


_CFG = {"max_dim": 400}


def install_krylov_contract(max_dim=400):
    import icontract
    from renormalizer.lib.krylov import krylov as mod
    _import_users()
    _CFG["max_dim"] = int(max_dim)
    orig = mod.expm_krylov
    if getattr(orig, "_rv_wrapped", False):
        return WRAPPED["expm_krylov"]
    _install_branch_tracer(orig)

    def map_is_hermitian(Afunc, dt, vstart, block_size):
        # records the observation `krylov-nonhermitian-map`; never fails (the obligation is the caller's)
        return _guard("expm_krylov-pre", check_krylov_pre, Afunc, dt, vstart, block_size, call_site())

    def result_is_dense_exponential_applied_to_start(Afunc, dt, vstart, block_size, result):
        return _guard("expm_krylov-post", check_krylov_post, Afunc, dt, vstart, block_size, result, call_site())

    def expm_krylov(Afunc, dt, vstart, block_size=50):
        _HIT.clear()
        LAST_KRYLOV.clear()
        try:
            out = orig(Afunc, dt, vstart, block_size)
        except BaseException:
            if _KRYLOV_STACK:
                _KRYLOV_STACK.pop()
            LAST_KRYLOV["exit"] = "exception"
            raise
        hit = {_LINES[ln] for ln in _HIT}
        exits = [b for b in EXIT_BRANCHES if b in hit]
        LAST_KRYLOV["exit"] = exits[0] if len(exits) == 1 else ("unknown" if not exits else "+".join(exits))
        LAST_KRYLOV["grew"] = "buffer-growth" in hit
        LAST_KRYLOV["iterations"] = int(out[1]) if isinstance(out, tuple) and len(out) == 2 else None
        if _TRACER["installed"]:
            monitors.bump("krylov_exit:" + LAST_KRYLOV["exit"])
            if LAST_KRYLOV["grew"]:
                monitors.bump("krylov_buffer_growth")
        return out

    expm_krylov.__doc__ = orig.__doc__
    expm_krylov.__module__ = orig.__module__
    wrapped = icontract.require(map_is_hermitian, error=KrylovPreconditionBroken)(
        icontract.ensure(result_is_dense_exponential_applied_to_start, error=KrylovContractBroken)(expm_krylov))
    wrapped._rv_wrapped = True
    ORIGINALS["expm_krylov"], WRAPPED["expm_krylov"] = orig, wrapped
    monitors.rebind_everywhere(orig, wrapped)
    return wrapped


def tracer_status():
    return {"installed": _TRACER["installed"], "missing": list(_TRACER["missing"]),
            "lines": {str(k): v for k, v in sorted(_LINES.items())}}


# --------------------------------------------------------------------------------------------- install
def _import_users():
    """Import the modules that bind the kernels with `from x import f`, so that rebind_everywhere reaches them."""
    import importlib
    for name in ("renormalizer.lib", "renormalizer.mps", "renormalizer.mps.mp", "renormalizer.mps.mps",
                 "renormalizer.mps.mpo", "renormalizer.tn", "renormalizer.tn.tree", "renormalizer.tn.time_evolution"):
        try:
            importlib.import_module(name)
        except Exception:  # noqa: BLE001 - tn needs the print_tree shim; absence only narrows the reach
            monitors.bump("kernel_contract_import_failed:" + name)


def install_all(max_dim=400):
    install_svd_qn_contract()
    install_eigh_qn_contract()
    install_krylov_contract(max_dim=max_dim)
