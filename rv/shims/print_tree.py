"""Minimal stand-in for the `print-tree2` package (not installed in the pinned environment).

renormalizer/tn/treebase.py does `from print_tree import print_tree` at import time and uses the class
only for pretty-printing (`print_as_tree`).  No verified property depends on what it prints.  This shim is
put on sys.path of the check processes only; the repository and its baseline test run never see it.
"""


class print_tree:
    def __init__(self, root):
        self.rows = []
        self._walk(root, 0)

    def get_children(self, node):
        raise NotImplementedError

    def get_node_str(self, node):
        raise NotImplementedError

    def _walk(self, node, depth):
        self.rows.append("  " * depth + str(self.get_node_str(node)))
        for child in self.get_children(node):
            self._walk(child, depth + 1)
