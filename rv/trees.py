"""Generators of basis trees (renormalizer.tn.BasisTree) over a given list of basis sets.

Import only inside check processes (rv.env.bootstrap() must have put the print_tree shim on sys.path).

Every builder returns ``(basis_tree, descriptor)``.  ``descriptor`` is JSON-able:
``{"kind": ..., "options": {...}, "shape": <nested shape>}`` where the nested shape of a node is
``[[label of basis set, ...], [shape of child 0, shape of child 1, ...]]`` (children in the order the tree
keeps them).  The label of a basis set is ``repr(basis.dofs)``; purely virtual basis sets that a tree
constructor (the library's or this module's) created are written ``"D"`` whatever their DoF name is (the names
of ``TreeNodeBasis()`` dummies come from a process-global counter and are not reproducible).

Sharing: ``BasisTree``/``TreeNodeBasis`` only *record* the ``BasisSet`` objects (lists and dictionaries keyed by
object identity); nothing in ``renormalizer.tn`` writes to a basis set (``add_auxiliary_space`` writes to the
copies it makes).  The same ``BasisSet`` objects can therefore be shared by any number of trees.  What can NOT
be shared are the ``TreeNodeBasis`` nodes (a node has one parent) and, because ``TreeNodeBasis`` keeps the list
it is given without copying, the *list objects*: all builders here hand fresh lists to the library
(``BasisTree.general_mctdh(basis_list, order)`` with ``len(basis_list) <= order`` stores the caller's list
itself in the node).  ``BasisSet.copy(new_dof)`` is NOT a faithful copy: ``BasisSimpleElectron.copy`` and
``BasisMultiElectronVac.copy`` rebuild with default ``sigmaqn``, ``BasisSineDVR.copy`` drops ``endpoint`` and
``quadrature``; use it only where the library itself does (auxiliary space).
"""
import json

import numpy as np

# DoF-name prefixes of purely virtual basis sets created by tree constructors
VIRTUAL_LABELS = ("MCTDH virtual", "T3NS virtual", "Virtual DOF", "rv virtual")

LIBRARY_KINDS = ["linear", "binary", "mctdh2", "mctdh3", "mctdh2-contract", "mctdh3-contract",
                 "mctdh2-label", "mctdh3-label", "t3ns"]
ALL_KINDS = LIBRARY_KINDS + ["random"]


def _tn():
    from renormalizer.tn.treebase import BasisTree
    from renormalizer.tn.node import TreeNodeBasis
    from renormalizer.model.basis import BasisDummy
    return BasisTree, TreeNodeBasis, BasisDummy


def is_dummy(basis):
    from renormalizer.model.basis import BasisDummy
    return isinstance(basis, BasisDummy)


def is_constructor_virtual(basis):
    """A BasisDummy whose DoF name carries one of the labels tree constructors use."""
    if not is_dummy(basis):
        return False
    d = basis.dof
    return isinstance(d, tuple) and len(d) == 2 and d[0] in VIRTUAL_LABELS


def qn_size_of(basis_list):
    sizes = {int(np.asarray(b.sigmaqn).shape[1]) for b in basis_list}
    assert len(sizes) == 1, sizes
    return sizes.pop()


# ------------------------------------------------------------------------------------------ descriptors
def _label(basis):
    if is_constructor_virtual(basis):
        return "D"
    return repr(tuple(basis.dofs))


def node_shape(node):
    return [[_label(b) for b in node.basis_sets], [node_shape(c) for c in node.children]]


def tree_shape(basis_tree):
    """Nested, JSON-able canonical description of the rooted ordered tree (children order kept)."""
    return node_shape(basis_tree.root)


def tree_shape_key(basis_tree):
    """String key of the shape with child order; equal keys <=> same rooted ordered tree over the same DoF names."""
    return json.dumps(tree_shape(basis_tree), separators=(",", ":"))


def tree_features(basis_tree):
    """What the shape exercises: arities, sets per node, where purely virtual (dummy-only) nodes sit."""
    nodes = basis_tree.node_list
    feats = {"n_nodes": len(nodes), "max_arity": 0, "max_sets": 0, "multi_set": False, "dummy_root": False,
             "dummy_internal": False, "dummy_leaf": False, "n_dummy_nodes": 0, "unary": False, "depth": 0,
             "mixed_dummy_set": False}
    for n in nodes:
        k = len(n.children)
        feats["max_arity"] = max(feats["max_arity"], k)
        feats["max_sets"] = max(feats["max_sets"], len(n.basis_sets))
        if k == 1:
            feats["unary"] = True
        if len(n.basis_sets) >= 2:
            feats["multi_set"] = True
            if any(is_dummy(b) for b in n.basis_sets):
                feats["mixed_dummy_set"] = True
        feats["depth"] = max(feats["depth"], len(n.ancestors) - 1)
        if all(is_dummy(b) for b in n.basis_sets):
            feats["n_dummy_nodes"] += 1
            if n.parent is None:
                feats["dummy_root"] = True
            elif k == 0:
                feats["dummy_leaf"] = True
            else:
                feats["dummy_internal"] = True
    return feats


def _describe(kind, tree, **options):
    return {"kind": kind, "options": options, "shape": tree_shape(tree)}


# ------------------------------------------------------------------------------ order and multiset helpers
def same_basis_multiset(basis_tree, basis_list):
    """Every input basis set (by identity) appears exactly once in ``basis_tree.basis_list`` and everything else
    in the tree is a BasisDummy.  Returns ``(ok, detail)`` with the labels of lost / duplicated / foreign sets."""
    listed = basis_tree.basis_list
    lost, dup = [], []
    for b in basis_list:
        c = sum(1 for x in listed if x is b)
        if c == 0:
            lost.append(repr(tuple(b.dofs)))
        elif c > 1:
            dup.append(repr(tuple(b.dofs)))
    ids = {id(b) for b in basis_list}
    foreign = [repr(tuple(x.dofs)) for x in listed if id(x) not in ids and not is_dummy(x)]
    # the derived lists must tell the same story
    dofs = basis_tree.dof_list
    dof_dup = sorted({repr(d) for d in dofs if sum(1 for e in dofs if e == d) > 1})
    detail = {"lost": lost, "duplicated": dup, "foreign": foreign, "duplicated_dofs": dof_dup}
    return (not lost and not dup and not foreign and not dof_dup), detail


def physical_basis_order(basis_tree, basis_list=None):
    """Orders needed to compare dense results with rv.dense.

    Returns ``(tree_order, todense_order, perm)``:
      * ``tree_order``: the non-dummy basis sets in the order of ``basis_tree.basis_list`` (pre-order over nodes;
        this is the site order of ``todense()`` when no ``order`` is given);
      * ``todense_order``: the list to pass as ``todense(order)`` so that the result is expressed in the ORIGINAL
        generation order: the non-dummy members of ``basis_list`` (``tree_order`` itself if no list is given);
      * ``perm``: ``tree_order[k] is todense_order[perm[k]]``; a dense reference ``ref`` computed by
        ``rv.dense.op_dense(todense_order, ...)`` is converted to the tree's own order by
        ``rv.dense.permute_sites_op(ref, [b.nbas for b in todense_order], perm)`` (vectors: ``permute_sites_vec``).
    ``todense`` skips every BasisDummy and squeezes size-1 axes, so all non-dummy sets need ``nbas >= 2``.
    """
    tree_order = [b for b in basis_tree.basis_list if not is_dummy(b)]
    if basis_list is None:
        todense_order = list(tree_order)
    else:
        todense_order = [b for b in basis_list if not is_dummy(b)]
    pos = {id(b): i for i, b in enumerate(todense_order)}
    perm = [pos[id(b)] for b in tree_order]
    return tree_order, todense_order, perm


# -------------------------------------------------------------------------------------- library builders
def virtual_basis(qn_size, idx, label="rv virtual"):
    """A legal purely virtual basis set: one state, all-zero label of the tree's quantum-number size."""
    _, _, BasisDummy = _tn()
    return BasisDummy((label, idx), sigmaqn=[[0] * qn_size])


def _maybe_shuffled(basis_list, rng, shuffle):
    order = list(range(len(basis_list)))
    if shuffle:
        order = [int(i) for i in rng.permutation(len(basis_list))]
    return [basis_list[i] for i in order], order


def linear_tree(basis_list, rng=None, shuffle=False):
    BasisTree, _, _ = _tn()
    bl, order = _maybe_shuffled(basis_list, rng, shuffle)
    t = BasisTree.linear(list(bl))
    return t, _describe("linear", t, order=order)


def binary_tree(basis_list, rng=None, shuffle=False):
    BasisTree, _, _ = _tn()
    bl, order = _maybe_shuffled(basis_list, rng, shuffle)
    t = BasisTree.binary(list(bl))
    return t, _describe("binary", t, order=order)


def mctdh_tree(basis_list, tree_order, contract_primitive=False, contract_label=None, rng=None, shuffle=False):
    """BasisTree.general_mctdh.  ``contract_label="random"`` draws a label list from rng.

    The library's constructor creates its virtual nodes with a one-component label, so it raises
    ``ValueError: Inconsistent quantum number size`` for models with two quantum numbers (callers decide what
    that means; nothing is caught here)."""
    BasisTree, _, _ = _tn()
    bl, order = _maybe_shuffled(basis_list, rng, shuffle)
    if isinstance(contract_label, str) and contract_label == "random":
        contract_label = [bool(rng.random() < 0.45) for _ in bl]
    kind = f"mctdh{tree_order}" + ("-label" if contract_label is not None else "-contract" if contract_primitive else "")
    lab = None if contract_label is None else list(contract_label)
    if tree_order in (2, 3) and rng is not None and rng.random() < 0.5:
        # the documented shorthands for orders two and three
        ctor = BasisTree.binary_mctdh if tree_order == 2 else BasisTree.ternary_mctdh
        t = ctor(list(bl), contract_primitive=contract_primitive, contract_label=lab)
    else:
        t = BasisTree.general_mctdh(list(bl), tree_order, contract_primitive=contract_primitive, contract_label=lab)
    return t, _describe(kind, t, order=order, tree_order=tree_order, contract_primitive=bool(contract_primitive),
                        contract_label=contract_label)


def wide_tree(basis_list, rng, shuffle=False):
    """Trees with one WIDE node (many legs): a star (one set at the centre, every other set a leaf child), a chain whose
    middle node holds all but two of the sets, or an MCTDH tree of the order of the number of sets (one layer)."""
    BasisTree, TreeNodeBasis, _ = _tn()
    bl, order = _maybe_shuffled(basis_list, rng, shuffle)
    n = len(bl)
    style = ["star", "fat-node", "mctdh-one-layer"][int(rng.integers(0, 3))]
    if style == "star" or n < 4:
        style = "star"
        root = TreeNodeBasis([bl[0]])
        for b in bl[1:]:
            root.add_child(TreeNodeBasis([b]))
        t = BasisTree(root)
    elif style == "fat-node":
        root = TreeNodeBasis([bl[0]])
        mid = TreeNodeBasis(list(bl[1:-1]))
        root.add_child(mid)
        mid.add_child(TreeNodeBasis([bl[-1]]))
        t = BasisTree(root)
    else:
        t = BasisTree.general_mctdh(list(bl), max(2, n - int(rng.integers(0, 2))), contract_primitive=bool(rng.random() < 0.5))
    return t, _describe("wide", t, order=order, style=style)


def t3ns_tree(basis_list, rng=None, shuffle=False):
    BasisTree, _, _ = _tn()
    bl, order = _maybe_shuffled(basis_list, rng, shuffle)
    t = BasisTree.t3ns(list(bl))
    return t, _describe("t3ns", t, order=order)


# --------------------------------------------------------------------------------- random recursive trees
def random_tree(basis_list, rng, max_sets=3, max_arity=3, n_virtual=None, force_virtual=None, profile=None,
                auto_virtual=True):
    """Hand-made random rooted tree built directly from TreeNodeBasis nodes.

    * the basis sets are dealt, in random order, to nodes holding 1..max_sets sets each;
    * ``n_virtual`` (default: random 0..3) purely virtual nodes (one BasisDummy each, created the way the library
      does: ``TreeNodeBasis([BasisDummy((label, i))])`` with a zero label of the right size, or, for
      one-component models and ``auto_virtual``, the library's own ``TreeNodeBasis()``) are mixed in;
    * random parent array over a random node order, every node has at most ``max_arity`` children;
      ``profile``: "uniform" (random recursive tree), "deep" (prefers the newest node), "bushy" (prefers the
      oldest node that still has room);
    * ``force_virtual``: None or a collection of "root" / "internal" / "leaf": positions that must be taken by a
      purely virtual node (virtual nodes are added as needed).
    """
    BasisTree, TreeNodeBasis, _ = _tn()
    qn_size = qn_size_of(basis_list)
    n = len(basis_list)
    force = set(force_virtual or ())
    perm = [int(i) for i in rng.permutation(n)]
    groups, i = [], 0
    set_p = np.array([0.55, 0.28, 0.17][:max_sets], dtype=float)
    set_p /= set_p.sum()
    while i < n:
        k = 1 + int(rng.choice(len(set_p), p=set_p))
        groups.append(perm[i:i + k])
        i += k
    if n_virtual is None:
        n_virtual = int(rng.choice(4, p=[0.3, 0.35, 0.2, 0.15]))
    n_virtual = max(n_virtual, len(force))
    if profile is None:
        profile = ["uniform", "deep", "bushy"][int(rng.integers(0, 3))]

    n_plain = n_virtual - len(force)
    seq = [("P", g) for g in groups] + [("V", j) for j in range(n_plain)]
    seq = [seq[int(j)] for j in rng.permutation(len(seq))]
    nv = n_plain
    v_int = None
    if "root" in force:
        seq.insert(0, ("V", nv))
        nv += 1
    if "internal" in force:
        v_int = ("V", nv)
        nv += 1
        seq.insert(int(rng.integers(1, len(seq) + 1)), v_int)
        if seq[-1] is v_int and "leaf" not in force:
            # needs a node after it; a physical node cannot be conjured, so the follower is virtual too
            seq.append(("V", nv))
            nv += 1
    if "leaf" in force:
        seq.append(("V", nv))       # last of the sequence: nobody can choose it as parent
        nv += 1
    n_virtual = nv

    nodes = []
    made_auto = 0
    for tag, payload in seq:
        if tag == "P":
            nodes.append(TreeNodeBasis([basis_list[j] for j in payload]))
        elif auto_virtual and qn_size == 1 and rng.random() < 0.3:
            nodes.append(TreeNodeBasis())       # the library's own way: BasisDummy(("Virtual DOF", global counter))
            made_auto += 1
        else:
            nodes.append(TreeNodeBasis([virtual_basis(qn_size, payload)]))
    parent = [-1] * len(nodes)
    for j in range(1, len(nodes)):
        cands = [p for p in range(j) if len(nodes[p].children) < max_arity]
        if profile == "deep" and rng.random() < 0.7:
            p = cands[-1]
        elif profile == "bushy" and rng.random() < 0.7:
            p = cands[0]
        else:
            p = cands[int(rng.integers(0, len(cands)))]
        parent[j] = p
        nodes[p].add_child(nodes[j])
    if v_int is not None:
        k = seq.index(v_int)
        if not nodes[k].children:
            # re-hang the last node of the sequence (always a leaf) below the forced internal node
            last = len(nodes) - 1
            assert last != k
            nodes[last].parent.children.remove(nodes[last])
            nodes[last].parent = None
            nodes[k].add_child(nodes[last])
            parent[last] = k
    t = BasisTree(nodes[0])
    return t, _describe("random", t, profile=profile, n_virtual=n_virtual, auto_virtual_nodes=made_auto,
                        forced=sorted(force), parent=parent)


def build_tree(kind, basis_list, rng, shuffle=False, **kw):
    """Dispatch on one of ALL_KINDS.  Exceptions of the library constructors propagate."""
    if kind == "linear":
        return linear_tree(basis_list, rng, shuffle)
    if kind == "binary":
        return binary_tree(basis_list, rng, shuffle)
    if kind == "t3ns":
        return t3ns_tree(basis_list, rng, shuffle)
    if kind.startswith("mctdh"):
        order = int(kind[5])
        rest = kind[6:]
        if rest == "":
            return mctdh_tree(basis_list, order, False, None, rng, shuffle)
        if rest == "-contract":
            return mctdh_tree(basis_list, order, True, None, rng, shuffle)
        if rest == "-label":
            return mctdh_tree(basis_list, order, True, "random", rng, shuffle)
    if kind == "random":
        return random_tree(basis_list, rng, **kw)
    if kind == "wide":
        return wide_tree(basis_list, rng, shuffle)
    raise ValueError(kind)


# ------------------------------------------------------------------------------------- derived trees
def rebuilt_copy(basis_tree, child_perms=None):
    """New TreeNodeBasis nodes over the SAME basis-set objects (fresh lists), same connections; optional
    per-node child permutations ``child_perms[i]`` (i = pre-order index in the original tree): the new node's
    child j is the copy of the original child ``child_perms[i][j]``.

    Returns ``(new_tree, old_to_new)`` where ``old_to_new[i]`` is the pre-order index in the new tree of the copy
    of ``basis_tree.node_list[i]``."""
    BasisTree, TreeNodeBasis, _ = _tn()
    old_nodes = basis_tree.node_list
    idx = {id(nd): i for i, nd in enumerate(old_nodes)}
    new_nodes = [TreeNodeBasis(list(nd.basis_sets), bond_dim=nd.bond_dim) for nd in old_nodes]
    for i, nd in enumerate(old_nodes):
        ch = list(nd.children)
        p = list(range(len(ch))) if not child_perms or child_perms[i] is None else list(child_perms[i])
        assert sorted(p) == list(range(len(ch)))
        for j in p:
            new_nodes[i].add_child(new_nodes[idx[id(ch[j])]])
    new_tree = BasisTree(new_nodes[0])
    new_idx = {id(nd): i for i, nd in enumerate(new_tree.node_list)}
    old_to_new = [new_idx[id(new_nodes[i])] for i in range(len(old_nodes))]
    return new_tree, old_to_new


def permuted_children_copy(basis_tree, rng):
    """Isomorphic tree over the same basis sets whose children lists are randomly permuted (at least one node
    with >= 2 children gets a non-identity permutation when such a node exists).

    Returns ``(new_tree, descriptor, info)``; ``info = {"child_perms": [...], "old_to_new": [...], "changed": bool}``
    (see ``rebuilt_copy`` for the meaning)."""
    old_nodes = basis_tree.node_list
    perms = []
    for nd in old_nodes:
        k = len(nd.children)
        perms.append([int(j) for j in rng.permutation(k)] if k >= 2 else list(range(k)))
    multi = [i for i, nd in enumerate(old_nodes) if len(nd.children) >= 2]
    if multi and all(perms[i] == list(range(len(perms[i]))) for i in multi):
        i = multi[int(rng.integers(0, len(multi)))]
        k = len(perms[i])
        s = int(rng.integers(1, k))
        perms[i] = [(j + s) % k for j in range(k)]
    new_tree, old_to_new = rebuilt_copy(basis_tree, perms)
    changed = any(perms[i] != list(range(len(perms[i]))) for i in range(len(perms)))
    desc = _describe("permuted-children", new_tree, child_perms=perms)
    return new_tree, desc, {"child_perms": perms, "old_to_new": old_to_new, "changed": changed}


def auxiliary_space_tree(basis_tree, label="Q"):
    """``basis_tree.add_auxiliary_space(label)``: every non-dummy set P gets a copy Q (made by the library with
    ``BasisSet.copy`` and zeroed labels) on the same node.  Returns ``(new_tree, descriptor, pairs)`` with
    ``pairs = [(P, Q), ...]`` in the order of ``new_tree.basis_list``."""
    t = basis_tree.add_auxiliary_space(label)
    pairs = []
    for old, new in zip(basis_tree.node_list, t.node_list):
        it = iter(new.basis_sets)
        for b in old.basis_sets:
            p = next(it)
            assert p is b
            if not is_dummy(b):
                pairs.append((p, next(it)))
    return t, _describe("auxiliary-space", t, label=label), pairs
