#!/usr/bin/env python3
"""Sensitivity validation: apply one small mutation at a time to a scratch copy of /repo and run the quick check of
the property it should break with REPO_ROOT pointing at the copy.  Not part of any registered command.

usage: tools/mutants.py [--only C03,C09] [--list]
Results are appended to /verif/mutants/results.jsonl (one line per mutant run).
"""
import json
import os
import shutil
import subprocess
import sys
import tempfile
import time

ROOT = os.path.dirname(os.path.dirname(os.path.abspath(__file__)))

# (id, properties expected to fire, file, old, new)   - `old` must occur exactly once unless count given
M = [
    # ---- C01 ------------------------------------------------------------------------------------------------
    ("C01-qr-unpermuted", ["C01"], "renormalizer/mps/symbolic_mpo.py", "r2 = r[:rank, np.argsort(p)]", "r2 = r[:rank, :]"),
    ("C01-complementary-factor", ["C01"], "renormalizer/mps/symbolic_mpo.py",
     "out_op = OpTuple(symbol, qn, factor=factor[non_red_one_col[i] - 1])", "out_op = OpTuple(symbol, qn, factor=1.0)"),
    ("C01-intra-site-order", ["C01"], "renormalizer/model/op.py", "ops.append(Op.product(elem_ops))",
     "ops.append(Op.product(elem_ops[::-1]))"),
    ("C01-swap-not-swapped", ["C01"], "renormalizer/mps/symbolic_mpo.py",
     "row = [op.out_ops1_idx, op.site2_op_idx, op.site1_op_idx, n_primary_ops + i, 0]",
     "row = [op.out_ops1_idx, op.site1_op_idx, op.site2_op_idx, n_primary_ops + i, 0]"),
    ("C01-duplicates-not-summed", ["C01"], "renormalizer/mps/symbolic_mpo.py", "    factor = mask.dot(factor)\n",
     "    factor = np.array([factor[list(unique_inverse).index(k)] for k in range(len(new_table))])\n"),
    # ---- C03 ------------------------------------------------------------------------------------------------
    ("C03-add-labels-unaligned", ["C03", "C06"], "renormalizer/mps/mp.py", "zip(new_mps.qn, other.qn)]", "zip(self.qn, other.qn)]"),
    ("C03-apply-qntot", ["C03", "C06"], "renormalizer/mps/mpo.py", "        new_mps.qntot += self.qntot\n", "        pass\n"),
    ("C03-conj-coeff", ["C03"], "renormalizer/mps/mps.py", "new_mps.coeff = new_mps.coeff.conjugate()", "new_mps.coeff = new_mps.coeff"),
    ("C03-conj_trans-no-transpose", ["C03"], "renormalizer/mps/mpo.py", "new_mpo[i] = moveaxis(self[i], (1, 2), (2, 1)).conj()",
     "new_mpo[i] = self[i].conj()"),
    ("C03-distance-sign", ["C03"], "renormalizer/mps/mp.py", "            - l1dotl2\n            - l1dotl2.conjugate()).real",
     "            - l1dotl2\n            + l1dotl2.conjugate()).real"),
    # ---- C04 ------------------------------------------------------------------------------------------------
    ("C04-no-switch-direction", ["C04"], "renormalizer/mps/mp.py",
     "        if (not self.to_right and idx == 1) or (self.to_right and idx == self.site_num - 2):\n            self._switch_direction()",
     "        if False:\n            self._switch_direction()"),
    ("C04-lossy-lossless", ["C04", "C05"], "renormalizer/mps/mp.py", "                m_trunc = min(m_trunc, len(sigma))",
     "                m_trunc = max(1, min(m_trunc, len(sigma)) - 1)"),
    ("C04-qr-not-absorbed", ["C04", "C03"], "renormalizer/mps/mp.py", "            self[idx + 1] = tensordot(vt, self[idx + 1], axes=1)",
     "            self[idx + 1] = tensordot(vt * 1.001, self[idx + 1], axes=1)"),
    # ---- C05 ------------------------------------------------------------------------------------------------
    ("C05-keep-smallest", ["C05", "C18"], "renormalizer/mps/svd_qn.py", "s_order = np.argsort(su)[::-1]", "s_order = np.argsort(su)"),
    ("C05-fixed-bond-index", ["C05"], "renormalizer/utils/configs.py", "bond_idx = idx + 1 if left else idx", "bond_idx = idx if left else idx"),
    ("C05-both-takes-larger", ["C05"], "renormalizer/utils/configs.py",
     "            trunc = min(\n                self._threshold_m_trunc(sigma), self._fixed_m_trunc(sigma, idx, left)",
     "            trunc = max(\n                self._threshold_m_trunc(sigma), self._fixed_m_trunc(sigma, idx, left)"),
    # ---- C06 ------------------------------------------------------------------------------------------------
    ("C06-mpo-qn-sign", ["C06", "C03"], "renormalizer/mps/symbolic_mpo.py", "    qn += sum(primary_ops[i].qn for i in symbol[-k:])",
     "    qn -= sum(primary_ops[i].qn for i in symbol[-k:])"),
    ("C06-stale-labels-after-truncation", ["C06", "C05", "C04"], "renormalizer/mps/mp.py",
     "                self.qn[idx + 1] = np.array(qnlset[:m_trunc])", "                self.qn[idx + 1] = np.array(qnlset[-m_trunc:])"),
    ("C06-random-wrong-sector-mask", ["C06"], "renormalizer/mps/mps.py", "        last_mt[~qnmask] = 0\n", "        pass\n"),
    # ---- C07 ------------------------------------------------------------------------------------------------
    ("C07-freq-environ-max-length", ["C07"], "renormalizer/mps/mps.py", "(max_length < len(hashes))", "(max_length <= len(hashes) - 2)"),
    ("C07-2site-rdm-no-conj", ["C07"], "renormalizer/mps/mps.py", "tensor = tensordot(tensor, self[kms].conj(), ([2],[0]))",
     "tensor = tensordot(tensor, self[kms], ([2],[0]))"),
    ("C07-entropy-log2", ["C07"], "renormalizer/utils/utils.py", None, None),       # filled in below if pattern exists
    ("C07-expectation-left-env", ["C07", "C03"], "renormalizer/mps/mps.py", "        r = environ.read(\"R\", 1)\n", "        r = environ.read(\"R\", 1) * 1.0001\n"),
    # ---- C09 ------------------------------------------------------------------------------------------------
    ("C09-tdrk4-weights", ["C09"], "renormalizer/mps/mps.py", "            k2.scale(2/6*evolve_dt), \n", "            k2.scale(1/6*evolve_dt), \n"),
    ("C09-ps-no-backward", ["C09"], "renormalizer/mps/mps.py", "                            1j * evolve_dt / 2, u.ravel()", "                            0j * evolve_dt / 2, u.ravel()"),
    ("C09-ps-full-step", ["C09"], "renormalizer/mps/mps.py", "                        -1j * evolve_dt / 2, mps[imps].ravel().array", "                        -1j * evolve_dt, mps[imps].ravel().array"),
    ("C09-vmf-no-projector", ["C09"], "renormalizer/mps/mps.py", "        if not islast:\n            proj = projector(y0, left, ovlp_inv1, ovlp0)",
     "        if False:\n            proj = projector(y0, left, ovlp_inv1, ovlp0)"),
    ("C09-taylor-coefficient", ["C09", "C19"], "renormalizer/utils/rk.py", "[1.0 / factorial(i) for i in range(self.order + 1)]",
     "[1.0 / factorial(i) if i != 3 else 1.0 / 5 for i in range(self.order + 1)]"),
    ("C09-cmf-midpoint-at-end", ["C09"], "renormalizer/mps/mps.py", "half_dt = -1j * evolve_dt / 2 if imag_time else evolve_dt / 2",
     "half_dt = -1j * evolve_dt if imag_time else evolve_dt"),
    # ---- C10 ------------------------------------------------------------------------------------------------
    ("C10-exact-propagator-shift", ["C10"], "renormalizer/mps/mpo.py", "mpo = mpo.scale(np.exp(shift * x), inplace=True)", "mpo = mpo.scale(np.exp(-shift * x), inplace=True)"),
    ("C10-normalize-coeff-only", ["C10"], "renormalizer/mps/mps.py", "    tn.scale(1.0 / tn_norm, inplace=True)\n", "    pass\n"),
    ("C10-evolve_exact-phase", ["C10", "C13"], "renormalizer/mps/mps.py", "        new_mps.coeff *= np.exp(-1j * h_mpo.offset * evolve_dt)", "        self.coeff *= np.exp(-1j * h_mpo.offset * evolve_dt)"),
    ("C10-ex-propagator-term10", ["C10"], "renormalizer/mps/mpo.py", "+ phop[r\"b^\\dagger + b\"] * ph.term10", "- phop[r\"b^\\dagger + b\"] * ph.term10"),
    # ---- C13 ------------------------------------------------------------------------------------------------
    ("C13-copy-returns-views", ["C13"], "renormalizer/mps/mp.py", "            new[i] = self[i].copy()", "            new[i] = self[i]"),
    ("C13-ps-evolves-in-place", ["C13"], "renormalizer/mps/mps.py", None, None),
    ("C13-scale-not-inplace-aliases", ["C13"], "renormalizer/mps/mp.py", "        new_mp = self if inplace else self.copy()", "        new_mp = self"),
    ("C13-compressed-sum-in-place", ["C13"], "renormalizer/mps/lib.py", "new_mps = mps_list[0].copy().canonicalise()", "new_mps = mps_list[0].canonicalise()"),
    # ---- later additions: tree parts, kernels, and variations on the seeded changes ---------------------------
    ("C01-dedup-absolute-zero", ["C01"], "renormalizer/mps/symbolic_mpo.py",
     "mask = np.abs(factor) > (np.max(np.abs(factor)) * 1e-15)", "mask = ~np.isclose(factor, 0)"),
    ("C01-model-drops-identical-duplicates", ["C01"], "renormalizer/model/model.py", "        for term_op in terms:\n            for name in term_op.dofs:",
     "        for term_op in dict.fromkeys(terms):\n            for name in term_op.dofs:"),
    ("C13-tree-imag-time-in-place", ["C13"], "renormalizer/tn/tree.py", "            ttns = self.copy()\n", "            ttns = self\n"),
    ("C06-tree-2site-labels", ["C06", "C08"], "renormalizer/tn/tree.py", "            node.qn = self.qntot - msqn", "            node.qn = msqn"),
    ("C08-tree-2site-m-ignored", ["C05"], "renormalizer/tn/tree.py", "            m_trunc = min(m_trunc, len(s))\n", "            m_trunc = len(s)\n"),
    ("C08-tree-hop2-parent-env", ["C08", "C12"], "renormalizer/tn/hop_expr.py",
     "    args.append(eparent.environ_parent)\n    args.append(ttne.get_parent_indices(eparent, ttns, ttno))",
     "    args.append(eparent.environ_parent * 1.01)\n    args.append(ttne.get_parent_indices(eparent, ttns, ttno))"),
    ("C10-tree-aux-keeps-charge", ["C10"], "renormalizer/tn/treebase.py", "                    basis_q.sigmaqn = np.zeros_like(basis.sigmaqn)\n", "                    pass\n"),
    ("C10-tree-imag-sign", ["C10", "C12"], "renormalizer/tn/tree.py", "            coeff = 1\n            tau = tau.imag", "            coeff = 1\n            tau = -tau.imag"),
    ("C12-ps-backward-forward-order", ["C12"], "renormalizer/tn/time_evolution.py",
     "    local_steps2 = _tdvp_ps_backward(ttns, ttno, ttne, coeff, tau / 2)", "    local_steps2 = _tdvp_ps_forward(ttns, ttno, ttne, coeff, tau / 2)"),
    ("C11-tree-add-coeff", ["C11"], "renormalizer/tn/tree.py", "                tensor1, tensor2 = tensor1 * coeff1, tensor2 * coeff2", "                tensor1, tensor2 = tensor1 * coeff1, tensor2 * coeff1"),
    ("C14-mps-load-qnidx", ["C14"], "renormalizer/mps/mps.py", "        mp.qnidx = int(npload[\"qnidx\"])", "        mp.qnidx = int(npload[\"qnidx\"]) if int(npload[\"qnidx\"]) < 9 else 0"),
    ("C10-imag-cmf-midpoint-real-time", ["C10"], "renormalizer/mps/mps.py", "half_dt = -1j * evolve_dt / 2 if imag_time else evolve_dt / 2",
     "half_dt = evolve_dt / 2"),
    ("C14-dump-fails-silently-after-step-2", ["C14"], "renormalizer/utils/tdmps.py", "        d = self.get_dump_dict()\n        os.makedirs(self.dump_dir, exist_ok=True)",
     "        d = self.get_dump_dict()\n        if len(self.evolve_times) > 2:\n            raise IOError('disk quota')\n        os.makedirs(self.dump_dir, exist_ok=True)"),
    # ---- monitors added after the reach map ----------------------------------------------------------------------
    ("C17-rdm2-transposed", ["C17"], "renormalizer/mps/gs.py", "rdm2 = rdm2.transpose(0, 3, 1, 2)", "rdm2 = rdm2.transpose(0, 3, 2, 1)"),
    ("C17-rdm1-beta-from-alpha", ["C17"], "renormalizer/mps/gs.py", "opbb = process_op(a_dag_ops[2*i+1] * a_ops[2*j+1])",
     "opbb = process_op(a_dag_ops[2*i+1] * a_ops[2*j])"),
    ("C16-j-constant-len0", ["C16"], "renormalizer/model/model.py", "        if len(j_set) == 1:\n            return j_set.pop()",
     "        if len(j_set) == 0:\n            return j_set.pop()"),
    ("C16-reorganisation-energy-omega0", ["C16"], "renormalizer/model/phonon.py", "0.5 * dis_diff ** 2 * self.omega[1] ** 2",
     "0.5 * dis_diff ** 2 * self.omega[0] ** 2"),
    ("C16-ex-zpe-ground-frequencies", ["C16"], "renormalizer/model/mol.py", "            e += ph.omega[1]\n", "            e += ph.omega[0]\n"),
    ("C16-quantity-sub-adds", ["C16"], "renormalizer/utils/quantity.py", "return Quantity(self.as_au() - other.as_au())",
     "return Quantity(self.as_au() + other.as_au())"),
    ("C16-intersite-ignores-scale-unit", ["C16"], "renormalizer/mps/mpo.py", "op = scale.as_au() * Op.product(ops)", "op = scale.value * Op.product(ops)"),
    ("C16-switch-scheme-keeps-scheme", ["C16"], "renormalizer/model/model.py", "return HolsteinModel(self.mol_list, self.j_matrix, scheme)",
     "return HolsteinModel(self.mol_list, self.j_matrix, self.scheme)"),
    ("C20-matching2-stops-early", ["C20"], "renormalizer/lib/bipartite_matching/bipartite_matching.py",
     "    for u in range(nU):\n        augment(u, bigraph, [False] * nV, match)", "    for u in range(max(nU - 1, 1)):\n        augment(u, bigraph, [False] * nV, match)"),
    ("C03-normalize-norm-to-coeff-divides", ["C03"], "renormalizer/mps/mps.py", "        new_coeff = tn.coeff * tn_norm\n", "        new_coeff = tn.coeff / tn_norm\n"),
    ("C14-thermal-result-misses-last-energy", ["C14"], "renormalizer/mps/thermalprop.py", 'dump_dict["energies"] = self.energies',
     'dump_dict["energies"] = self.energies[:-1]'),
    ("C14-state-dump-all-off-by-one", ["C14"], "renormalizer/utils/tdmps.py", 'self.job_name+"_mps_"+str(len(self.evolve_times)-1) + ".npz")',
     'self.job_name+"_mps_"+str(len(self.evolve_times)-2) + ".npz")'),
    ("C09-environ-not-stored-for-dimension-one", ["C09"], "renormalizer/mps/lib.py",
     "                        domain, mps_conj[siteidx])\n            self.write(domain, siteidx, itensor)",
     "                        domain, mps_conj[siteidx])\n            if mps[siteidx].shape[0] != 1 or mps[siteidx].shape[-1] != 1 or (domain, siteidx) not in self._virtual_disk:\n                self.write(domain, siteidx, itensor)"),
    # (dropping the UPPER diagonal instead would be an equivalent mutant: numpy's eigh reads the lower triangle only)
    ("C18-krylov-fallback-forgets-lower-diagonal", ["C18"], "renormalizer/lib/krylov/krylov.py",
     "h = np.diag(alpha) + np.diag(beta, k=-1) + np.diag(beta, k=1)", "h = np.diag(alpha) + np.diag(beta, k=1)"),
    ("C18-svd-fallback-full-matrices", ["C18"], "renormalizer/mps/svd_qn.py",
     'full_matrices=full_matrices and not opt,\n            lapack_driver="gesvd",', 'full_matrices=full_matrices,\n            lapack_driver="gesvd",'),
    ("C15-simplify-sums-abs", ["C15"], "renormalizer/model/op.py", None, None),
    ("C18-svd-qn-block-order", ["C18", "C04"], "renormalizer/mps/svd_qn.py", None, None),
    ("C20-cover-drops-isolated", ["C20"], "renormalizer/lib/bipartite_matching/bipartite_matching.py", None, None),
    # ---- session 3: under-represented properties -------------------------------------------------------------
    ("C02-cell-terms-overwritten", ["C02"], "renormalizer/tn/symbolic_ttno.py", "            mo_tensor[i] += mo_elem[0, ..., 0]",
     "            mo_tensor[i] = mo_elem[0, ..., 0]"),
    ("C02-factor-float32", ["C02"], "renormalizer/tn/symbolic_ttno.py", "            op = composed_op.factor\n",
     "            op = float(np.float32(composed_op.factor))\n"),
    ("C11-bond-entropy-of-sigma", ["C11"], "renormalizer/tn/tree.py", "calc_vn_entropy(sigma ** 2) for sigma in s_array",
     "calc_vn_entropy(sigma) for sigma in s_array"),
    ("C11-mutual-info-not-halved", ["C11"], "renormalizer/tn/tree.py", "- entropy_2dof[dof_pair]) / 2", "- entropy_2dof[dof_pair]) / 1"),
    ("C12-vmf-inverse-not-conjugated", ["C12"], "renormalizer/tn/time_evolution.py", "@ evecs.T.conj()", "@ evecs.T"),
    ("C12-tdrk4-third-order", ["C12"], "renormalizer/tn/time_evolution.py", "    for i in range(4):\n        termlist.append(ttno.contract",
     "    for i in range(3):\n        termlist.append(ttno.contract"),
    ("C19-cash-karp-b-digit", ["C19"], "renormalizer/utils/rk.py", "44275/110592, 253/4096, 0]])", "44275/110592, 253/4097, 0]])"),
]


def prepare():
    out = []
    for m in M:
        mid, props, f, old, new = m
        if mid == "C07-entropy-log2":
            src = open(os.path.join("/repo", f)).read()
            if "np.log(" in src:
                old, new = "np.log(", "np.log2("
            else:
                continue
        if mid == "C13-ps-evolves-in-place":
            old = "            mps = self.to_complex()\n            if self.evolve_config.ivp_solver != \"krylov\":\n                coef = 1j\n\n        # the sweeps assume"
            new = "            mps = self.to_complex(inplace=True)\n            if self.evolve_config.ivp_solver != \"krylov\":\n                coef = 1j\n\n        # the sweeps assume"
        if old is None:
            continue        # placeholder without a pattern
        out.append((mid, props, f, old, new))
    return out


def main():
    only = None
    if "--only" in sys.argv:
        only = set(sys.argv[sys.argv.index("--only") + 1].split(","))
    muts = prepare()
    if "--list" in sys.argv:
        for m in muts:
            print(m[0], m[1])
        return
    os.makedirs(os.path.join(ROOT, "mutants"), exist_ok=True)
    res_path = os.path.join(ROOT, "mutants", "results.jsonl")
    for mid, props, f, old, new in muts:
        if only and not (only & set(props)) and mid not in only:
            continue
        scratch = tempfile.mkdtemp(prefix="rv_mut_")
        try:
            subprocess.run(["rsync", "-a", "--exclude", ".git", "/repo/", scratch + "/"], check=True)
            path = os.path.join(scratch, f)
            src = open(path).read()
            n = src.count(old)
            if n < 1:
                print(f"{mid}: PATTERN NOT FOUND", flush=True)
                continue
            src = src.replace(old, new, 1) if mid != "C07-entropy-log2" else src.replace(old, new)
            open(path, "w").write(src)
            for prop in props:
                if only and prop not in only and mid not in only:
                    continue
                t0 = time.time()
                env = dict(os.environ, REPO_ROOT=scratch, VERIF_EVIDENCE_SUFFIX=".mut")
                p = subprocess.run(["./check", prop, "quick"], cwd=ROOT, env=env, capture_output=True, text=True, timeout=3600)
                sigs = sorted({ln.split("signature=")[1].split(" cases=")[0] for ln in p.stdout.splitlines()
                               if ln.startswith("VIOLATION") and "signature=" in ln})
                rec = {"mutant": mid, "property": prop, "exit": p.returncode, "caught": p.returncode == 1,
                       "signatures": sigs[:8], "wall": round(time.time() - t0, 1), "file": f}
                print(json.dumps(rec), flush=True)
                with open(res_path, "a") as fh:
                    fh.write(json.dumps(rec) + "\n")
        finally:
            shutil.rmtree(scratch, ignore_errors=True)


if __name__ == "__main__":
    main()
